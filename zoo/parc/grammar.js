// C06: a node with MORE THAN 255 raw children.  `program` has two structural children, every
// comment between them is an extra child of the same node (no repeat rule, so no balancing).
module.exports = grammar({
  name: 'parc',
  extras: $ => [/\s/, $.comment],
  rules: {
    program: $ => seq('(', optional($.word), ')'),
    word: $ => /[a-z]+/,
    comment: $ => /#[^\n]*/,
  }
});
