// An external scanner that READS AHEAD AND THEN DECLINES: `tagged` = lower-case word, optional
// blanks, '!'.  Without the '!' the scanner returns false after having inspected the word and
// the blanks, and the internal lexer produces a plain `word` at the same position — whose validity
// therefore depends on text well beyond its own end (recorded in lookahead_bytes by
// ts_lexer_finish after the scanner call).  Added for C01/C12.
module.exports = grammar({
  name: 'declscan',
  externals: $ => [$.tagged],
  extras: $ => [/\s/],
  rules: {
    document: $ => repeat($._item),
    _item: $ => choice($.tagged, $.word, $.num, '?', '!', $.group),
    group: $ => seq('(', repeat($._item), ')'),
    word: $ => /[a-z]+/,
    num: $ => /[0-9]+/,
  }
});
