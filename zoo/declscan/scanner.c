#include "tree_sitter/parser.h"

enum TokenType { TAGGED };

void *tree_sitter_declscan_external_scanner_create(void) { return 0; }
void tree_sitter_declscan_external_scanner_destroy(void *p) { (void)p; }
unsigned tree_sitter_declscan_external_scanner_serialize(void *p, char *b) { (void)p; (void)b; return 0; }
void tree_sitter_declscan_external_scanner_deserialize(void *p, const char *b, unsigned n) { (void)p; (void)b; (void)n; }

static bool blank(int32_t c) { return c == ' ' || c == '\t' || c == '\n' || c == '\r'; }
static bool lower(int32_t c) { return c >= 'a' && c <= 'z'; }

bool tree_sitter_declscan_external_scanner_scan(void *p, TSLexer *lexer, const bool *valid) {
  (void)p;
  if (!valid[TAGGED]) return false;
  while (blank(lexer->lookahead)) lexer->advance(lexer, true);
  if (!lower(lexer->lookahead)) return false;
  while (lower(lexer->lookahead)) lexer->advance(lexer, false);
  // look past blanks for the tag; decline (after having read them) when it is missing
  while (lexer->lookahead == ' ' || lexer->lookahead == '\t') lexer->advance(lexer, false);
  if (lexer->lookahead != '!') return false;
  lexer->advance(lexer, false);
  lexer->mark_end(lexer);
  lexer->result_symbol = TAGGED;
  return true;
}
