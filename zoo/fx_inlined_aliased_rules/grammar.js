export default grammar({
  name: "inlined_aliased_rules",

  extras: $ => [/\s/],

  inline: $ => [$.expression],

  rules: {
    statement: $ => seq($.expression, ";"),

    expression: $ =>
      choice(
        $.call_expression,
        $.member_expression,
        alias($.identifier, $.variable_name),
      ),

    call_expression: $ => prec.left(seq($.expression, "(", $.expression, ")")),

    member_expression: $ =>
      prec.left(
        1,
        seq($.expression, ".", alias($.identifier, $.property_name)),
      ),

    identifier: $ => /[a-z]+/,
  },
});
