export default grammar({
  name: "next_sibling_from_zwt",
  extras: $ => [
    /\s|\\\r?\n/,
  ],

  rules: {
    source: $ => seq(
      'a',
      $._bc,
      'd',
      'e',
      'f',
    ),

    _bc: $ => seq(
      'b',
      'c',
    ),
  }
});
