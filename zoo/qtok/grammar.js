// C20: quote characters as anonymous tokens, so that error recovery prints (MISSING "'"), (MISSING "\""), (MISSING ")")
// and (UNEXPECTED '"'), (UNEXPECTED ')') side by side in one S-expression
module.exports = grammar({
  name: 'qtok',
  extras: $ => [/\s/],
  rules: {
    program: $ => repeat($._item),
    _item: $ => choice($.word, $.sq, $.dq, $.group, $.pair),
    sq: $ => seq("'", repeat($.word), "'"),
    dq: $ => seq('"', repeat($.word), '"'),
    group: $ => seq('(', repeat($._item), ')'),
    pair: $ => seq('[', field('left', $._item), ',', field('right', $._item), ']'),
    word: $ => /[a-z]+/,
  }
});
