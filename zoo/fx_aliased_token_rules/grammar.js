// This grammar shows that `ALIAS` rules can be applied directly to `TOKEN` and `IMMEDIATE_TOKEN`
// rules.

export default grammar({
    name: 'aliased_token_rules',

    extras: $ => [/\s/],

    rules: {
        expression: $ => seq(
            'a',
            alias(token(seq('b', 'c')), $.X),
            alias(token.immediate(seq('d', 'e')), $.Y),
        ),
    }
});