export default grammar({
  name: 'precedence_on_subsequence',

  rules: {
    expression: $ => prec.left(choice(
      $.function_call,
      $.identifier,
      $.scope_resolution,
    )),

    function_call: $ => choice(
      seq($.identifier, $.expression),
      prec(1, seq($.identifier, $.block)),
      prec(-1, seq($.identifier, $.do_block)),
      seq($.identifier, prec(1, seq($.expression, $.block))),
      seq($.identifier, prec(-1, seq($.expression, $.do_block))),
    ),

    scope_resolution: $ => prec.left(1, choice(
      seq($.expression, '::', $.expression),
      seq('::', $.expression),
    )),

    block: _ => '{}',

    do_block: _ => 'do end',

    identifier: _ => /[a-zA-Z]+/,
  },
});
