export default grammar({
  name: 'lexical_conflicts_due_to_state_merging',

  rules: {
    expression: $ => choice(
      $.conditional,
      $.quotient,
      $.regex,
      $.number,
      $.parenthesized,
    ),

    conditional: $ => prec.left(1, seq(
      'if',
      $.parenthesized,
      $.expression
    )),

    quotient: $ => prec.left(seq(
      $.expression,
      '/',
      $.expression
    )),

    regex: $ => /\/[^/\n]+\//,

    number: $ => /\d+/,

    parenthesized: $ => seq('(', $.expression, ')'),
  },
});
