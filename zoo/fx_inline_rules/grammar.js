export default grammar({
  name: "inline_rules",

  extras: $ => [/\s/],

  inline: $ => [$.expression],

  rules: {
    program: $ => repeat1($.statement),
    statement: $ => seq($.expression, ";"),
    expression: $ => choice(
      $.sum,
      $.product,
      $.number,
      $.parenthesized_expression,
    ),
    parenthesized_expression: $ => seq("(", $.expression, ")"),
    sum: $ => prec.left(seq($.expression, "+", $.expression)),
    product: $ => prec.left(2, seq($.expression, "*", $.expression)),
    number: $ => /\d+/,
  }
})
