const RESERVED_NAMES = ["if", "while", "var"];
const RESERVED_PROPERTY_NAMES = ["var"];

export default grammar({
  name: "reserved_words",

  reserved: {
    global: $ => RESERVED_NAMES,
    property: $ => RESERVED_PROPERTY_NAMES,
  },

  word: $ => $.identifier,

  rules: {
    program: $ => repeat($._statement),

    block: $ => seq("{", repeat($._statement), "}"),

    _statement: $ => choice(
      $.var_declaration,
      $.if_statement,
      $.while_statement,
      $.expression_statement,
    ),

    var_declaration: $ => seq("var", $.identifier, "=", $._expression, ";"),

    if_statement: $ => seq("if", $.parenthesized_expression, $.block),

    while_statement: $ => seq("while", $.parenthesized_expression, $.block),

    expression_statement: $ => seq($._expression, ";"),

    _expression: $ => choice(
      $.identifier,
      $.parenthesized_expression,
      $.call_expression,
      $.member_expression,
      $.object,
      $.regex,
    ),

    parenthesized_expression: $ => seq("(", $._expression, ")"),

    member_expression: $ => seq($._expression, ".", $.identifier),

    call_expression: $ => seq($._expression, "(", repeat(seq($._expression, ",")), ")"),

    object: $ => seq("{", repeat(seq(choice($.pair, $.getter), ",")), "}"),

    regex: $ => seq('/', $.regex_pattern, '/'),

    regex_pattern: $ => token(prec(-1, /[^/\n]+/)),

    pair: $ => seq(reserved('property', $.identifier), ":", $._expression),

    getter: $ => seq(
      "get",
      reserved('property', $.identifier),
      "(",
      ")",
      $.block,
    ),

    identifier: $ => /[a-z_]\w*/,
  },
});
