// C04: the same rule is aliased in one production and not (or differently) in sibling productions that
// share prefix and state, so an edit BEHIND a reused subtree can change its visible type.
module.exports = grammar({
  name: 'c04alias',
  extras: $ => [/\s/],
  rules: {
    program: $ => repeat($.stmt),
    stmt: $ => choice(
      seq(alias($.name, $.target), '=', $.value, '!'),
      seq($.name, '=', $.value, '?'),
      seq(alias($.name, $.label), '=', $.value, ';'),
      seq('(', repeat($.stmt), ')'),
    ),
    name: $ => seq($.word, repeat(seq('.', $.word))),
    value: $ => choice($.number, $.name, seq('[', repeat($.value), ']')),
    word: $ => /[a-z]+/,
    number: $ => /[0-9]+/,
  }
});
