export default grammar({
  name: 'unicode_classes',

  rules: {
    program: $ => repeat(choice(
      $.lower,
      $.upper,
      $.math_sym,
      $.letter_number,
    )),

    lower: _ => /\p{Ll}\p{L}*/,

    upper: _ => /\p{Lu}\p{L}*/,

    math_sym: _ => /\p{Sm}+/,

    letter_number: _ => /\p{Letter_Number}/,
  },
});
