export default grammar({
  name: 'named_rule_aliased_as_anonymous',

  rules: {
    a: $ => seq(
      alias($.b, 'the-alias'),
      $.c,
      $.b,
    ),

    b: _ => 'B',

    c: _ => 'C',
  },
});
