; variant C: holes excluded for directives; outputs are injected as the PARENT (= root) language
((directive (code) @injection.content) (#set! injection.language "stmt"))
((output (code) @injection.content) (#set! injection.parent) (#set! injection.include-children))
((text) @injection.content (#set! injection.language "host") (#set! injection.combined))
