; variant B: include-children, and all text chunks combined into one host document
((directive (code) @injection.content) (#set! injection.language "stmt") (#set! injection.include-children))
((text) @injection.content (#set! injection.language "host") (#set! injection.combined))
; variant D: a SECOND combined pattern (two combined layers are created by one `HighlightIterLayer::new`)
((output (code) @injection.content) (#set! injection.language "stmt") (#set! injection.combined))
