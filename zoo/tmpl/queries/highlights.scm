(text) @t.text
["<%" "%>" "<%="] @t.delim
(directive) @t.directive
(output) @t.output
(hole) @t.hole
(hole_name) @t.name
