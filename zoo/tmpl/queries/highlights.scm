(text) @t.text
["<%" "%>" "<%="] @t.delim
(directive) @t.directive
(output) @t.output
(code) @t.code
(hole) @t.hole
(hole_name) @t.name
