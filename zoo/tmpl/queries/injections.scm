; variant A: per-directive injection of the code's own text (holes excluded), combined outputs
((directive (code) @injection.content) (#set! injection.language "stmt"))
((output (code) @injection.content) (#set! injection.language "stmt") (#set! injection.combined))
