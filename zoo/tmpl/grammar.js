// Template language for C17 (injections): text, <% code %> directives, <%= code %> outputs.
// `code` is a node whose own text is made of HIDDEN tokens (so that an injection without
// include-children still has content) interleaved with visible `hole` children `[[name]]`.
module.exports = grammar({
  name: 'tmpl',
  extras: $ => [],
  rules: {
    template: $ => repeat(choice($.text, $.directive, $.output)),
    text: $ => token(prec(-1, /[^<]+|</)),
    directive: $ => seq('<%', optional($.code), '%>'),
    output: $ => seq('<%=', optional($.code), '%>'),
    code: $ => repeat1(choice($._code_text, $.hole)),
    _code_text: $ => token(choice(/[^%\[]+/, '%', '[')),
    hole: $ => seq('[[', $.hole_name, ']]'),
    hole_name: $ => /[a-z]+/,
  }
});
