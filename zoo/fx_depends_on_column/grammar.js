export default grammar({
  name: "depends_on_column",
  rules: {
    x_is_at: ($) => seq(/[ \r\n]*/, choice($.odd_column, $.even_column), "x"),
  },
  externals: ($) => [$.odd_column, $.even_column],
});
