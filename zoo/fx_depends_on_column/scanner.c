#include "tree_sitter/parser.h"

enum TokenType { ODD_COLUMN, EVEN_COLUMN };

// The scanner is stateless

void *tree_sitter_depends_on_column_external_scanner_create() {
    return NULL;
}

void tree_sitter_depends_on_column_external_scanner_destroy(
    void *payload
) {
    // no-op
}

unsigned tree_sitter_depends_on_column_external_scanner_serialize(
    void *payload,
    char *buffer
) {
    return 0;
}

void tree_sitter_depends_on_column_external_scanner_deserialize(
    void *payload,
    const char *buffer,
    unsigned length
) {
    // no-op
}

bool tree_sitter_depends_on_column_external_scanner_scan(
    void *payload,
    TSLexer *lexer,
    const bool *valid_symbols
) {
    lexer->result_symbol =
        lexer->get_column(lexer) % 2 ? ODD_COLUMN : EVEN_COLUMN;
    return true;
}
