// Fields INHERITED through hidden rules that carry SEVERAL differently named fields: `_entry` (key, value),
// `_tail` (extra, value — `value` reaches `triple` through two hidden children), `_body` (first, second, third).
module.exports = grammar({
  name: 'zzfld',
  extras: $ => [/\s/],
  rules: {
    doc: $ => repeat(choice($.pair, $.triple, $.rec)),
    pair: $ => seq($._entry, ';'),
    _entry: $ => seq(field('key', $.word), ':', field('value', $.number)),
    triple: $ => seq('<', $._entry, optional($._tail), '>'),
    _tail: $ => seq(',', field('extra', $.word), optional(seq('=', field('value', $.number)))),
    rec: $ => seq('{', field('name', $.word), $._body, '}'),
    _body: $ => seq(field('first', $._atom), field('second', $._atom), optional(field('third', $._atom))),
    _atom: $ => choice($.word, $.number),
    word: $ => /[a-z]+/,
    number: $ => /[0-9]+/,
  }
});
