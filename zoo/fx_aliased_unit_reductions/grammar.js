// Normally, when there are invisible rules (rules whose names start with an `_`) that simply wrap
// another rule, there is an optimization at parser-generation time called *Unit Reduction
// Elimination* that avoids creating nodes for those rules at runtime. One case where this
// optimization must *not* be applied is when those invisible rules are going to be aliased within
// their parent rule. In that situation, eliminating the invisible node could cause the alias to be
// incorrectly applied to its child.

export default grammar({
    name: 'aliased_unit_reductions',

    extras: $ => [/\s/],

    rules: {
        statement: $ => seq(
            $._a,

            // The `_b` rule is always aliased to `b_prime`, so it is internally treated
            // as a simple alias.
            alias($._b, $.b_prime),

            // The `_c` rule is used without an alias in addition to being aliased to `c_prime`,
            // so it is not a simple alias.
            alias($._c, $.c_prime),

            $._c,
            ';'
        ),

        _a: $ => $._A,
        _b: $ => $._B,
        _c: $ => $._C,
        _A: $ => $.identifier,
        _B: $ => $.identifier,
        _C: $ => $.identifier,

        identifier: $ => /[a-z]+/,
    }
});