// This grammar has an external scanner whose `scan` method needs to be able to check for the
// validity of an *internal* token. This is done by including the names of that internal token
// (`line_break`) in the grammar's `externals` field.

export default grammar({
    name: 'external_and_internal_tokens',

    externals: $ => [
        $.string,
        $.line_break,
    ],

    extras: $ => [/\s/],

    rules: {
        statement: $ => seq(
            $._expression,
            $._expression,
            $.line_break,
        ),

        _expression: $ => choice(
            $.string,
            $.variable,
            $.number,
        ),

        variable: $ => /[a-z]+/,
        number: $ => /\d+/,
        line_break: $ => '\n',
    }
});