#include "tree_sitter/parser.h"

enum {
  STRING,
  LINE_BREAK
};

void *tree_sitter_external_and_internal_tokens_external_scanner_create() {
  return NULL;
}

void tree_sitter_external_and_internal_tokens_external_scanner_destroy(void *payload) {}

unsigned tree_sitter_external_and_internal_tokens_external_scanner_serialize(
  void *payload,
  char *buffer
) { return 0; }

void tree_sitter_external_and_internal_tokens_external_scanner_deserialize(
  void *payload,
  const char *buffer,
  unsigned length
) {}

bool tree_sitter_external_and_internal_tokens_external_scanner_scan(
  void *payload,
  TSLexer *lexer,
  const bool *valid_symbols
) {
  // If a line-break is a valid lookahead token, only skip spaces.
  if (valid_symbols[LINE_BREAK]) {
    while (lexer->lookahead == ' ' || lexer->lookahead == '\r') {
      lexer->advance(lexer, true);
    }

    if (lexer->lookahead == '\n') {
      lexer->advance(lexer, false);
      lexer->result_symbol = LINE_BREAK;
      return true;
    }
  }

  // If a line-break is not a valid lookahead token, skip line breaks as well
  // as spaces.
  if (valid_symbols[STRING]) {
    while (lexer->lookahead == ' ' || lexer->lookahead == '\r' || lexer->lookahead == '\n') {
      lexer->advance(lexer, true);
    }

    if (lexer->lookahead == '\'') {
      lexer->advance(lexer, false);

      while (lexer->lookahead != '\'') {
        lexer->advance(lexer, false);
      }

      lexer->advance(lexer, false);
      lexer->result_symbol = STRING;
      return true;
    }
  }

  return false;
}
