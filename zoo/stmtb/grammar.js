module.exports = grammar({
  name: 'stmtb',
  extras: $ => [/\s/, $.comment, $.block_comment],
  word: $ => $.identifier,
  inline: $ => [$._simple],
  supertypes: $ => [$._statement],
  rules: {
    source: $ => repeat($._statement),
    _statement: $ => choice($.if_statement, $.while_statement, $.block, $.assignment, $.expression_statement, $.return_statement),
    if_statement: $ => prec.right(seq('if', field('cond', $._expression), field('then', $.block), optional(seq('else', field('else', choice($.block, $.if_statement)))))),
    while_statement: $ => seq('while', field('cond', $._expression), field('body', $.block)),
    block: $ => seq('{', repeat($._statement), '}'),
    assignment: $ => seq(field('target', $.identifier), '=', field('value', $._expression), ';'),
    expression_statement: $ => seq($._expression, ';'),
    return_statement: $ => seq('return', optional($._expression), ';'),
    _expression: $ => choice($._simple, $.binary_expression, $.call_expression),
    _simple: $ => choice($.identifier, $.number, alias($.string_lit, $.string), $.parenthesized),
    parenthesized: $ => seq('(', $._expression, ')'),
    binary_expression: $ => choice(
      prec.left(1, seq(field('left', $._expression), alias(choice('==', '<'), $.operator), field('right', $._expression))),
      prec.left(2, seq(field('left', $._expression), alias(choice('+', '-'), $.operator), field('right', $._expression))),
    ),
    call_expression: $ => prec(3, seq(field('function', $.identifier), $._arguments)),
    _arguments: $ => seq('(', optional(seq(field('argument', $._expression), repeat(seq(',', field('argument', $._expression))))), ')'),
    identifier: $ => /[a-zA-Z_][a-zA-Z0-9_]*/,
    number: $ => /[0-9]+/,
    string_lit: $ => /'[^'\n]*'/,
    comment: $ => /\/\/[^\n]*/,
    // block comment: may span several rows (multi-row @doc nodes for C18)
    block_comment: $ => /\/\*[^*]*\*+([^\/*][^*]*\*+)*\//,
  }
});
