export default grammar({
    name: 'dynamic_precedence',

    extras: $ => [/\s/],

    conflicts: $ => [[$.expression, $.type]],

    rules: {
        program: $ => choice(
            $.declaration,
            $.expression,
        ),

        expression: $ => choice(
            prec.left(seq($.expression, '*', $.expression)),
            $.identifier
        ),

        declaration: $ => seq(
            $.type,
            $.declarator,
        ),

        declarator: $ => choice(
            prec.dynamic(1, seq('*', $.identifier)),
            $.identifier,
        ),

        type: $ => $.identifier,
        identifier: $ => /[a-z-A-Z]+/
    }
});