// C05: a child that is reachable only through TEN nested multi-step hidden rules: the query analysis gives
// up (MAX_ANALYSIS_STATE_DEPTH) on patterns like (item (name)) and must then assume "fallible", not "impossible".
module.exports = grammar({
  name: 'zzdeep',
  extras: $ => [/\s/],
  rules: {
    doc: $ => repeat(choice($.item, $.leaf)),
    item: $ => seq('<', $._h1, '>'),
    _h1: $ => seq('A', $._h2, 'A'),
    _h2: $ => seq('B', $._h3, 'B'),
    _h3: $ => seq('C', $._h4, 'C'),
    _h4: $ => seq('D', $._h5, 'D'),
    _h5: $ => seq('E', $._h6, 'E'),
    _h6: $ => seq('F', $._h7, 'F'),
    _h7: $ => seq('G', $._h8, 'G'),
    _h8: $ => seq('H', $._h9, 'H'),
    _h9: $ => seq('I', $._h10, 'I'),
    _h10: $ => seq('J', field('id', $.name), optional($.num), 'J'),
    leaf: $ => seq('[', $.name, optional($.num), ']'),
    name: $ => /[a-z]+/,
    num: $ => /[0-9]+/,
  }
});
