// A token whose recognition scans FAR ahead and then falls back: `/` is division, `/* … */` is a
// comment (extra).  For `a /*b;` without a closing `*/` the lexer runs to the end of the input
// looking for `*/` and falls back to the one-character token `/` — whose lookahead_bytes therefore
// covers the rest of the document, far beyond the end of the enclosing statement
// (ts_subtree_summarize_children must propagate that to the parents).  Added for C01/C12.
module.exports = grammar({
  name: 'cmtdiv',
  extras: $ => [/\s/, $.comment],
  rules: {
    source: $ => repeat($.stmt),
    stmt: $ => seq(field('target', $.ident), '=', field('value', $._expr), ';'),
    _expr: $ => choice($.quot, $.deref, $.ident, $.number),
    quot: $ => prec.left(1, seq($._expr, '/', $._expr)),
    deref: $ => prec(2, seq('*', $._expr)),
    ident: $ => /[a-z]+/,
    number: $ => /[0-9]+/,
    comment: $ => token(seq('/*', /[^*]*\*+([^/*][^*]*\*+)*/, '/')),
  }
});
