export default grammar({
  name: 'readme_grammar',

  // Things that can appear anywhere in the language, like comments
  // and whitespace, are expressed as 'extras'.
  extras: $ => [
    /\s/,
    $.comment,
  ],

  rules: {
    // The first rule listed in the grammar becomes the 'start rule'.
    expression: $ => choice(
      $.sum,
      $.product,
      $.number,
      $.variable,
      seq('(', $.expression, ')'),
    ),

    // Tokens like '+' and '*' are described directly within the
    // grammar's rules, as opposed to in a separate lexer description.
    sum: $ => prec.left(1, seq($.expression, '+', $.expression)),

    // Ambiguities can be resolved at compile time by assigning precedence
    // values to rule subtrees.
    product: $ => prec.left(2, seq($.expression, '*', $.expression)),

    // Tokens can be specified using ECMAScript regexps.
    number: _ => /\d+/,

    comment: _ => /#.*/,

    variable: _ => new RustRegex('(?i:[a-z])\\w*'),
  },
});
