#include "tree_sitter/parser.h"
#include <stdlib.h>
#include <string.h>

enum TokenType { NEWLINE, INDENT, DEDENT };

typedef struct {
  uint32_t size;
  uint8_t stack[128];
} Scanner;

void *tree_sitter_pyish_external_scanner_create(void) {
  Scanner *s = calloc(1, sizeof(Scanner));
  s->size = 1;
  s->stack[0] = 0;
  return s;
}

void tree_sitter_pyish_external_scanner_destroy(void *p) { free(p); }

unsigned tree_sitter_pyish_external_scanner_serialize(void *p, char *buffer) {
  Scanner *s = p;
  // the base level 0 is implicit
  unsigned n = 0;
  for (uint32_t i = 1; i < s->size && n < TREE_SITTER_SERIALIZATION_BUFFER_SIZE; i++) buffer[n++] = (char)s->stack[i];
  return n;
}

void tree_sitter_pyish_external_scanner_deserialize(void *p, const char *buffer, unsigned length) {
  Scanner *s = p;
  s->size = 1;
  s->stack[0] = 0;
  for (unsigned i = 0; i < length && s->size < 128; i++) s->stack[s->size++] = (uint8_t)buffer[i];
}

bool tree_sitter_pyish_external_scanner_scan(void *p, TSLexer *lexer, const bool *valid) {
  Scanner *s = p;
  bool error_recovery = valid[NEWLINE] && valid[INDENT] && valid[DEDENT];
  lexer->mark_end(lexer);
  bool found_eol = false;
  uint32_t indent = 0;
  for (;;) {
    if (lexer->lookahead == '\n') { found_eol = true; indent = 0; lexer->advance(lexer, true); }
    else if (lexer->lookahead == ' ') { indent++; lexer->advance(lexer, true); }
    else if (lexer->lookahead == '\r' || lexer->lookahead == '\f') { indent = 0; lexer->advance(lexer, true); }
    else if (lexer->lookahead == '\t') { indent += 8; lexer->advance(lexer, true); }
    else if (lexer->eof(lexer)) { indent = 0; found_eol = true; break; }
    else break;
  }
  if (indent > 200) indent = 200;
  if (found_eol) {
    uint32_t current = s->stack[s->size - 1];
    if (valid[INDENT] && indent > current && s->size < 128) {
      s->stack[s->size++] = (uint8_t)indent;
      lexer->result_symbol = INDENT;
      return true;
    }
    if ((valid[DEDENT] || !valid[NEWLINE]) && indent < current && s->size > 1) {
      s->size--;
      lexer->result_symbol = DEDENT;
      return true;
    }
    if (valid[NEWLINE] && !error_recovery) {
      lexer->result_symbol = NEWLINE;
      return true;
    }
  }
  return false;
}
