// Indentation-structured language with an external scanner that keeps an indent stack and
// serializes it (zero-width INDENT/DEDENT/NEWLINE tokens), after tree-sitter-python's scanner.
// Added for C01/C12: reuse across external-scanner states.
module.exports = grammar({
  name: 'pyish',
  externals: $ => [$._newline, $._indent, $._dedent],
  extras: $ => [/\s/],
  rules: {
    module: $ => repeat($._statement),
    _statement: $ => choice($.simple_statement, $.if_statement, $.while_statement),
    simple_statement: $ => seq($._expr, repeat(seq(',', $._expr)), $._newline),
    if_statement: $ => seq('if', field('cond', $._expr), ':', field('then', $.block),
      optional(seq('else', ':', field('else', $.block)))),
    while_statement: $ => seq('while', field('cond', $._expr), ':', field('body', $.block)),
    block: $ => seq($._newline, $._indent, repeat1($._statement), $._dedent),
    _expr: $ => choice($.ident, $.number, $.call),
    call: $ => seq(field('fn', $.ident), '(', optional($._expr), ')'),
    ident: $ => /[a-z_]+/,
    number: $ => /[0-9]+/,
  }
});
