export default grammar({
    name: 'epsilon_external_tokens',

    extras: $ => [/\s/],
    externals: $ => [$.zero_width],

    rules: {
        document: $ => seq($.zero_width, 'hello'),
    }
});