#include "tree_sitter/parser.h"

enum TokenType {
  ZERO_WIDTH_TOKEN
};

void *tree_sitter_epsilon_external_tokens_external_scanner_create() {
  return NULL;
}

bool tree_sitter_epsilon_external_tokens_external_scanner_scan(
  void *payload,
  TSLexer *lexer,
  const bool *valid_symbols
) {
  lexer->result_symbol = ZERO_WIDTH_TOKEN;
  return true;
}

unsigned tree_sitter_epsilon_external_tokens_external_scanner_serialize(
  void *payload,
  char *buffer
) {
  return 0;
}

void tree_sitter_epsilon_external_tokens_external_scanner_deserialize(
  void *payload,
  const char *buffer,
  unsigned length
) {}

void tree_sitter_epsilon_external_tokens_external_scanner_destroy(void *payload) {}
