// This grammar has a non-terminal extra rule `macro_statement` that contains
// child rules that are also used elsewhere in the grammar.

export default grammar({
  name: "extra_non_terminals_with_shared_rules",

  extras: $ => [/\s+/, $.macro_statement],

  rules: {
    program: $ => repeat($.statement),
    statement: $ => seq(repeat($.label_declaration), ';'),
    macro_statement: $ => seq('%', $.statement),
    label_declaration: $ => seq($.identifier, ':'),
    identifier: $ => /[a-zA-Z]+/
  }
})