export default grammar({
    name: 'associativity_right',

    rules: {
        expression: $ => choice(
            $.math_operation,
            $.identifier
        ),

        math_operation: $ => prec.right(seq(
            $.expression,
            '+',
            $.expression,
        )),

        identifier: $ => /[a-z]+/,
    }
});