module.exports = grammar({
  name: 'lst',
  extras: $ => [/\s/],
  rules: {
    program: $ => repeat($.item),
    item: $ => choice($.word, $.num, $.paren),
    word: $ => /[a-zé€]+/,
    num: $ => /[0-9]+/,
    paren: $ => seq('(', repeat($.item), ')'),
  }
});
