// PRIVATE to C01: a zero-width external token `odd` / `even` (parity of lexer->get_column) in front of
// every `x`; documents are x / blank / tab / newline only, so every document is in the language.
export default grammar({
  name: "colwords",
  extras: ($) => [/\s/],
  externals: ($) => [$.odd, $.even],
  rules: {
    program: ($) => repeat($.item),
    item: ($) => seq(choice($.odd, $.even), "x"),
  },
});
