#include "tree_sitter/parser.h"

// Column-sensitive scanner: in front of every `x` it emits a zero-width `odd` or `even`
// token, depending on the column (as reported by the lexer) at which the `x` stands.
enum TokenType { ODD, EVEN };

void *tree_sitter_colwords_external_scanner_create(void) { return NULL; }
void tree_sitter_colwords_external_scanner_destroy(void *payload) { (void)payload; }
unsigned tree_sitter_colwords_external_scanner_serialize(void *payload, char *buffer) {
  (void)payload; (void)buffer; return 0;
}
void tree_sitter_colwords_external_scanner_deserialize(void *payload, const char *buffer, unsigned length) {
  (void)payload; (void)buffer; (void)length;
}

bool tree_sitter_colwords_external_scanner_scan(void *payload, TSLexer *lexer, const bool *valid_symbols) {
  (void)payload;
  if (!valid_symbols[ODD] && !valid_symbols[EVEN]) return false;
  while (lexer->lookahead == ' ' || lexer->lookahead == '\n' || lexer->lookahead == '\t' || lexer->lookahead == '\r') {
    lexer->advance(lexer, true);
  }
  if (lexer->eof(lexer) || lexer->lookahead != 'x') return false;
  uint32_t column = lexer->get_column(lexer);
  lexer->mark_end(lexer);
  lexer->result_symbol = column % 2 ? ODD : EVEN;
  return true;
}
