export default grammar({
  name: 'anonymous_error',
  rules: {
    document: $ => repeat(choice('ok', 'ERROR')),
  }
});
