// C13 wave 9: statements whose first token can be a reserved infix word (`is_subset_of`, > 10 bytes: skipping it costs
// more than inserting a MISSING identifier in front of it) — error repair by a MISSING token as the very first action.
// grammar.json is authoritative (taken from seeded/C13-r8-missing-token-before-first-range/grammar.json).
module.exports = grammar({
  name: 'c13missing',
  extras: $ => [/\s/, $.comment],
  word: $ => $.identifier,
  reserved: { global: $ => ['is_subset_of'] },
  rules: {
    program: $ => repeat($.statement),
    statement: $ => seq($._expression, ';'),
    _expression: $ => choice($.variable, $.number, $.sum, $.group),
    variable: $ => $.identifier,
    sum: $ => prec.left(1, seq($._expression, choice('+', 'is_subset_of'), $._expression)),
    group: $ => seq('(', $._expression, ')'),
    identifier: $ => /[a-z_]+/,
    number: $ => /[0-9]+/,
    comment: $ => /#[^\n]*/,
  },
});
