export default grammar({
    name: 'associativity_left',

    rules: {
        expression: $ => choice(
            $.math_operation,
            $.identifier
        ),

        math_operation: $ => prec.left(seq(
            $.expression,
            '+',
            $.expression,
        )),

        identifier: $ => /[a-z]+/,
    }
});