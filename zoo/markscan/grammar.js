// A STATEFUL external scanner whose token sits in the MIDDLE of statements: `marker` = '@' letters,
// the scanner counts the markers seen so far and serializes the count, so every marker token carries
// a non-empty, position-dependent scanner state, and reused statements / blocks contain external
// tokens that are not their last token (reusable_node.h: ts_subtree_last_external_token).
// Calibration grammar of C12 and one more external-scanner language for C01.
module.exports = grammar({
  name: 'markscan',
  externals: $ => [$.marker],
  extras: $ => [/\s/],
  rules: {
    document: $ => repeat($._item),
    _item: $ => choice($.tagged_stmt, $.plain_stmt, $.block),
    tagged_stmt: $ => seq($.marker, repeat1($._atom), ';'),
    plain_stmt: $ => seq(repeat1($._atom), ';'),
    block: $ => seq('{', repeat($._item), '}'),
    _atom: $ => choice($.word, $.number),
    word: $ => /[a-z]+/,
    number: $ => /[0-9]+/,
  }
});
