#include "tree_sitter/parser.h"
#include <stdlib.h>

enum TokenType { MARKER };

typedef struct { unsigned count; } Scanner;

void *tree_sitter_markscan_external_scanner_create(void) { return calloc(1, sizeof(Scanner)); }
void tree_sitter_markscan_external_scanner_destroy(void *p) { free(p); }

unsigned tree_sitter_markscan_external_scanner_serialize(void *p, char *buffer) {
  Scanner *s = p;
  if (s->count == 0) return 0;
  buffer[0] = (char)(s->count & 0xff);
  buffer[1] = (char)((s->count >> 8) & 0xff);
  buffer[2] = (char)((s->count >> 16) & 0xff);
  return 3;
}

void tree_sitter_markscan_external_scanner_deserialize(void *p, const char *buffer, unsigned length) {
  Scanner *s = p;
  s->count = 0;
  if (length >= 3) {
    s->count = (unsigned char)buffer[0] | ((unsigned)(unsigned char)buffer[1] << 8) | ((unsigned)(unsigned char)buffer[2] << 16);
  }
}

bool tree_sitter_markscan_external_scanner_scan(void *p, TSLexer *lexer, const bool *valid) {
  Scanner *s = p;
  if (!valid[MARKER]) return false;
  while (lexer->lookahead == ' ' || lexer->lookahead == '\t' || lexer->lookahead == '\n' || lexer->lookahead == '\r') {
    lexer->advance(lexer, true);
  }
  if (lexer->lookahead != '@') return false;
  lexer->advance(lexer, false);
  while (lexer->lookahead >= 'a' && lexer->lookahead <= 'z') lexer->advance(lexer, false);
  lexer->mark_end(lexer);
  s->count++;
  lexer->result_symbol = MARKER;
  return true;
}
