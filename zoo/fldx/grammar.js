// C20: field names that are not snake_case (digits, upper-case letters, leading underscore) next to ordinary ones
module.exports = grammar({
  name: 'fldx',
  extras: $ => [/\s/],
  rules: {
    program: $ => repeat($.call),
    call: $ => seq(
      field('callee', $.word),
      '(',
      optional($._args),
      ')',
      optional(seq('->', field('Ret', $.word)))
    ),
    _args: $ => seq(
      field('arg1', $._val),
      optional(seq(',', field('argB', $._val), optional($._more)))
    ),
    _more: $ => seq(',', field('x_2', $._val), optional(seq(',', field('_rest9', $._val)))),
    _val: $ => choice($.word, $.num, $.call),
    word: $ => /[a-z]+/,
    num: $ => /[0-9]+/,
  }
});
