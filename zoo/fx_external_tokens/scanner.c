#include "tree_sitter/alloc.h"
#include "tree_sitter/parser.h"

enum {
  percent_string,
  percent_string_start,
  percent_string_end
};

typedef struct {
  int32_t open_delimiter;
  int32_t close_delimiter;
  uint32_t depth;
} Scanner;

void *tree_sitter_external_tokens_external_scanner_create() {
  Scanner *scanner = ts_malloc(sizeof(Scanner));
  *scanner = (Scanner) {
    .open_delimiter = 0,
    .close_delimiter = 0,
    .depth = 0
  };
  return scanner;
}

void tree_sitter_external_tokens_external_scanner_destroy(void *payload) {
  ts_free(payload);
}

unsigned tree_sitter_external_tokens_external_scanner_serialize(
  void *payload,
  char *buffer
) { return 0; }

void tree_sitter_external_tokens_external_scanner_deserialize(
  void *payload,
  const char *buffer,
  unsigned length
) {}

bool tree_sitter_external_tokens_external_scanner_scan(
  void *payload, TSLexer *lexer, const bool *valid_symbols) {
  Scanner *scanner = payload;

  if (valid_symbols[percent_string]) {
    while (lexer->lookahead == ' ' ||
           lexer->lookahead == '\t' ||
           lexer->lookahead == '\n' ||
           lexer->lookahead == '\r') {
      lexer->advance(lexer, true);
    }

    if (lexer->lookahead != '%') return false;
    lexer->advance(lexer, false);

    switch (lexer->lookahead) {
      case '(':
        scanner->open_delimiter = '(';
        scanner->close_delimiter = ')';
        scanner->depth = 1;
        break;
      case '[':
        scanner->open_delimiter = '[';
        scanner->close_delimiter = ']';
        scanner->depth = 1;
        break;
      case '{':
        scanner->open_delimiter = '{';
        scanner->close_delimiter = '}';
        scanner->depth = 1;
        break;
      default:
        return false;
    }

    lexer->advance(lexer, false);

    for (;;) {
      if (scanner->depth == 0) {
        lexer->log(lexer, "Found a percent string");
        lexer->result_symbol = percent_string;
        return true;
      }

      if (lexer->lookahead == scanner->open_delimiter) {
        scanner->depth++;
      } else if (lexer->lookahead == scanner->close_delimiter) {
        scanner->depth--;
      } else if (lexer->lookahead == '#') {
        lexer->advance(lexer, false);
        if (lexer->lookahead == '{') {
          lexer->advance(lexer, false);
          lexer->result_symbol = percent_string_start;
          return true;
        }
      }

      lexer->advance(lexer, false);
    }
  } else if (valid_symbols[percent_string_end]) {
    if (lexer->lookahead != '}') return false;
    lexer->advance(lexer, false);

    for (;;) {
      if (scanner->depth == 0) {
        lexer->result_symbol = percent_string_end;
        return true;
      }

      if (lexer->lookahead == scanner->open_delimiter) {
        scanner->depth++;
      } else if (lexer->lookahead == scanner->close_delimiter) {
        scanner->depth--;
      }

      lexer->advance(lexer, false);
    }
  }

  return false;
}
