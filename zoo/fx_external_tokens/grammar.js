// This grammar uses an external scanner to match special string literals,
// that track the nesting depth of parentheses, similar to Ruby's percent
// string literals.

export default grammar({
  name: "external_tokens",

  externals: $ => [
    $._percent_string,
    $._percent_string_start,
    $._percent_string_end,
  ],

  extras: $ => [/\s/],

  rules: {
    expression: $ => choice($.string, $.sum, $.identifier),

    sum: $ => prec.left(seq($.expression, '+', $.expression)),

    string: $ => choice($._percent_string, seq(
      $._percent_string_start,
      $.expression,
      $._percent_string_end,
    )),

    identifier: $ => /[a-z]+/
  }
})
