// This grammar has an "extra" rule, `comment`, that is a non-terminal.

export default grammar({
  name: "extra_non_terminals",

  extras: $ => [
    /\s/,
    $.comment,
  ],

  rules: {
    module: _ => seq('a', 'b', 'c', 'd'),

    comment: $ => choice($.paren_comment, $.line_comment),

    paren_comment: _ => token(seq('(', repeat(/[a-z]+/), ')')),

    line_comment: _ => token(seq('//', /.*/)),
  }
})
