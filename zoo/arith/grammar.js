module.exports = grammar({
  name: 'arith',
  extras: $ => [/\s/, $.comment],
  rules: {
    program: $ => repeat($.statement),
    statement: $ => seq(field('value', $._expr), ';'),
    _expr: $ => choice($.number, $.ident, $.binary, $.unary, $.paren, $.call),
    binary: $ => choice(
      prec.left(1, seq(field('left', $._expr), field('op', choice('+', '-')), field('right', $._expr))),
      prec.left(2, seq(field('left', $._expr), field('op', choice('*', '/')), field('right', $._expr))),
      prec.right(3, seq(field('left', $._expr), field('op', '^'), field('right', $._expr))),
    ),
    unary: $ => prec(4, seq('-', field('arg', $._expr))),
    paren: $ => seq('(', $._expr, ')'),
    call: $ => prec(5, seq(field('fn', $.ident), '(', optional(seq($._expr, repeat(seq(',', $._expr)))), ')')),
    number: $ => /[0-9]+/,
    ident: $ => /[a-z_][a-z0-9_]*/,
    comment: $ => /#[^\n]*/,
  }
});
