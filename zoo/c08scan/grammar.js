// External tokens whose scanner state is LONGER than the 24 bytes that fit inline in
// ExternalScannerState (C08/C07: heap-allocated scanner states are copied by ts_subtree_clone and
// freed by ts_subtree_release).
export default grammar({
    name: 'c08scan',
    extras: $ => [/\s/],
    externals: $ => [$.blob],
    rules: {
        program: $ => repeat(choice($.blob, $.word, $.group)),
        group: $ => seq('(', repeat(choice($.blob, $.word, $.group)), ')'),
        word: $ => /[a-z]+/,
    }
});
