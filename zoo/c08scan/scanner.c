#include "tree_sitter/parser.h"
#include <stdlib.h>
#include <string.h>
// state: 40 bytes = a counter of blobs seen so far + filler (always > 24 bytes: heap state)
typedef struct { unsigned char bytes[40]; } S;
// Number of scanner instances created and not yet destroyed (create/destroy pairing is observable:
// the payload is allocated by the scanner, not through the library's allocator).
static int live_instances = 0;
int tree_sitter_c08scan_scanner_live(void) { return __atomic_load_n(&live_instances, __ATOMIC_SEQ_CST); }
void *tree_sitter_c08scan_external_scanner_create(void) {
  S *s = calloc(1, sizeof(S));
  for (int i = 1; i < 40; i++) s->bytes[i] = (unsigned char)(i * 7);
  __atomic_add_fetch(&live_instances, 1, __ATOMIC_SEQ_CST);
  return s;
}
void tree_sitter_c08scan_external_scanner_destroy(void *p) { __atomic_sub_fetch(&live_instances, 1, __ATOMIC_SEQ_CST); free(p); }
unsigned tree_sitter_c08scan_external_scanner_serialize(void *p, char *b) { memcpy(b, p, sizeof(S)); return sizeof(S); }
void tree_sitter_c08scan_external_scanner_deserialize(void *p, const char *b, unsigned n) {
  S *s = p; memset(s, 0, sizeof(S)); for (int i = 1; i < 40; i++) s->bytes[i] = (unsigned char)(i * 7);
  if (n == sizeof(S)) memcpy(s, b, sizeof(S));
}
bool tree_sitter_c08scan_external_scanner_scan(void *p, TSLexer *l, const bool *v) {
  S *s = p;
  if (!v[0]) return false;
  while (l->lookahead == ' ' || l->lookahead == '\n' || l->lookahead == '\t') l->advance(l, true);
  if (l->lookahead != '#') return false;
  l->advance(l, false);
  while (l->lookahead >= 'a' && l->lookahead <= 'z') l->advance(l, false);
  s->bytes[0]++;
  l->result_symbol = 0;
  return true;
}
