export default grammar({
  name: "external_unicode_column_alignment",

  externals: $ => [
    $._start_list,
    $.list_item,
    $._end_list
  ],

  extras: $ => [/\s/, '□'],

  rules: {
    expression: $ => repeat($.list),
    
    list: $ => seq($._start_list, repeat1($.list_item), $._end_list)
  }
})
