#include "tree_sitter/alloc.h"
#include "tree_sitter/parser.h"

#include <wctype.h>
#include <string.h>

enum {
  LIST_START,
  LIST_ITEM,
  LIST_END
};

typedef struct {
  int32_t column;
} Scanner;

void *tree_sitter_external_unicode_column_alignment_external_scanner_create() {
  Scanner *scanner = ts_malloc(sizeof(Scanner));
  *scanner = (Scanner){
    .column = -1
  };
  return scanner;
}

void tree_sitter_external_unicode_column_alignment_external_scanner_destroy(void *payload) {
  ts_free(payload);
}

unsigned tree_sitter_external_unicode_column_alignment_external_scanner_serialize(
  void *payload,
  char *buffer
) {
  Scanner *scanner = payload;
  unsigned copied = sizeof(int32_t);
  memcpy(buffer, &(scanner->column), copied);
  return copied;
}

void tree_sitter_external_unicode_column_alignment_external_scanner_deserialize(
  void *payload,
  const char *buffer,
  unsigned length
) {
  Scanner *scanner = payload;
  scanner->column = -1;
  if (length > 0) {
    memcpy(&(scanner->column), buffer, sizeof(int32_t));
  }
}

bool tree_sitter_external_unicode_column_alignment_external_scanner_scan(
  void *payload,
  TSLexer *lexer,
  const bool *valid_symbols
) {
  Scanner *scanner = payload;
  // U+25A1 is unicode codepoint □
  while (iswspace(lexer->lookahead) || 0x25A1 == lexer->lookahead) {
    lexer->advance(lexer, true);
  } 
  if ('-' == lexer->lookahead) {
    const int32_t column = lexer->get_column(lexer);
    if (-1 == scanner->column) {
      lexer->result_symbol = LIST_START;
      scanner->column = column;
      return true;
    } else {
      if (column == scanner->column) {
        lexer->result_symbol = LIST_ITEM;
        lexer->advance(lexer, false);
        return true;
      } else {
        lexer->result_symbol = LIST_END;
        scanner->column = -1;
        return true;
      }
    }
  }
  
  if (lexer->eof(lexer) && -1 != scanner->column) {
    lexer->result_symbol = LIST_END;
    scanner->column = -1;
    return true;
  }
  
  return false;
}
