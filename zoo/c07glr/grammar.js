// Highly ambiguous on purpose (C07): every identifier can be reduced in eight ways and the
// alternatives stay alive until the statement's terminator, so the parser runs with more stack
// versions than MAX_VERSION_COUNT; nested groups add merges/pops of pending versions.
export default grammar({
    name: 'c07glr',

    extras: $ => [/\s/],

    conflicts: $ => [
        [$.a, $.b, $.c, $.d, $.e, $.f, $.g, $.h],
        [$.ga, $.gb, $.gc],
        [$.l, $.p],
        [$.r, $.q],
        [$.l2, $.p2],
        [$.r2, $.q2],
    ],

    rules: {
        program: $ => repeat($._stmt),

        _stmt: $ => choice($.sa, $.sb, $.sc, $.sd, $.se, $.sf, $.sg, $.sh, $.ga, $.gb, $.gc, $.da, $.db),

        sa: $ => seq(repeat1($.a), '1'),
        sb: $ => seq(repeat1($.b), '2'),
        sc: $ => seq(repeat1($.c), '3'),
        sd: $ => seq(repeat1($.d), '4'),
        se: $ => seq(repeat1($.e), '5'),
        sf: $ => seq(repeat1($.f), '6'),
        sg: $ => seq(repeat1($.g), '7'),
        sh: $ => seq(repeat1($.h), '8'),

        // three readings of a bracketed group that only differ after the closing bracket
        ga: $ => seq('(', repeat($._stmt), ')', '!'),
        gb: $ => seq('(', repeat($._stmt), ')', '?'),
        gc: $ => seq('(', repeat($._stmt), ')', '.'),

        // two readings of the same two tokens that reduce to the same symbol over the same span with
        // different dynamic precedence: the two stack links connect the same pair of nodes, and
        // stack_node_add_link keeps the one with the higher precedence (either order)
        da: $ => seq('@', choice(prec.dynamic(1, seq($.l, $.r)), prec.dynamic(2, seq($.p, $.q))), ':'),
        db: $ => seq('$', choice(prec.dynamic(2, seq($.l2, $.r2)), prec.dynamic(1, seq($.p2, $.q2))), ':'),
        l: $ => $.id,
        r: $ => $.id,
        p: $ => $.id,
        q: $ => $.id,
        l2: $ => $.id,
        r2: $ => $.id,
        p2: $ => $.id,
        q2: $ => $.id,

        a: $ => $.id,
        b: $ => $.id,
        c: $ => $.id,
        d: $ => $.id,
        e: $ => $.id,
        f: $ => $.id,
        g: $ => $.id,
        h: $ => $.id,

        id: $ => /[a-z]+/,
    }
});
