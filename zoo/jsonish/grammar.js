module.exports = grammar({
  name: 'jsonish',
  extras: $ => [/\s/],
  supertypes: $ => [$._value],
  rules: {
    document: $ => repeat($._value),
    _value: $ => choice($.object, $.array, $.number, $.string, $.true, $.false, $.null),
    object: $ => seq('{', optional(seq($.pair, repeat(seq(',', $.pair)))), '}'),
    pair: $ => seq(field('key', $.string), ':', field('value', $._value)),
    array: $ => seq('[', optional(seq($._value, repeat(seq(',', $._value)))), ']'),
    string: $ => seq('"', repeat(choice($.string_content, $.escape)), '"'),
    string_content: $ => token.immediate(prec(1, /[^\\"\n]+/)),
    escape: $ => token.immediate(/\\./),
    number: $ => /-?[0-9]+(\.[0-9]+)?/,
    true: $ => 'true',
    false: $ => 'false',
    null: $ => 'null',
  }
});
