// C06: ONE field name inherited by a production through SEVERAL hidden children, each of which may
// or may not actually carry the field in a given tree (the field sits in one alternative or in an
// optional part of the hidden rule).  `ts_node_child_by_field_id` must then go on to the next
// field-map entry when the first hidden child turns out not to contain the field:
//   use * from "m" as u ;        `name` only in the second hidden clause (_as), not in _what
//   route 1 > [ ] > b ;          `hop` only in the third hidden child; the middle one (_via) is a
//                                hidden rule that contains a hidden rule (two levels of inheritance)
//   pick "k" * as u ;            a direct `name` child followed by two inheriting hidden children
// Comments are extras and may sit between (and inside) the hidden children.
module.exports = grammar({
  name: 'twofld',
  extras: $ => [/\s/, $.comment],
  rules: {
    unit: $ => repeat($._item),
    _item: $ => choice($.use, $.route, $.pick, $.let),
    use: $ => seq('use', $._what, 'from', field('source', $.string), optional($._as), ';'),
    _what: $ => seq(choice(field('name', $.ident), $.star), optional($.group)),
    _as: $ => seq('as', field('name', $.ident)),
    group: $ => seq('{', repeat(field('member', $.ident)), '}'),
    star: $ => '*',
    route: $ => seq('route', $._hop, '>', $._via, '>', $._hop, ';'),
    _hop: $ => choice(field('hop', $.ident), $.number),
    _via: $ => seq('[', optional($._hop), optional(seq(',', $._hop)), ']'),
    pick: $ => seq('pick', optional(field('name', $.string)), $._what, optional($._as), ';'),
    let: $ => seq(field('name', $.ident), '=', field('value', choice($.ident, $.string, $.number)), ';'),
    ident: $ => /[a-z_]+/,
    number: $ => /[0-9]+/,
    string: $ => /"[^"\n]*"/,
    comment: $ => /#[^\n]*/,
  }
});
