// C06, finding 11 (child-by-field-enters-visible-child): `twofld` plus ONE alternative of the hidden rule `_hop`
// that is a VISIBLE node containing the same field: `nest: seq('(', field('hop', $.ident), ')')`.
// The production `route` has inherited entries for `hop` at the three `_hop` positions; the unit reduction
// `_hop -> nest` is eliminated by the generator, so in `route ( a ) > [ ] > 1 ;` child 1 of `route` is the visible
// node `nest`, and ts_node_child_by_field_id(route, hop) searches INSIDE it and returns `a` - a grandchild -
// although no child of `route` carries `hop` (field_name_for_child, the cursor and the S-expression agree on that).
// Kept OUT of zoo::list() (sub-directory: only C06 loads it, as language id `twofld/nest`) because it exists to
// show a known defect of the unchanged tree.
module.exports = grammar({
  name: 'twofldn',
  extras: $ => [/\s/, $.comment],
  rules: {
    unit: $ => repeat($._item),
    _item: $ => choice($.use, $.route, $.pick, $.let),
    use: $ => seq('use', $._what, 'from', field('source', $.string), optional($._as), ';'),
    _what: $ => seq(choice(field('name', $.ident), $.star), optional($.group)),
    _as: $ => seq('as', field('name', $.ident)),
    group: $ => seq('{', repeat(field('member', $.ident)), '}'),
    star: $ => '*',
    route: $ => seq('route', $._hop, '>', $._via, '>', $._hop, ';'),
    _hop: $ => choice(field('hop', $.ident), $.number, $.nest),
    nest: $ => seq('(', field('hop', $.ident), ')'),
    _via: $ => seq('[', optional($._hop), optional(seq(',', $._hop)), ']'),
    pick: $ => seq('pick', optional(field('name', $.string)), $._what, optional($._as), ';'),
    let: $ => seq(field('name', $.ident), '=', field('value', choice($.ident, $.string, $.number)), ';'),
    ident: $ => /[a-z_]+/,
    number: $ => /[0-9]+/,
    string: $ => /"[^"\n]*"/,
    comment: $ => /#[^\n]*/,
  }
});
