// Supertypes whose alternatives include DEFAULT-ALIASED rules: `ident` is aliased to `variable` and `brk` to
// `break_statement` at EVERY use, so the alias is the symbol's default alias and has no alias id of its own.
module.exports = grammar({
  name: 'zsup',
  extras: $ => [/\s/],
  supertypes: $ => [$._expression, $._statement],
  rules: {
    program: $ => repeat($._statement),
    _statement: $ => choice($.expr_statement, $.let_statement, alias($.brk, $.break_statement)),
    expr_statement: $ => seq($._expression, ';'),
    let_statement: $ => seq('let', field('name', alias($.ident, $.variable)), '=', field('value', $._expression), ';'),
    brk: $ => seq('break', ';'),
    _expression: $ => choice($.number, $.call, alias($.ident, $.variable), $.paren),
    call: $ => seq(field('callee', alias($.ident, $.variable)), '(', optional(seq($._expression, repeat(seq(',', $._expression)))), ')'),
    paren: $ => seq('(', $._expression, ')'),
    ident: $ => /[a-z]+/,
    number: $ => /[0-9]+/,
  }
});
