// One token that can be BOTH an extra and an ordinary child of a rule: `comment` is in `extras` and is
// the operand of `pragma: '#' comment`.  Multi-line / long comments are heap tokens (not inline), so a
// re-parse that reuses such a token in its OTHER role (after `#` was inserted or deleted in an edited
// copy) must flip the `extra` flag on a private copy (ts_parser__shift -> ts_subtree_make_mut) — C08.
export default grammar({
    name: 'c08role',
    extras: $ => [/\s/, $.comment],
    rules: {
        program: $ => repeat(choice($.pragma, $.word, $.group)),
        group: $ => seq('(', repeat(choice($.pragma, $.word, $.group)), ')'),
        pragma: $ => seq('#', $.comment),
        word: $ => /[a-z]+/,
        comment: $ => /\/\*[^*]*\*+([^\/*][^*]*\*+)*\//,
    }
});
