// C02 private grammar: more than 256 symbols, so that token and rule symbol ids cross the 8-bit
// boundary of the inline leaf representation (SubtreeInlineData.symbol is a uint8_t).
// 300 keyword literals k000..k299 (three statement kinds), 40 punctuation-like operators,
// named tokens with a low id (shebang) and with ids above 300 (identifier, number, tag, string), all rule ids above 350.
const pad = (i) => String(i).padStart(3, '0');
const K = (a, b) => Array.from({ length: b - a }, (_, i) => 'k' + pad(a + i));
const OPS = Array.from({ length: 40 }, (_, i) => '$' + 'abcdefgh'[i >> 3] + 'stuvwxyz'[i & 7]);

module.exports = grammar({
  name: 'c02wide',
  extras: $ => [/\s/],
  rules: {
    program: $ => seq(optional($.shebang), repeat($._item)),
    _item: $ => choice($.low_stmt, $.mid_stmt, $.high_stmt, $.op_stmt, $.block, $.tag_stmt),
    low_stmt: $ => seq(choice(...K(0, 100)), ';'),
    mid_stmt: $ => seq(choice(...K(100, 200)), $.identifier, ';'),
    high_stmt: $ => seq(choice(...K(200, 300)), optional($._value), ';'),
    op_stmt: $ => seq($.identifier, choice(...OPS), $._value, ';'),
    block: $ => seq('{', repeat($._item), '}'),
    tag_stmt: $ => seq($.tag, optional($.string), ';'),
    _value: $ => choice($.identifier, $.number, $.string, $.group),
    group: $ => seq('(', $._value, ')'),
    shebang: $ => /#![^\n]*/,
    identifier: $ => /[a-z_][a-z0-9_]*/,
    number: $ => /\d+/,
    tag: $ => /#[a-z]+/,
    string: $ => /"[^"\n]*"/,
  },
});
