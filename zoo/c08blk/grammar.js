// Statements and blocks with HEAP leaves at the places where the parser breaks reused nodes down (C08):
//  * `decl: 'let' word` vs `stmt: 'let' word ';'` — a reused `decl` followed by comments (extras pushed on
//    top of it) and then a `;` has to be broken down again (ts_parser__breakdown_top_of_stack);
//  * `call: word '(' … ')'` reused inside a freshly inserted `{` is in another parse state, the parser
//    descends to its first leaf (ts_parser__breakdown_lookahead) — a word of >= 255 bytes or one after >= 16
//    blank lines is a reference-counted heap leaf, as are multi-line / long comments.
export default grammar({
    name: 'c08blk',
    extras: $ => [/\s/, $.comment],
    rules: {
        program: $ => repeat($._item),
        _item: $ => choice($.decl, $.stmt, $.call, $.block),
        decl: $ => seq('let', $.word),
        stmt: $ => seq('let', $.word, ';'),
        call: $ => seq($.word, '(', repeat($.word), ')'),
        block: $ => seq('{', repeat($._item), '}'),
        word: $ => /[a-z]+/,
        comment: $ => /\/\*[^*]*\*+([^\/*][^*]*\*+)*\//,
    }
});
