// This grammar shows that `ALIAS` rules can *contain* a rule that is marked as `inline`. It also
// shows that you can alias a rule that would otherwise be anonymous, and it will then appear as a
// named node.

export default grammar({
    name: 'aliased_inlined_rules',

    extras: $ => [/\s/],

    inline: $ => [$.identifier],

    rules: {
        statement: $ => seq($._expression, ';'),

        _expression: $ => choice(
            $.member_expression,
            alias($.identifier, $.variable_name),
        ),

        member_expression: $ => prec.left(1, seq(
            $._expression,
            '.',
            alias($.identifier, $.property_name)
        )),

        identifier: $ => choice('a', 'b', 'c')
    }
});