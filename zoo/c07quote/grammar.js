// Anonymous tokens whose NAMES need escaping when an S-expression is written: `"`, `\`, `'`, a newline.
// Truncated / damaged inputs make error recovery insert MISSING tokens of exactly these kinds, and
// ts_node_string has to measure and write `(MISSING "\"")` etc. consistently (C07: the string buffer is
// allocated from the measuring pass).
export default grammar({
    name: 'c07quote',
    extras: $ => [' '],
    rules: {
        program: $ => repeat(choice($.string, $.path, $.chr, $.line, $.word)),
        string: $ => seq('"', repeat($.word), '"'),
        path: $ => seq('\\', $.word, '\\', $.word, '\\'),
        chr: $ => seq("'", $.word, "'"),
        line: $ => seq('begin', repeat1($.word), '\n'),
        word: $ => /[a-z]+/,
    }
});
