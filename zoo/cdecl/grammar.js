// C-style declaration-vs-multiplication ambiguity settled by DYNAMIC precedence (GLR):
// `t * p;` is a declaration (type_name t, pointer declarator p) or an expression statement
// (t times p); both stack versions survive until the `;`, are merged there, and prec.dynamic on the
// pointer declarator picks the declaration.  Calibrated grammar of C12 (reuse must resume after
// every resolved ambiguity) and one more GLR language for C01.
module.exports = grammar({
  name: 'cdecl',
  extras: $ => [/\s/],
  conflicts: $ => [[$._expr, $.type_name]],
  rules: {
    unit: $ => repeat($._stmt),
    _stmt: $ => choice($.declaration, $.expr_stmt, $.block),
    block: $ => seq('{', repeat($._stmt), '}'),
    declaration: $ => seq(field('type', $.type_name), field('declarator', $.declarator), ';'),
    declarator: $ => choice(prec.dynamic(1, seq('*', $.ident)), $.ident),
    expr_stmt: $ => seq($._expr, ';'),
    _expr: $ => choice($.mul, $.ident, $.number, $.paren),
    mul: $ => prec.left(1, seq(field('left', $._expr), '*', field('right', $._expr))),
    paren: $ => seq('(', $._expr, ')'),
    type_name: $ => $.ident,
    ident: $ => /[a-z_]+/,
    number: $ => /[0-9]+/,
  }
});
