(word) @h.word
(number) @h.number
(comment) @h.comment
"let" @h.keyword
(call fn: (word) @h.function)
(let name: (word) @h.def)
(call) @h.call
(embed) @h.embed
(raw) @h.raw
