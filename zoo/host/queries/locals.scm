((call) @local.scope (#set! local.scope-inherits false))
(embed) @local.scope
(let name: (word) @local.definition value: (_) @local.definition-value)
(word) @local.reference
(call fn: (word) @local.definition)
