(call) @local.scope
(let name: (word) @local.definition value: (_) @local.definition-value)
(word) @local.reference
