; variant C: language named by a node, plus a self-injection for embeds inside calls of `me`
; the captured node text wins over the #set! language
((embed lang: (word) @injection.language (raw) @injection.content) (#set! injection.language "tmpl"))
((call fn: (word) @_f (embed (raw) @injection.content)) (#eq? @_f "me") (#set! injection.self))
; two content captures in one match: the LAST one is the content
((call fn: (word) @_f (embed (raw) @injection.content) (embed (raw) @injection.content)) (#eq? @_f "two") (#set! injection.language "stmt"))
