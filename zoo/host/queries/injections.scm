((embed lang: (word) @injection.language (raw) @injection.content))
