// Host language for C17 (injections): words, numbers, calls, let-bindings, comments and
// embeds  $lang`raw`  whose raw text is injected as the language named by the `lang` word.
module.exports = grammar({
  name: 'host',
  extras: $ => [/\s/, $.comment],
  word: $ => $.word,
  rules: {
    program: $ => repeat($._item),
    _item: $ => choice($.call, $.embed, $.word, $.number, $.let),
    let: $ => seq('let', field('name', $.word), '=', field('value', $._item)),
    call: $ => seq(field('fn', $.word), '(', repeat($._item), ')'),
    embed: $ => seq('$', field('lang', $.word), '`', optional($.raw), '`'),
    raw: $ => /[^`]+/,
    word: $ => /[a-z_]+/,
    number: $ => /[0-9]+/,
    comment: $ => /#[^\n]*/,
  }
});
