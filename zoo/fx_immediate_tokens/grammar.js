// This grammar demonstrates the usage of the IMMEDIATE_TOKEN rule. It allows the parser to produce
// a different token based on whether or not there are `extras` preceding the token's main content.
// When there are *no* leading `extras`, an immediate token is preferred over a normal token which
// would otherwise match.

export default grammar({
  name: "immediate_tokens",

  extras: $ => [/\s/],

  rules: {
    program: $ => $._expression,

    _expression: $ => choice(
      $.call,
      $.infix,
      $.prefix,
      $.identifier,
    ),

    call: $ => prec.left(-1, seq(
      $._expression,
      $._expression,
    )),

    prefix: $ => seq(
      '::',
      $.identifier,
    ),

    infix: $ => seq(
      $._expression,
      token.immediate('::'),
      $.identifier,
    ),

    identifier: $ => /[a-z]+/
  }
})
