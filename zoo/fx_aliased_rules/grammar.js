export default grammar({
    name: 'aliased_rules',

    extras: $ => [
      /\s/,
      $.star,
    ],

    rules: {
        statement: $ => seq($._expression, ';'),

        _expression: $ => choice(
            $.call_expression,
            $.member_expression,
            alias($.identifier, $.variable_name),
        ),

        call_expression: $ => prec.left(seq(
            $._expression,
            '(',
            $._expression,
            ')'
        )),

        member_expression: $ => prec.left(1, seq(
            $._expression,
            '.',
            alias($.identifier, $.property_name)
        )),

        identifier: $ => /[a-z]+/,

        // Tests for https://github.com/tree-sitter/tree-sitter/issues/1834
        //
        // Even though the alias is unused, that issue causes all instances of
        // the extra that appear in the tree to be renamed to `star_aliased`.
        //
        // Instead, this alias should have no effect because it is unused.
        star: $ => '*',
        unused: $ => alias($.star, $.star_aliased),
    }
});
