// grammar.json is authoritative (taken from seeded/C04-r8-shifted-same-size-token-matches/grammar.json): a small statement language
// with quote-delimited one-line strings /"[^"\n]*"/ next to identifiers, numbers, calls, lists, blocks, let/if.
