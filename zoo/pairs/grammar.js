// Aliased hidden children + comment extras: `_number` is a hidden token that is visible only
// through the per-production alias `value` inside `pair` / `triple` (it is also used un-aliased in
// `bare`, so the alias is not a default alias); comments are extras and can sit between any two
// children.  Exercises sibling status (anchors, last-child tests) of extras next to aliased children.
export default grammar({
  name: 'pairs',
  extras: $ => [/\s/, $.comment],
  rules: {
    document: $ => repeat(choice($.pair, $.triple, $.bare, $.group)),
    pair: $ => seq('<', field('key', $.key), alias($._number, $.value), '>'),
    triple: $ => seq('{', $.key, alias($._number, $.value), alias($._word, $.name), '}'),
    bare: $ => seq('[', $._number, optional($.key), ']'),
    group: $ => seq('(', repeat(choice($.pair, $.key)), alias(')', $.close)),
    key: $ => /[a-z]+/,
    _word: $ => /[A-Z]+/,
    _number: $ => /[0-9]+/,
    comment: $ => /#[^#\n]*#/,
  }
});
