export default grammar({
  name: 'nested_inlined_rules',

  inline: $ => [
    $.top_level_item,
    $.statement,
  ],

  rules: {
    program: $ => repeat1($.top_level_item),

    top_level_item: $ => choice($.statement, '!'),

    statement: $ => choice($.expression_statement, $.return_statement),

    return_statement: $ => seq('return', $.number, ';'),

    expression_statement: $ => seq($.number, ';'),

    number: _ => /\d+/,
  },
});
