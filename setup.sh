#!/bin/sh
# Build the framework offline from files on disk: regenerate the Lean model from /repo, build the
# proof modules and model drivers of every claimed property, build the harness (path deps on
# /repo), warm the zoo's compiled-parser cache.  Each check rebuilds what it needs anyway; a
# failure in one property's build must not prevent the others from being set up.
cd "$(dirname "$0")" || exit 1
export CARGO_NET_OFFLINE=true
mkdir -p .cache evidence replay
python3 translator/c2lean.py --repo "${VERIF_REPO:-/repo}" --raw --out lean/TsVerif/GenRaw --status .cache/gen_status.json || exit 1
(cd lean && lake build TsVerif.Common.Tree TsVerif.Common.IO TsVerif.Common.GenTie tsv-gen) || exit 1
(cd harness && cargo build --release --offline --lib) || exit 1
for id in $(python3 -c "import json; print(' '.join(c['property_id'] for c in json.load(open('MANIFEST.json'))['checks']))"); do
  lid=$(echo "$id" | tr 'A-Z' 'a-z')
  echo "== setup $id"
  (cd lean && lake build "TsVerif.$id.Props" "tsv-$lid") || echo "WARN: lean build for $id failed"
  feat=""
  [ "$id" = "C20" ] && feat="--features cli"
  (cd harness && cargo build --release --offline $feat --bin "$lid") || echo "WARN: harness build for $id failed"
done
(cd harness && cargo build --release --offline --bin smoke && ./target/release/smoke > ../.cache/smoke.txt 2>&1) || true
echo "setup done"
