#!/bin/sh
# Build the whole framework offline from files on disk: regenerate the Lean model from /repo,
# build every proof module and model driver, build the harness (path deps on /repo), warm the
# zoo's compiled-parser cache.
set -e
cd "$(dirname "$0")"
export CARGO_NET_OFFLINE=true
mkdir -p .cache evidence replay
python3 translator/c2lean.py --repo "${VERIF_REPO:-/repo}" --out lean/TsVerif/Gen --status .cache/gen_status.json
(cd lean && lake build)
(cd harness && cargo build --release --offline --bins)
./harness/target/release/smoke > .cache/smoke.txt 2>&1 || true
echo "setup done"
