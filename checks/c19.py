"""C19 — Grammar loading is safe under concurrency and after crashes.

Proof: TsVerif/C19/Props.lean over the transition system of TsVerif/C19/Model.lean (any number of
callers, any interleaving, a crash before any step).  Tie: the real `Loader` in real processes and
threads with a private XDG_CACHE_HOME / parser-lib dir and a grammar whose symbol name carries the
source version.  With hooks/C19-loader-points.diff applied ("controlled" mode) the Lean model
enumerates every schedule of two callers (every single-crash point, every initial cache state,
both timeout regimes); a seeded stratified sample of them is executed step by step against the
real code and the model must predict every announced point, every result, the files left behind
and the result of a later load.  Without the hook ("free" mode) callers race uncontrolled
(threads x processes, kill -9 at random times, leftover lock/temp) and each observed outcome must
be one the model can reach.  The Lean judge decides the property's clauses on every real outcome."""
import hashlib
import json
import os
import random
from checklib import sh, parse_kv_line


def stratified(lines, budget, seed):
    """Deterministic stratified sample of `sched` lines: strata = initial state x regime x crash site."""
    strata = {}
    for l in lines:
        kv = dict(w.split("=", 1) for w in l.split()[2:] if "=" in w)
        steps = kv.get("steps", "").split(",")
        crash = "nocrash"
        for i, st in enumerate(steps):
            if st.endswith(":crash"):
                prev = [x for x in steps[:i] if x.split(":")[0] == st.split(":")[0]]
                crash = "crash-after-" + (prev[-1].split(":")[1] if prev else "start")
        key = (kv.get("lib"), kv.get("lock"), kv.get("temp"), kv.get("broken"), kv.get("K"), crash)
        strata.setdefault(key, []).append(l)
    rnd = random.Random(seed)
    keys = sorted(strata)
    picked = []
    per = max(1, budget // max(1, len(keys)))
    for k in keys:
        v = strata[k]
        picked += rnd.sample(v, min(per, len(v)))
    rest = [l for l in lines if l not in set(picked)]
    if len(picked) < budget and rest:
        picked += rnd.sample(rest, min(budget - len(picked), len(rest)))
    return picked, len(keys)


class _JudgeFirst:
    """Buffers violations and hands the ones with a concrete failing input to ctx first
    (ctx.finish writes replay files for the first few only)."""
    def __init__(self, ctx):
        self.ctx, self.buf = ctx, []

    def violation(self, kind, what, payload, fingerprint=None, found_input=True):
        self.buf.append((0 if (found_input and kind == "judge") else 1, len(self.buf), kind, what, payload, fingerprint, found_input))

    def flush(self):
        for _, _, kind, what, payload, fp, fi in sorted(self.buf, key=lambda x: (x[0], x[1])):
            self.ctx.violation(kind, what, payload, fingerprint=fp, found_input=fi)
        self.buf = []


def run(ctx):
    jf = _JudgeFirst(ctx)
    ctx.trusted += [
        "hand model TsVerif/C19/Model.lean of load_language_at_path_with_name / compile_parser_to_dylib / LockFile "
        "(tied by step-by-step correspondence when the hook is applied, by outcome reachability otherwise)",
        "POSIX atomicity of open(O_CREAT|O_EXCL) and rename(2); mtime comparison abstracted to version inequality; cc; dlopen",
        "the harness controller harness/src/bin/c19.rs and, in controlled mode, the add-only hook hooks/C19-loader-points.diff",
    ]
    ctx.assumptions += [
        "sources are constant during a run, except in the kind=upd histories (round 11): there ONE rewrite of the sources completes "
        "while a loader waits for the lock; rewrites that overlap a check or a cc run stay outside the statement",
        "a crash is the death of a whole process (SIGKILL/abort): nothing is cleaned up",
        "safety is proved for compiles that either complete or die with their process (or for the re-checking variant); "
        "the unchanged tree's behaviour when cc fails and returns is the refutation safety_compile_error",
    ]
    ctx.prove(["TsVerif.C19.Props", "TsVerif.C19.SrcUpdateProps"], "TsVerif/C19/Audit.lean")
    driver = ctx.build_driver("tsv-c19")
    explorer = ctx.cargo_bin("c19")
    if not (explorer and os.path.exists(driver)):
        jf.flush()
        return ctx.finish()
    ops = os.path.join(ctx.workdir, "ops.txt")
    work = os.path.join(ctx.workdir, "w")
    thorough = ctx.tier == "thorough"
    enumerated = {}
    if ctx.replay:
        rp = json.load(open(ctx.replay))
        spec = os.path.join(ctx.workdir, "spec.txt")
        open(spec, "w").write(rp["case"].get("spec", "") + "\n")
        cmd = [explorer, ops, work, "--spec", spec]
    else:
        cmd = [explorer, ops, work]
        for variant in ("orig", "recheck"):
            rc, out = sh([driver, "enum", variant], timeout=600)
            lines = [l for l in out.split("\n") if l.startswith("sched ")]
            enumerated[variant] = len(lines)
            if variant == "recheck" and not thorough:
                # the repaired protocol loops, so it has many more schedules; thin out before sampling
                lines = lines[:: max(1, len(lines) // 20000)]
            picked, nstrata = stratified(lines, 1500 if thorough else 200, ctx.seed)
            f = os.path.join(ctx.workdir, "sched_%s.txt" % variant)
            open(f, "w").write("\n".join(picked) + "\n")
            cmd += ["--sched" if variant == "orig" else "--sched-recheck", f]
            ctx.coverage["schedules_" + variant] = {"enumerated_by_model": enumerated[variant], "sampled": len(picked), "strata": nstrata}
        if not enumerated.get("orig"):
            ctx.oblige("run:model-enumerates-schedules", False, "tsv-c19 enum produced nothing")
    rc, out = sh(cmd, env=ctx.env, timeout=3000)
    ctx.log(out.strip().split("\n")[-1] if out.strip() else "explorer silent")
    if rc != 0 or not os.path.exists(ops):
        ctx.oblige("run:explorer", False, out[-800:])
        jf.flush()
        return ctx.finish()
    specs, mode = {}, {}
    for line in open(ops):
        if line.startswith("spec "):
            _, cid, rest = line.rstrip("\n").split(" ", 2)
            specs[cid] = rest
        elif line.startswith("mode "):
            mode = dict(w.split("=", 1) for w in line.split()[1:])
    rc, out = sh("%s < %s" % (driver, ops), timeout=3000)
    real = {}
    for line in open(ops):
        if line.startswith("case "):
            cid, kv = parse_kv_line(line[5:])
            real[cid] = kv
    evals = 0
    distinct = set()
    samples = []
    corr_cmp = corr_bad = corr_skip = judge_bad = 0
    timing_excluded, timing_retried = [], 0
    kinds = {"ctl": 0, "free": 0, "upd": 0}
    variants = {}
    outcome_hist = {}
    for line in out.split("\n"):
        if not line.strip():
            continue
        cid, kv = parse_kv_line(line)
        if "corr" not in kv:
            continue
        evals += 1
        r = real.get(cid, {})
        kinds[kv.get("kind", "?")] = kinds.get(kv.get("kind", "?"), 0) + 1
        key = "%s|later=%s|lock=%s" % (",".join(sorted(r.get("results", "").split(";"))), r.get("later"), r.get("lockleft"))
        outcome_hist[key] = outcome_hist.get(key, 0) + 1
        if kv.get("nontrivial") == "1":
            distinct.add(hashlib.sha1(specs.get(cid, cid).encode()).hexdigest())
        if len(samples) < 6 and evals % 37 == 1:
            samples.append({"case": cid, "spec": specs.get(cid, "")[:300], "real": r, "verdict": kv})
        payload = {"case": cid, "spec": specs.get(cid, ""), "real": r, "verdict": kv}
        if kv["judge"] == "inconclusive":
            timing_excluded.append({"case": cid, "spec": specs.get(cid, "")[:200], "real": r})
            corr_skip += 1
            continue
        if r.get("retried") == "1":
            timing_retried += 1
        if kv["judge"] != "ok":
            judge_bad += 1
            clause = kv["judge"].split(":")[1] if ":" in kv["judge"] else kv["judge"]
            jf.violation("judge", "C19 judge failed on the real loader's outcome: %s (results=%s later=%s; %s)" %
                          (kv["judge"], r.get("results"), r.get("later"), specs.get(cid, "")[:200]), payload,
                          fingerprint={"clause": clause, "broken": r.get("broken", "?"), "later": r.get("later", "?"),
                                       "lockleft": r.get("lockleft", "?"),
                                       "lock_owner": ("orphaned:leftover" if r.get("lock") == "1" else
                                                      "orphaned:death" if ("dead" in r.get("results", "").split(";") or "crash" in r.get("steps", "")
                                                                           or r.get("killed") == "1") else "alive-or-none"),
                                       "winner_failed_to_compile": "1" if "compile" in r.get("results", "").split(";") else "0",
                                       "stale_version": "1" if any(t.startswith("ok") and t != ("ok22" if r.get("scanner") == "1" else "ok2")
                                                                   for t in r.get("results", "").split(";") + [r.get("later", "")]) else "0",
                                       "scanner": r.get("scanner", "0"), "stalekind": r.get("stalekind", "-"),
                                       "subsecond_gap": "1" if int(r.get("gap", "0") or 0) and int(r.get("gap", "0") or 0) < 1000000000 else "0"})
        if kv["corr"].startswith("skip"):
            corr_skip += 1
        else:
            corr_cmp += 1
            variants[kv.get("variant")] = variants.get(kv.get("variant"), 0) + 1
            if kv["corr"] != "ok":
                corr_bad += 1
                jf.violation("corr", "model and real loader disagree: %s (%s)" % (kv["corr"], specs.get(cid, "")[:200]),
                              dict(payload, correspondence="TsVerif.C19.step/mstep vs crates/loader/src/loader.rs"),
                              fingerprint={"corr": "diff"}, found_input=False)
    # one protocol variant must explain every case
    only_orig, only_re = variants.get("orig", 0), variants.get("recheck", 0)
    consistent = not (only_orig and only_re)
    ctx.oblige("corr:model=loader", corr_bad == 0 and consistent,
               "%d disagreements; cases explained only by orig: %d, only by recheck: %d" % (corr_bad, only_orig, only_re))
    # no wall-clock-sensitive verdicts: cases that stalled are retried once with 4x limits in a fresh
    # directory; if they stall again they are excluded and counted; many of them is itself a failure
    ctx.oblige("run:few-inconclusive-cases", len(timing_excluded) <= max(3, evals // 25),
               "%d of %d cases stalled twice: %s" % (len(timing_excluded), evals, json.dumps(timing_excluded)[:400]))
    # the loader's DEFAULT lock timeout is exercised by exactly one case per run (every other case overrides it through the hook)
    dcase = [(cid, r) for cid, r in real.items() if r.get("kind") == "default"]
    if not ctx.replay:
        ctx.oblige("run:default-lock-timeout-case-ran", len(dcase) == 1, "%d default-timeout cases" % len(dcase))
    if dcase:
        ctx.coverage["default_lock_timeout"] = {"elapsed_ms": dcase[0][1].get("elapsed_ms"), "bound_ms": dcase[0][1].get("bound_ms"),
                                                "attempts": dcase[0][1].get("attempts"), "result": dcase[0][1].get("results"),
                                                "rule": "stale lock + library absent + no TS_VERIF_LOCK_TIMEOUT_MS: a working language within the bound (protocol constant 30 s + one poll + compile)"}
    hook = mode.get("hook") == "1"
    if not hook and mode.get("patient") != "1":
        ctx.notes.append("quick tier without the hook: the real 30 s lock timeout is not sat out (callers still running after 6 s are "
                         "killed and count as crashed; %s leftover-lock cases skipped); the stale-lock finding is exercised with the hook or in the thorough tier" % mode.get("skipped_free", "0"))
    ctx.notes.append("mode: %s" % ("controlled schedules + free races (hook hooks/C19-loader-points.diff present in /repo)" if hook
                                   else "free races only (hook absent: uncontrolled concurrency, kill -9 at random times, leftover lock/temp)"))
    ctx.notes.append("protocol variant matched: %s" % ("recheck (fixes/C19-recheck-and-steal.diff)" if only_re else "orig (unchanged tree)"))
    ctx.coverage.update({
        "evaluations": evals, "distinct_nontrivial": len(distinct),
        "rule": "one evaluation = one run of 1-8 real loaders (processes and threads) on a private cache: either a model-enumerated "
                "schedule executed step by step through the hook points (controlled) or an uncontrolled race with an optional kill -9 (free), "
                "followed by probes of the files left and one later load; non-trivial := >=2 callers with an absent/stale library, or a crash/kill, "
                "or a leftover lock; distinct by hash of the case spec",
        "mode": "controlled+free" if hook else "free-only",
        "hook_present": hook, "variant": mode.get("variant", "?"),
        "kinds": kinds, "samples": samples,
        "source_update_histories": {"ran": kinds.get("upd", 0),
                                    "rule": "controlled histories (hook points) with a source rewrite placed while a loader waits at `poll` "
                                            "(lock planted, or held by a live loader that compiles the old sources); judge Upd.okGen: a success shows a "
                                            "generation >= the one the loader's last check read; replayed in the Lean model TsVerif.C19.Upd (srcUpdate step)"},
        "outcome_histogram": dict(sorted(outcome_hist.items(), key=lambda x: -x[1])[:25]),
        "timing": {"retried_after_stall": timing_retried, "excluded_inconclusive": len(timing_excluded),
                   "excluded_cases": timing_excluded[:5],
                   "rule": "a loader/step that does not complete within the wall-clock limit is retried once (fresh directory, 4x limits); "
                           "stalled twice = excluded, no verdict"},
        "correspondence": {"compared": corr_cmp, "equal": corr_cmp - corr_bad, "skipped_state_space": corr_skip},
        "judge": {"evaluated": evals - len(timing_excluded), "passed": evals - len(timing_excluded) - judge_bad},
        "impl_vs_judge_failures": judge_bad, "model_vs_impl_disagreements": corr_bad,
    })
    if hook and not ctx.replay:
        ctx.oblige("run:source-update-histories-ran", kinds.get("upd", 0) >= 8, "%d kind=upd cases" % kinds.get("upd", 0))
    if evals == 0:
        ctx.oblige("run:driver-produced-results", False,
                   ("a controlled schedule can only be replayed with hooks/C19-loader-points.diff applied "
                    "(tools/with_patch hooks/C19-loader-points.diff -- ./check C19 --replay <file>); " if not hook else "") + out[-500:])
    jf.flush()
    return ctx.finish()
