"""C10 — Editing a tree keeps every untouched node in sync with the new text.

Proof: TsVerif/C10/Props.lean over the port of ts_subtree_edit (Model.lean) and the generated
point/length/ts_point_edit/ts_range_edit definitions.  Tie: T-gen for the helpers, T-corr for
the port (real trees before/after ts_tree_edit, every field), judge on the real after-trees."""
import hashlib
import json
import os
from checklib import sh, parse_kv_line


def run(ctx):
    ctx.trusted += ["hand port TsVerif/C10/Model.lean of ts_subtree_edit (tied by correspondence on dumps of real subtrees)",
                    "arithmetic assumption: all byte/row/column quantities < 2^32 (nat mode), exact wrap-around for ts_range_edit"]
    ctx.assumptions += ["EditOK: start <= old_end <= |text| and the edit's points are the row/column of its bytes",
                        "documents < 4 GiB"]
    ctx.regen()
    ctx.validate_translator()
    ctx.prove(["TsVerif.C10.Props"], "TsVerif/C10/Audit.lean")
    driver = ctx.build_driver("tsv-c10")
    explorer = ctx.cargo_bin("c10")
    if not (explorer and os.path.exists(driver)):
        return ctx.finish()
    ops = os.path.join(ctx.workdir, "ops.txt")
    if ctx.replay:
        rp = json.load(open(ctx.replay))
        spec = os.path.join(ctx.workdir, "spec.txt")
        open(spec, "w").write(rp["case"].get("spec", "") + "\n")
        rc, out = sh([explorer, ops, "--spec", spec], env=ctx.env, timeout=3000)
    else:
        rc, out = sh([explorer, ops], env=ctx.env, timeout=3000)
    ctx.log(out.strip().split("\n")[-1] if out.strip() else "explorer silent")
    if rc != 0:
        ctx.oblige("run:explorer", False, out[-800:])
        return ctx.finish()
    specs = {}
    for line in open(ops):
        if line.startswith("spec "):
            _, cid, rest = line.rstrip("\n").split(" ", 2)
            specs[cid] = rest
    rc, out = sh("%s < %s" % (driver, ops), timeout=3000)
    evals = 0
    distinct = set()
    samples = []
    agg = {"nodes": 0, "kept": 0, "shifted": 0, "touched": 0}
    corr_bad = 0
    judge_bad = 0
    hyp_bad = 0
    hyp_ok = 0
    laok = 0
    cons_hyp = 0
    cons_bad = 0
    for line in out.split("\n"):
        if not line.strip():
            continue
        cid, kv = parse_kv_line(line)
        if "corr" not in kv:
            continue
        evals += 1
        for k in agg:
            try:
                agg[k] += int(kv.get(k, "0") or 0)
            except ValueError:
                ctx.oblige("driver-output-wellformed", False, line[:200])
        if int(kv.get("touched", "0") or 0) >= 1 and int(kv.get("kept", "0") or 0) + int(kv.get("shifted", "0") or 0) >= 1:
            distinct.add(hashlib.sha1(specs.get(cid, cid).encode()).hexdigest())
        if len(samples) < 5 and evals % 997 == 1:
            samples.append({"case": cid, "spec": specs.get(cid, "")[:300], "result": kv})
        lang = cid.rsplit("-", 1)[0]
        if kv.get("laok") == "1":
            laok += 1
        if kv.get("consb") == "1" and kv.get("editok2") == "1":
            cons_hyp += 1
            if kv.get("consa") != "1" or kv.get("consm") != "1":
                # edit_consistent's conclusion fails on a real tree although its hypotheses hold:
                # the implementation (consa) or the port (consm) left the text-consistent trees
                cons_bad += 1
                ctx.violation("judge", "Cons (row/column consistency with the new text) is lost by ts_tree_edit although the tree was consistent and the edit is EditOK (edit_consistent's conclusion fails on the real tree: consa=%s, model tree: consm=%s)" % (kv.get("consa"), kv.get("consm")),
                              {"case": cid, "spec": specs.get(cid, ""), "result": kv}, fingerprint={"lang": lang, "clause": "cons-lost"})
        if kv.get("wfb") == "1" and kv.get("editok") == "1":
            hyp_ok += 1
        elif kv.get("wfb") != "1":
            hyp_bad += 1
            ctx.violation("corr", "a real tree does not satisfy WFb (hypothesis of edit_kept_shifted_bytes / edit_preserves_tiling)",
                          {"case": cid, "spec": specs.get(cid, ""), "result": kv,
                           "theorem_hypothesis": "TsVerif.C10.WFb"}, fingerprint={"lang": lang, "hyp": "wfb"}, found_input=False)
        if kv["judge"] != "ok":
            judge_bad += 1
            ctx.violation("judge", "C10 judge failed on the implementation's tree: " + kv["judge"],
                          {"case": cid, "spec": specs.get(cid, ""), "result": kv},
                          fingerprint={"lang": lang, "clause": kv["judge"][:40]})
        elif kv["corr"] != "ok":
            corr_bad += 1
            ctx.violation("corr", "model editTree and ts_subtree_edit disagree: " + kv["corr"],
                          {"case": cid, "spec": specs.get(cid, ""), "result": kv,
                           "correspondence": "TsVerif.C10.editTree vs lib/src/subtree.c:ts_subtree_edit"},
                          fingerprint={"lang": lang, "corr": "diff"}, found_input=False)
    ctx.oblige("corr:editTree=ts_subtree_edit", corr_bad == 0, "%d disagreements" % corr_bad)
    ctx.oblige("hyp:WFb-holds-on-every-real-tree(before and after)", hyp_bad == 0, "%d trees violate WFb" % hyp_bad)
    ctx.coverage["theorem_hypotheses_met"] = {"cases_with_WFb_and_EditB": hyp_ok, "WFb_violations": hyp_bad, "cases_with_LaOK": laok,
                                                "cases_with_Cons_and_EditOK(edit_consistent applies)": cons_hyp,
                                                "edit_consistent_conclusion_failed_on_real_tree": cons_bad}
    ctx.coverage.update({
        "evaluations": evals, "distinct_nontrivial": len(distinct),
        "rule": "zoo languages x grammar-directed documents (every 5th byte-mutated) x edit histories of 1-4 random edits "
                "(insert/delete/replace at token boundaries, inside tokens, in padding, BOF/EOF, multi-line, multi-byte) "
                "applied through Tree::edit without re-parsing; one evaluation = one (tree, edit) pair with full internal dumps; "
                "non-trivial := >=1 node overlapping the change and >=1 node kept or shifted; distinct by hash of (language, text, edit list)",
        "samples": samples, "node_totals": agg,
        "correspondence": {"compared": evals, "equal": evals - corr_bad},
        "judge": {"evaluated": evals, "passed": evals - judge_bad},
        "impl_vs_judge_failures": judge_bad, "model_vs_impl_disagreements": corr_bad,
    })
    if evals == 0:
        ctx.oblige("run:driver-produced-results", False, out[-500:])
    return ctx.finish()
