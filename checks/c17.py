"""C17 — Highlight events are well nested and reproduce the source text exactly.

Proof: TsVerif/C17/Props.lean over hand ports (Model.lean) of core::str::from_utf8, LossyUtf8 (the
iterator of the unchanged tree and the one of fixes/C17-lossy-truncated.diff), HtmlRenderer::render /
add_text / add_carriage_return, and a model of the layer merge (Merge.lean).
Tie: T-corr — the real LossyUtf8, the real HtmlRenderer (synthetic well-/ill-formed streams and real
streams) and String::from_utf8_lossy against the ports, on every run.
Judge: Lean predicates of Judge.lean on every real event stream of Highlighter::highlight and on
every real HTML output."""
import hashlib
import json
import os
from collections import Counter
from checklib import sh, parse_kv_line, REPO, HARNESS

MAX_REPORT = 12


def run(ctx):
    ctx.trusted += [
        "hand ports TsVerif/C17/Model.lean of core::str::from_utf8 (valid_up_to/error_len), tree_sitter::LossyUtf8 and "
        "HtmlRenderer::{render,add_text,add_carriage_return} (tied by correspondence with the real code on every run)",
        "spec-level lossySpec is compared with std String::from_utf8_lossy on every explored byte string",
        "harness oracles for the judge inputs: injection content ranges and resolved local references are computed by "
        "harness/src/bin/c17/main.rs through the public query API (independent re-implementation of intersect_ranges / scope lookup)",
        "Merge.lean / MergeMulti.lean model HighlightIter::next (one layer / several layers without locals queries); both are tied by correspondence with the real event streams; the locals branch and layer construction are judged, not modelled",
    ]
    ctx.assumptions += [
        "the attribute callback passed to HtmlRenderer::render never writes '>' (hattr)",
        "documents < 4 GiB (line_offsets are u32 in the code, Nat in the model)",
        "UTF-8 encoding only (the UTF-16 paths of Highlighter::highlight are not exercised)",
    ]
    ctx.prove(["TsVerif.C17.Props", "TsVerif.C17.Round11", "TsVerif.C17.Round11b"], "TsVerif/C17/Audit.lean")
    driver = ctx.build_driver("tsv-c17")
    explorer = ctx.cargo_bin("c17")
    # optional: with hooks/C17-reexport.diff in /repo the explorer also calls the REAL private intersect_ranges.
    # The source text is only a HINT (comments stripped, any whitespace/line wrapping between the tokens);
    # what decides is whether the hook variant of the explorer BUILDS - if it does not, fall back cleanly.
    hook_used = False
    try:
        src = open(os.path.join(REPO, "crates/highlight/src/highlight.rs")).read()
        import re
        stripped = re.sub(r"/\*.*?\*/", " ", src, flags=re.S)
        stripped = re.sub(r"//[^\n]*", " ", stripped)
        m = re.search(r"\bpub\s+mod\s+verif\b", stripped)
        hint = bool(m and re.search(r"\bfn\s+intersect_ranges\b", stripped[m.end():]))
    except OSError:
        hint = False
    if hint and explorer:
        rc, o = sh(["cargo", "rustc", "--release", "--offline", "--bin", "c17", "--", "--cfg", "tsv_c17_hook"], cwd=HARNESS, timeout=3000)
        if rc == 0:
            hook_used = True
            ctx.notes.append("hook hooks/C17-reexport.diff present: explorer built with --cfg tsv_c17_hook")
        else:
            ctx.notes.append("a `verif` module exists but the hook variant of the explorer does not build (different signature?): "
                             "falling back to the build without the hook; " + o[-300:].replace("\n", " "))
            explorer = ctx.cargo_bin("c17")
    else:
        ctx.notes.append("hook hooks/C17-reexport.diff not applied: intersect_ranges is tied through the harness's ranges + exact event streams only")
    ctx.coverage["hook_C17_reexport_used"] = hook_used
    if not (explorer and os.path.exists(driver)):
        return ctx.finish()
    ops = os.path.join(ctx.workdir, "ops.txt")
    if ctx.replay:
        rp = json.load(open(ctx.replay))
        spec = os.path.join(ctx.workdir, "spec.txt")
        open(spec, "w").write(rp["case"].get("spec", "") + "\n")
        rc, out = sh([explorer, ops, "--spec", spec], env=ctx.env, timeout=3000)
    else:
        rc, out = sh([explorer, ops], env=ctx.env, timeout=3000)
    ctx.log(out.strip().split("\n")[-1] if out.strip() else "explorer silent")
    if rc == 3 and "HANG " in out:
        # the watchdog of the explorer: one case did not finish in the real code
        hang = [l for l in out.split("\n") if l.startswith("HANG ")][-1][5:]
        ctx.violation("judge", "C17 termination: Highlighter::highlight / HtmlRenderer::render did not finish within the per-case time limit on this input",
                      {"case": "hang", "spec": hang}, fingerprint={"kind": hang[:1], "clause": "termination"})
        return ctx.finish()
    if rc == 4 and "PANIC " in out:
        pn = [l for l in out.split("\n") if l.startswith("PANIC ")][-1][6:]
        ctx.violation("judge", "C17 panic: Highlighter::highlight / HtmlRenderer::render panicked in the real code on this input",
                      {"case": "panic", "spec": pn}, fingerprint={"kind": pn[:1], "clause": "panic"})
        return ctx.finish()
    if rc != 0:
        ctx.oblige("run:explorer", False, out[-800:])
        return ctx.finish()
    specs = {}
    for line in open(ops):
        if line.startswith("spec "):
            _, cid, rest = line.rstrip("\n").split(" ", 2)
            specs[cid] = rest
    rc, out = sh("%s < %s" % (driver, ops), timeout=3000)
    if rc != 0:
        ctx.oblige("run:driver", False, out[-800:])

    probe = {}
    probe_init = None
    probe_crcr = None
    lines_stat = Counter()
    evals = 0
    kinds = Counter()
    variants = Counter()
    causes = Counter()
    dist = Counter()
    distinct = set()
    samples = []
    corr_bad = 0
    spec_bad = 0
    judge_bad = 0
    judge_eval = 0
    reported = Counter()
    sizes = []
    multi = Counter()

    def report_judge(cid, kv, clause, what, cause="-"):
        nonlocal judge_bad
        judge_bad += 1
        causes[clause + ":" + cause] += 1
        key = clause + ":" + cause
        reported[key] += 1
        if reported[key] > MAX_REPORT:
            return
        ctx.violation("judge", "C17 %s: %s" % (clause, what),
                      {"case": cid, "spec": specs.get(cid, ""), "result": kv},
                      fingerprint={"kind": kv.get("kind"), "clause": clause, "cause": cause})

    def report_corr(cid, kv, what, name):
        nonlocal corr_bad
        corr_bad += 1
        reported[name] += 1
        if reported[name] > MAX_REPORT:
            return
        ctx.violation("corr", what, {"case": cid, "spec": specs.get(cid, ""), "result": kv, "correspondence": name},
                      fingerprint={"kind": kv.get("kind"), "corr": name}, found_input=False)

    LINE_CLAUSES = {
        "offsets-monotone-in-bounds": "line_offsets does not start with 0 / is not strictly increasing / leaves the html",
        "offsets-are-line-starts": "line_offsets is not exactly the list of line starts of the html (an offset that is not preceded by a newline, or a line start without an offset): lines() cuts lines in the wrong places",
        "line-newline": "a line returned by lines() does not end with a newline",
        "line-tags": "a line returned by lines() has unbalanced / cut / badly nested tags",
        "line-reopen": "at a newline the open spans are not closed before it and re-opened, in order, at the start of the next line",
        "line-text": "tags removed and entities decoded, a line of lines() is not the corresponding line of the normalised source (CRLF -> newline, lone CR dropped or replaced by the carriage-return marker at its place)",
    }

    def judge_lines(cid, kv):
        """the PER-LINE view of the renderer's output (lines()/line_offsets)"""
        nonlocal judge_eval
        lj = kv.get("lines")
        if lj in (None, "panic", "skip"):
            return
        judge_eval += 1
        lines_stat["renderings"] += 1
        lines_stat["lines_checked"] += int(kv.get("nlines", "0") or 0)
        if kv.get("crhset") == "1":
            lines_stat["with_cr_highlight"] += 1
            if kv.get("crlf") == "1":
                lines_stat["with_CRLF_and_cr_highlight"] += 1
            if kv.get("cr") == "1":
                lines_stat["with_CR_and_cr_highlight"] += 1
        elif kv.get("crlf") == "1":
            lines_stat["with_CRLF_without_cr_highlight"] += 1
        if lj != "ok":
            clause, _, cause = lj.partition(":")
            report_judge(cid, kv, "lines:" + clause, LINE_CLAUSES.get(clause, clause), cause or "-")

    for line in out.split("\n"):
        if not line.strip():
            continue
        cid, kv = parse_kv_line(line)
        kind = kv.get("kind")
        if kind == "W":
            probe_init = kv.get("initinsert")
            continue
        if kind == "X":
            probe_crcr = kv.get("crcr")
            continue
        if kind == "V":
            # which LossyUtf8 port the real code follows was PROBED (ab\\xe2 / ab\\xff), not looked up
            probe = {"fix_final_invalid_in_effect": kv.get("fixfinal"), "fix_truncated_tail_in_effect": kv.get("fixtrunc"), "raw": kv.get("raw")}
            continue
        if kind == "P":
            evals += 1
            kinds["P"] += 1
            judge_eval += 1
            dist["P:history-step-with-flag:" + kv.get("outcome", "?").split(":")[0]] += 1
            if kv.get("judge") != "ok":
                report_judge(cid, kv, kv.get("clause", "cancelled-prefix"),
                             "a run with a cancellation flag (step of a history over one Highlighter): outcome %s, expected %s" % (kv.get("outcome"), kv.get("expect")))
            continue
        if kind == "E":
            evals += 1
            kinds["E"] += 1
            judge_eval += 1
            dist["E:c-api-error-code:" + kv.get("name", "?")] += 1
            if kv.get("judge") != "ok":
                report_judge(cid, kv, "capi-error-code", "C API returned error code %s, expected %s (%s)" % (kv.get("got"), kv.get("want"), kv.get("name")))
            continue
        if kind not in ("L", "R", "H", "M", "N", "K", "F"):
            continue
        evals += 1
        kinds[kind] += 1
        spec = specs.get(cid, "")
        corr = kv.get("corr", "?")
        if kind == "F":
            judge_eval += 1
            multi["full_compared"] += 1
            nl = int(kv.get("nlayers", "0") or 0)
            dist["F:layers=%s" % ("1" if nl <= 1 else "2-3" if nl <= 3 else "4-8" if nl <= 8 else ">8")] += 1
            if int(kv.get("ninj", "0") or 0) >= 1 and int(kv.get("nloc", "0") or 0) >= 1:
                dist["F:with-injection-captures-and-locals"] += 1
            if corr == "ok" and kv.get("fin") == "1":
                multi["full_equal"] += 1
            else:
                report_corr(cid, kv, "end-to-end model mergeFull (layers + locals + injection_for_match + intersect_ranges + new-table) and the real event stream disagree (corr=%s fin=%s)" % (corr, kv.get("fin")),
                            "mergeFull=HighlightIter::next")
            stk = kv.get("stack", "-")
            dist["F:scope-stack-judge=%s" % ("FAIL" if stk.startswith("FAIL") else stk)] += 1
            if stk.startswith("FAIL"):
                report_judge(cid, kv, "scope-stack", "the highlights active over Source span %s are not the ones of the layers' captures containing it "
                             "(an End closed another capture's highlight, or a highlight was not opened/closed in place)" % stk[5:], kv.get("cause", "-"))
            if kv.get("initsorted") == "0":
                dist["F:initial-layers-not-ordered-by-sort_key"] += 1
            if kv.get("refsup") != "1" or kv.get("defsin") != "1":
                report_corr(cid, kv, "a real case violates refsUp/defsIn (hypotheses of merge_full_wellformed)", "refsUp/defsIn(full)")
            if kv.get("wf") != "ok":
                report_judge(cid, kv, "events-wellformed", "event stream (locals + injections) is not well formed")
            if kv.get("err", "-") != "-":
                report_judge(cid, kv, "highlight-error", "Highlighter::highlight returned an error: " + kv["err"])
            if nl >= 2:
                distinct.add(hashlib.sha1(spec.encode()).hexdigest())
            continue
        if kind == "K":
            judge_eval += 1
            multi["locals_compared"] += 1
            if corr == "ok":
                multi["locals_equal"] += 1
            else:
                report_corr(cid, kv, "model mergeLocals (scope_stack / definitions / references / non-local patterns) and the real single-layer event stream disagree",
                            "mergeLocals=HighlightIter::next")
            if kv.get("wf") != "ok":
                report_judge(cid, kv, "events-wellformed", "event stream (layer with locals) is not well formed")
            if kv.get("err", "-") != "-":
                report_judge(cid, kv, "highlight-error", "Highlighter::highlight returned an error: " + kv["err"])
            if int(kv.get("ndef", "0") or 0) >= 1 and int(kv.get("nref", "0") or 0) >= 1:
                dist["K:with-definitions-and-references"] += 1
                distinct.add(hashlib.sha1(spec.encode()).hexdigest())
            continue
        if kind == "N":
            judge_eval += 1
            multi["compared"] += 1
            nl = int(kv.get("nlayers", "0") or 0)
            dist["N:layers=%s" % ("1" if nl <= 1 else "2-3" if nl <= 3 else "4-8" if nl <= 8 else ">8")] += 1
            multi["ir_compared"] += int(kv.get("ir", "0") or 0)
            multi["ir_equal"] += int(kv.get("ir", "0") or 0) - int(kv.get("irbad", "0") or 0)
            multi["ir_real"] += int(kv.get("irreal", "0") or 0)
            if kv.get("irbad", "0") != "0":
                report_corr(cid, kv, "Lean port intersectRanges differs from the injection ranges the harness used (which reproduce the real stream)", "intersectRanges=content_ranges")
            dist["N:DefsNice(hypothesis of merge_events_in_place)=%s" % kv.get("defsnice")] += 1
            if nl >= 2:
                dist["N:multi-layer:static=%s,crossNice=%s,staticNice(premise of merge_well_nested_partial)=%s" % (kv.get("static"), kv.get("crossnice"), kv.get("staticnice"))] += 1
                multi["wn_multi"] += 1
                multi["wn_static"] += int(kv.get("static") == "1")
                multi["wn_premise"] += int(kv.get("staticnice") == "1")
                multi["wn_cross"] += int(kv.get("crossnice") == "1")
                multi["wn_lam_only"] += int(kv.get("crosslam") == "1" and kv.get("crossnice") != "1")
                multi["wn_not_lam"] += int(kv.get("crosslam") != "1")
                multi["wn_dyn"] += int(kv.get("dynnice") == "1")
                multi["wn_ghost"] += int(kv.get("ghost") == "1")
                for key in ("defsniced", "refsup", "closure", "crossnice", "injtie"):
                    multi["wn_fail_" + key] += int(kv.get(key) != "1")
                multi["wn_cross_but_not_dyn"] += int(kv.get("crossnice") == "1" and kv.get("dynnice") != "1")
                if kv.get("dynnice") == "1" and kv.get("ghost") != "1":
                    report_corr(cid, kv, "premise dynNice holds on this real layer table but the model's run violates the stack discipline (contradicts merge_well_nested_run_partial: driver and theorem disagree)", "dynNice=>ghost-run")
            if kv.get("refsup") != "1":
                report_corr(cid, kv, "layer table of a real case violates refsUp (hypothesis of merge_multi_wellformed)", "refsUp")
            if kv.get("defsin") != "1":
                report_corr(cid, kv, "a real capture lies outside the source (hypothesis defsIn of merge_multi_wellformed_partial)", "defsIn")
            if corr == "ok" and kv.get("fin") == "1":
                multi["equal"] += 1
            else:
                report_corr(cid, kv, "model mergeLayers (sort_key/sort_layers/insert_layer/last_highlight_range) and the real multi-layer event stream disagree (corr=%s fin=%s)" % (corr, kv.get("fin")),
                            "mergeLayers=HighlightIter::next")
            if kv.get("wf") != "ok":
                report_judge(cid, kv, "events-wellformed", "multi-layer event stream is not well formed")
            if kv.get("err", "-") != "-":
                report_judge(cid, kv, "highlight-error", "Highlighter::highlight returned an error: " + kv["err"])
            if nl >= 2:
                distinct.add(hashlib.sha1(spec.encode()).hexdigest())
            continue
        if kind == "M":
            judge_eval += 1
            dist["M:capsok=%s" % kv.get("capsok")] += 1
            if corr != "ok":
                report_corr(cid, kv, "model mergeLayer and the real single-layer event stream disagree", "mergeLayer=HighlightIter::next")
            if kv.get("wf") != "ok":
                report_judge(cid, kv, "events-wellformed", "single-layer event stream is not well formed")
            if kv.get("err", "-") != "-":
                report_judge(cid, kv, "highlight-error", "Highlighter::highlight returned an error: " + kv["err"])
            if int(kv.get("depth", "0") or 0) >= 2:
                distinct.add(hashlib.sha1(spec.encode()).hexdigest())
            continue
        variants[corr] += 1
        if corr != "ok":
            name = {"L": "lossy=LossyUtf8", "R": "render=HtmlRenderer::render", "H": "render=HtmlRenderer::render"}[kind]
            report_corr(cid, kv, "model and implementation disagree (%s): %s" % (name, corr), name)
        if kind == "L":
            judge_eval += 1
            if kv.get("spec") != "ok":
                spec_bad += 1
                report_corr(cid, kv, "lossySpec differs from String::from_utf8_lossy", "lossySpec=from_utf8_lossy")
            if kv.get("judge") != "ok":
                report_judge(cid, kv, "lossy", "LossyUtf8 output is not the replacement-complete decoding of the input", kv.get("cause", "-"))
            parts = spec.split(" ")
            if len(parts) >= 2 and any(int(parts[1][i:i + 2], 16) >= 0x80 for i in range(0, len(parts[1]) - 1, 2) if parts[1] != "-"):
                distinct.add(hashlib.sha1(spec.encode()).hexdigest())
            dist["L:tail-loss" if kv.get("loss") == "true" else "L:no-tail-loss"] += 1
            if len(parts) >= 2 and len(parts[1]) > 2048:
                dist["L:longer-than-1KiB"] += 1
        elif kind == "R":
            j = kv.get("judge")
            dist["R:wf=%s:%s" % (kv.get("wf"), "panic" if j == "panic" else "rendered")] += 1
            if len(spec) > 2100:
                dist["R:source-longer-than-1KiB"] += 1
            dist["R:attribute-callback-mode=%s" % kv.get("attr", "0")] += 1
            if j not in ("panic", "skip"):
                judge_eval += 1
            if kv.get("capirc", "-") != "-":
                dist["R:through-the-C-API"] += 1
                multi["capi_compared"] += 1
                if kv.get("capirc") == "0" and corr == "ok":
                    multi["capi_equal"] += 1
                if kv.get("capirc") != "0":
                    report_judge(cid, kv, "capi-error-code", "ts_highlighter_highlight returned %s on a valid document" % kv.get("capirc"))
            if j == "FAIL":
                report_judge(cid, kv, "html-text", "HTML with tags removed and entities decoded is not the normalised text of the stream", kv.get("cause", "-"))
            if kv.get("wf") == "1" and j == "panic":
                report_judge(cid, kv, "render-panic", "HtmlRenderer::render panicked on a well-formed stream")
            judge_lines(cid, kv)
            if kv.get("wf") == "1" and (",H" in spec or spec.split(" ")[-1].startswith("H")):
                distinct.add(hashlib.sha1(spec.encode()).hexdigest())
        else:
            judge_eval += 1
            parts = spec.split(" ")
            if len(parts) >= 6:
                dist["H:root=%s:variant=%s:names=%s" % (parts[1], parts[2], parts[3].rstrip("0123456789"))] += 1
                sizes.append(0 if parts[5] == "-" else len(parts[5]) // 2)
            if kv.get("err", "-") != "-":
                dist["H:error=" + kv["err"]] += 1
                report_judge(cid, kv, "highlight-error", "Highlighter::highlight returned an error: " + kv["err"])
            if kv.get("wf") != "ok":
                report_judge(cid, kv, "events-wellformed", "event stream is not well formed (Source spans contiguous/covering, Start/End balanced and closed)")
            if kv.get("inj") != "ok":
                report_judge(cid, kv, "injected-inside", "a span of an injected language starts outside the injection's content ranges")
            if kv.get("html") == "FAIL":
                report_judge(cid, kv, "html-text", "HTML with tags removed and entities decoded is not the normalised source", kv.get("cause", "-"))
            if kv.get("html") == "panic":
                report_judge(cid, kv, "render-panic", "HtmlRenderer::render panicked on a real event stream")
            judge_lines(cid, kv)
            if kv.get("loc") != "ok":
                report_judge(cid, kv, "local-ref", "a resolved local reference is not highlighted like its definition")
            nontrivial = int(kv.get("depth", "0") or 0) >= 2 or int(kv.get("ninj", "0") or 0) >= 1
            if nontrivial:
                distinct.add(hashlib.sha1(spec.encode()).hexdigest())
            dist["H:nontrivial" if nontrivial else "H:trivial"] += 1
            dist["H:chunkwise-text-%s-whole-source-text" % ("equals" if kv.get("whole") == "1" else "differs-from")] += 1
            if kv.get("charbnd") == "1" and kv.get("whole") != "1" and kv.get("wf") == "ok":
                # normalize_whole is a theorem: this cannot happen unless the driver/judge is broken
                report_corr(cid, kv, "normalize_whole contradicted on a real stream", "normalize_whole")
            if int(kv.get("nloc", "0") or 0) >= 1:
                dist["H:with-resolved-local-refs"] += 1
            if int(kv.get("ninj", "0") or 0) >= 1:
                dist["H:with-injections"] += 1
            if cid.startswith("HL"):
                dist["H:one-token-longer-than-1KiB"] += 1
            if "." in cid and cid.startswith("S"):
                dist["H:completed-run-inside-a-history"] += 1
            if len(samples) < 4 and evals % 97 == 1:
                samples.append({"case": cid, "spec": spec[:300], "result": kv})
        if kind != "H" and len(samples) < 8 and evals % 1499 == 1:
            samples.append({"case": cid, "spec": spec[:300], "result": kv})

    if probe.get("fix_final_invalid_in_effect") not in ("0", "1") or probe.get("fix_truncated_tail_in_effect") not in ("0", "1"):
        corr_bad += 1
        ctx.violation("corr", "the LossyUtf8 probes (ab\\xe2, ab\\xff) match neither the old nor the repaired behaviour: %s" % probe,
                      {"probe": probe}, fingerprint={"corr": "lossy-probe"}, found_input=False)
    ctx.oblige("corr:lossy+render=LossyUtf8+HtmlRenderer", corr_bad == 0, "%d disagreements; variants %s" % (corr_bad, dict(variants)))
    ctx.oblige("corr:lossySpec=String::from_utf8_lossy", spec_bad == 0, "%d disagreements" % spec_bad)
    if probe_crcr not in ("0", "1"):
        corr_bad += 1
        ctx.violation("corr", "the CR-CR probe of HtmlRenderer::add_text gave no result: %s" % probe_crcr,
                      {"probe": probe_crcr}, fingerprint={"corr": "crcr-probe"}, found_input=False)
    if not ctx.replay:
        # the per-line view must really have been exercised with CRLF under a configured CR highlight
        ctx.oblige("explore:per-line-view-with-CRLF-and-carriage-return-highlight",
                   lines_stat["with_CRLF_and_cr_highlight"] >= 50 and lines_stat["lines_checked"] >= 1000,
                   "renderings with CRLF and a CR highlight: %d, lines checked: %d" % (lines_stat["with_CRLF_and_cr_highlight"], lines_stat["lines_checked"]))
    sizes.sort()
    ctx.coverage.update({
        "evaluations": evals, "distinct_nontrivial": len(distinct),
        "rule": "one evaluation = one case run through the REAL code and the Lean driver: L = a byte string through LossyUtf8 and "
                "String::from_utf8_lossy (all strings of length <=3 over 12 boundary bytes, then random ones); R = a synthetic event stream "
                "(well-formed, extra End, unclosed Start, gaps/overlaps, out-of-range, empty sources) through HtmlRenderer; long inputs: a 2/3/4-byte "
                "character swept over offsets around 1/2/3/4/8/64 KiB (+-5 bytes) and a thinned sweep of all residues mod 1024, plus random long "
                "valid/invalid UTF-8, through LossyUtf8, through HtmlRenderer as ONE Source span (plain, inside highlights, after a short span) and "
                "through real highlighting of a document with one long comment/string/text token; H = a generated "
                "document (stmt / tmpl / host, nested + combined injections, locals; clean, CR/CRLF, invalid UTF-8, byte noise, truncated tail) "
                "through Highlighter::highlight (one highlighter reused for all documents) and HtmlRenderer.  Non-trivial := H with >=2 nested "
                "highlights or >=1 injection layer; N (multi-layer merge model vs real stream, no locals) with >=2 layers; R well-formed with >=1 highlight; L with >=1 byte >= 0x80.  Distinct by SHA-1 of the case spec.",
        "samples": samples,
        "kinds": dict(kinds), "corr_results": dict(variants), "lossy_port_selected_by_probe": probe, "initial_layer_insertion_probed": probe_init,
        "distribution": dict(sorted(dist.items())),
        "highlight_doc_bytes": {"min": sizes[0] if sizes else 0, "median": sizes[len(sizes) // 2] if sizes else 0, "max": sizes[-1] if sizes else 0},
        "judge_failures_by_clause_and_cause": dict(causes),
        "correspondence": {"compared": evals + kinds["L"], "equal": evals + kinds["L"] - corr_bad},
        "correspondence_merge_multi": {"compared": multi["compared"], "equal": multi["equal"]},
        "correspondence_c_api": {"compared": multi["capi_compared"], "equal": multi["capi_equal"],
                                 "how": "html + line offsets from ts_highlight_buffer_* vs the model renderer fed with the Rust API's events"},
        "well_nested_premise_on_real_multi_layer_cases": {
            "multi_layer_cases": multi["wn_multi"],
            "dynNice_holds(full premise of merge_well_nested_dynamic_partial / _run_partial: proved, layers created during the run included)": multi["wn_dyn"],
            "sub_premise_fails": {"defsNiceD": multi["wn_fail_defsniced"], "refsUp": multi["wn_fail_refsup"], "closureNodup": multi["wn_fail_closure"],
                                  "crossNice": multi["wn_fail_crossnice"], "injTieOkP": multi["wn_fail_injtie"]},
            "crossNice_holds_but_dynNice_fails": multi["wn_cross_but_not_dyn"],
            "crossNice_fails:start_tie_wrong_orientation(real stream itself not well nested: judge skips)": multi["wn_lam_only"],
            "crossNice_fails:not_laminar": multi["wn_not_lam"],
            "static_layers(no injection created during the run)": multi["wn_static"],
            "staticNice_holds(premise of the static corollary merge_well_nested_partial)": multi["wn_premise"],
            "model_run_passes_stack_discipline(ghost run, with or without the premise)": multi["wn_ghost"]},
        "per_line_view(lines()/line_offsets)": dict(lines_stat), "cr_cr_behaviour_probed(1 = a CR after a pending CR styles the pending one)": probe_crcr,
        "correspondence_merge_full": {"compared": multi["full_compared"], "equal": multi["full_equal"]},
        "correspondence_merge_locals": {"compared": multi["locals_compared"], "equal": multi["locals_equal"]},
        "correspondence_intersect_ranges": {"compared": multi["ir_compared"], "equal": multi["ir_equal"], "of_which_against_the_real_private_function": multi["ir_real"],
                                            "how": "Lean intersectRanges vs the ranges the harness fed to the layers whose real event stream was then reproduced exactly"},
        "judge": {"evaluated": judge_eval, "passed": judge_eval - judge_bad},
        "impl_vs_judge_failures": judge_bad, "model_vs_impl_disagreements": corr_bad,
    })
    if evals == 0:
        ctx.oblige("run:driver-produced-results", False, out[-500:])
    # concrete failing inputs (judge) first, so that the first VIOLATION line carries a replayable input
    ctx.violations.sort(key=lambda v: 0 if v["found_input"] else 1)
    return ctx.finish()
