"""C15 — Generation is deterministic and table optimisation never changes results.

Determinism (implementation vs implementation): every grammar is generated in 4 fresh processes per
optimisation level (different environment, allocation history, cwd; ASLR and per-process hash
seeds differ anyway) and the bytes of parser.c / node-types.json are compared.
Optimisation: the OptLevel::empty() and OptLevel::MergeStates parsers of each grammar are compiled
and loaded; their tables are dumped through the runtime's own lookup functions; Lean computes a
simulation map (findSim) whose validity (simCheck) is the premise of the theorem sim_preserves
(every accepting run on the unoptimised table is an accepting run on the optimised table with the
same tree, for ALL token strings); both real parsers are run on every explored string."""
import hashlib
import json
import os
import subprocess
from checklib import sh, parse_kv_line


def run(ctx):
    ctx.extra_lean_dirs = ["C03"]
    ctx.trusted += [
        "harness/csrc/cunit_c03.c (table dump through the runtime's own ts_language_lookup/ts_language_table_entry) and the dump reader TsVerif/C03/Table.lean",
        "hand port TsVerif/C03/Driver.lean of the single-version path of ts_parser__advance/shift/reduce/accept (shared with C03; tied by correspondence with both real parsers on every explored token string)",
        "byte comparison of parser.c/node-types.json by 64-bit FNV hashes computed in the harness",
    ]
    ctx.assumptions += [
        "determinism and the direction 'optimised accepts => unoptimised accepts' are sampled (implementation vs implementation); the generator is not modelled",
        "GLR cells (several effective actions) stop the model driver: for those strings only the two real parsers are compared",
    ]
    ctx.regen()
    ctx.prove(["TsVerif.C15.Props"], "TsVerif/C15/Audit.lean")
    driver = ctx.build_driver("tsv-c15")
    explorer = ctx.cargo_bin("c15")
    cunit = ctx.cunit("cunit_c03")
    if not (explorer and cunit and os.path.exists(driver)):
        return ctx.finish()
    env = dict(ctx.env)
    env["TSV_CUNIT_C03"] = cunit
    ops = os.path.join(ctx.workdir, "ops.txt")
    if ctx.replay:
        rp = json.load(open(ctx.replay))
        spec = os.path.join(ctx.workdir, "spec.txt")
        open(spec, "w").write(rp["case"].get("spec", "") + "\n")
        rc, out = sh([explorer, ops, "--spec", spec], env=env, timeout=3000)
    else:
        rc, out = sh([explorer, ops], env=env, timeout=3000)
    ctx.log(out.strip().split("\n")[-1] if out.strip() else "explorer silent")
    if rc != 0:
        ctx.oblige("run:explorer", False, out[-800:])
        return ctx.finish()
    gsrc, gkind, case_spec = {}, {}, {}
    gid = None
    for line in open(ops):
        if line.startswith("pair "):
            _, gid, kind = line.split()
            gkind[gid] = kind
        elif line.startswith("src "):
            gsrc[gid] = line.split(" ", 1)[1].strip()
        elif line.startswith("case "):
            f = line.split()
            case_spec[f[1]] = (gid, f[7] if len(f) > 7 else "")
    try:
        # `exec` so that the timeout kills the driver itself, not only the shell
        rc, out = sh("exec %s < %s" % (driver, ops), timeout=900 if ctx.tier == "quick" else 3000)
    except subprocess.TimeoutExpired:
        ctx.oblige("run:model-driver-finished-in-time", False, "the Lean driver did not finish (checker blow-up on some case)")
        return ctx.finish()

    def spec_of(cid):
        g, s = case_spec.get(cid, (None, ""))
        return "%s %s" % (gsrc.get(g, "?"), s)

    pairs = {"total": 0, "sim_ok": 0, "det_ok": 0, "closed": 0, "merged_something": 0, "state_counts": []}
    evals = judge_bad = corr_cmp = corr_bad = 0
    drv = {}
    kinds = {}
    samples = []
    stats = {}
    viol = []
    fail_by_pair = {}
    for line in out.split("\n"):
        if not line.strip():
            continue
        ident, kv = parse_kv_line(line)
        if ident == "P":
            g = line.split()[1]
            head = line.split(" sim=", 1)
            kv = dict(p.split("=", 1) for p in head[0].split()[2:])
            sim = head[1] if len(head) > 1 else "?"
            pairs["total"] += 1
            kinds[kv["kind"]] = kinds.get(kv["kind"], 0) + 1
            pairs["state_counts"].append((int(kv["statesA"]), int(kv["statesB"])))
            if kv["statesA"] != kv["statesB"]:
                pairs["merged_something"] += 1
            if kv["closedA"] == "true" and kv["closedB"] == "true":
                pairs["closed"] += 1
            if kv.get("rsim") == "true":
                pairs["converse_map_exists"] = pairs.get("converse_map_exists", 0) + 1
            conv = kv.get("conv", "na")
            merged = kv["statesA"] != kv["statesB"]
            if conv == "true":
                pairs["converse_validated_through_grammar"] = pairs.get("converse_validated_through_grammar", 0) + 1
                if merged:
                    pairs["converse_validated_and_merged"] = pairs.get("converse_validated_and_merged", 0) + 1
            if conv == "true" or kv.get("rsim") == "true":
                pairs["both_directions_proved"] = pairs.get("both_directions_proved", 0) + 1
            # LR(1) by construction (lalr family), or accepted by the generator without any precedence and with
            # one action per cell: the unoptimised table must be complete for the grammar once it is covered
            if sim == "ok" and ((kv["kind"] == "lalr" and conv != "true" and not conv.startswith("na")) or
                                (kv["kind"] == "cfg" and conv == "false:completeOK(A)" and kv.get("prec") == "false" and kv.get("multi") == "0")):
                viol.append((0, "judge", "the converse direction (optimised accepts => unoptimised accepts) of pair %s cannot be validated through the grammar although the grammar is LR(1) conflict-free: %s" % (g, conv),
                             {"case": g, "spec": gsrc.get(g, "?"), "result": kv}, {"clause": "converse-not-validated", "kind": kv["kind"], "why": conv}, True))
            if kv["det"] == "ok":
                pairs["det_ok"] += 1
            else:
                viol.append((0, "judge", "generation of %s is not deterministic across processes (parser.c / node-types.json bytes differ)" % g,
                             {"case": g, "spec": gsrc.get(g, "?"), "result": kv}, {"clause": "nondeterministic", "kind": kv["kind"]}, True))
            if sim == "ok":
                pairs["sim_ok"] += 1
            else:
                viol.append((0, "judge", "no simulation from the unoptimised to the optimised table of %s: %s" % (g, sim),
                             {"case": g, "spec": gsrc.get(g, "?"), "result": {"sim": sim, **kv}},
                             {"clause": "no-simulation", "kind": kv["kind"]}, True))
            if len(samples) < 4 and kv["statesA"] != kv["statesB"] and pairs["total"] % 9 == 1:
                samples.append({"pair": g, "src": gsrc.get(g, "")[:200], "result": kv})
            continue
        if ident == "S":
            stats = dict(p.split("=", 1) for p in line.split()[1:])
            continue
        if "judge" not in kv:
            continue
        cid = ident
        evals += 1
        d = kv.get("drvA", "?").split(":")[0] + "/" + kv.get("drvB", "?").split(":")[0]
        drv[d] = drv.get(d, 0) + 1
        if kv["corr"] != "skip":
            corr_cmp += 1
        if kv["judge"] != "ok":
            judge_bad += 1
            sp = spec_of(cid)
            fail_by_pair[sp.split(" ")[0]] = fail_by_pair.get(sp.split(" ")[0], 0) + 1
            viol.append((len(sp), "judge", "optimised and unoptimised parser disagree: " + kv["judge"],
                         {"case": cid, "spec": sp, "result": kv}, {"clause": kv["judge"][5:25]}, True))
        elif kv["corr"] not in ("ok", "skip"):
            corr_bad += 1
            viol.append((len(spec_of(cid)), "corr", "model driver vs real parsers / theorem instance: " + kv["corr"],
                         {"case": cid, "spec": spec_of(cid), "result": kv,
                          "correspondence": "TsVerif.C03.run on both dumped tables vs both real parsers"},
                         {"corr": kv["corr"][:30]}, False))
    for _, kind, what, payload, fp, found in sorted(viol, key=lambda v: v[0]):
        ctx.violation(kind, what, payload, fingerprint=fp, found_input=found)
    ctx.oblige("corr:Model.Driver=both-real-parsers", corr_bad == 0, "%d disagreements" % corr_bad)
    ctx.oblige("premise:findSim-succeeds-on-every-pair", pairs["sim_ok"] == pairs["total"], "%d/%d" % (pairs["sim_ok"], pairs["total"]))
    sc = pairs.pop("state_counts")
    nontrivial = set(hashlib.sha1(("%s" % (p,)).encode()).hexdigest() for p in sc if p[0] != p[1])
    ctx.coverage.update({
        "evaluations": evals + pairs["total"],
        "distinct_nontrivial": pairs["merged_something"],
        "rule": "one evaluation = one grammar pair (4 processes x 2 optimisation levels generated, both tables dumped, findSim evaluated) or one string parsed by both real parsers; "
                "non-trivial := a pair whose two tables differ in state count (merging did something); strings: every token string up to the per-grammar bound, "
                "random derivations up to 1000 tokens and mutations for token-level grammars, grammar-directed documents and byte mutations for zoo grammars",
        "samples": samples,
        "pairs": pairs, "pairs_by_kind": kinds, "generator": stats,
        "largest_pairs_statesA_statesB": sorted(sc)[-5:],
        "distinct_state_count_pairs": len(nontrivial),
        "strings": evals, "model_driver_outcomes_A/B": drv,
        "correspondence": {"compared": corr_cmp, "equal": corr_cmp - corr_bad},
        "judge": {"evaluated": evals + 2 * pairs["total"], "passed": evals + 2 * pairs["total"] - judge_bad - (pairs["total"] - pairs["sim_ok"]) - (pairs["total"] - pairs["det_ok"])},
        "string_failures_by_pair": dict(sorted(fail_by_pair.items())[:40]),
        "impl_vs_judge_failures": judge_bad + (pairs["total"] - pairs["sim_ok"]) + (pairs["total"] - pairs["det_ok"]),
        "model_vs_impl_disagreements": corr_bad,
    })
    if pairs["total"] == 0:
        ctx.oblige("run:driver-produced-results", False, out[-500:])
    return ctx.finish()
