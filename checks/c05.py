"""C05 — Query results are exactly the matches the pattern semantics define.

Proof: TsVerif/C05/Props.lean — the executable enumeration matchAll equals the declarative
semantics Sat* (sound, complete, duplicate-free) for the modelled fragment.
Tie/judge: generated queries are compiled by the real Query::new and run by the real QueryCursor on
real trees; the Lean driver parses the same query text, runs matchAll on the dumped visible tree and
compares (pattern, captures) multisets: implementation ⊆ model always, = for quantifier-free queries;
compile verdicts are judged against the model as well."""
import hashlib
import json
import os
import re
from checklib import sh, parse_kv_line


def run(ctx):
    ctx.trusted += [
        "spec-level model TsVerif/C05/Model.lean (that Sat* captures the documented pattern semantics; choices where the docs are silent are listed in Props.lean)",
        "query-text parser TsVerif/C05/Parse.lean for the generated subset (unsupported constructs are skipped and counted)",
        "harness/src/bin/c05.rs: visible-tree dump through a TreeCursor walk (kind, named, field, missing/error/extra) and match recording through QueryCursor::matches",
        "the query compiler, step automaton and analysis of query.c are not modelled: they are compared with the model on every generated case",
    ]
    ctx.assumptions += ["match limit unbounded; queries from the generated subset (no top-level groups, no predicates)"]
    ctx.regen()
    ctx.prove(["TsVerif.C05.Props", "TsVerif.C05.VerifyProps", "TsVerif.C05.GroupProps", "TsVerif.C05.JudgeProps"], "TsVerif/C05/Audit.lean")
    driver = ctx.build_driver("tsv-c05")
    explorer = ctx.cargo_bin("c05")
    if not (explorer and os.path.exists(driver)):
        return ctx.finish()
    ops = os.path.join(ctx.workdir, "ops.txt")
    if ctx.replay:
        rp = json.load(open(ctx.replay))
        spec = os.path.join(ctx.workdir, "spec.txt")
        open(spec, "w").write(rp["case"].get("spec", "") + "\n")
        rc, out = sh([explorer, ops, "--spec", spec], env=ctx.env, timeout=3000)
    else:
        rc, out = sh([explorer, ops], env=ctx.env, timeout=3000)
    exp_summary = out.strip().split("\n")[-1] if out.strip() else "explorer silent"
    ctx.log(exp_summary)
    if rc != 0:
        ctx.oblige("run:explorer", False, out[-800:])
        return ctx.finish()
    specs = {}
    for line in open(ops):
        if line.startswith("spec "):
            _, cid, rest = line.rstrip("\n").split(" ", 2)
            specs[cid] = rest
    rc, out = sh("%s < %s" % (driver, ops), timeout=3000)
    evals = skipped = judge_bad = capq_cmp = capq_bad = ver_cmp = ver_bad = 0
    distinct = set()
    samples = []
    kinds = {}
    dist = {"qfree": 0, "quantified": 0, "compiled": 0, "rejected": 0, "with_match": 0, "error_trees": 0, "skip_unsupported": 0, "skip_toolarge": 0,
            "equal_compared": 0, "subset_compared": 0}
    for line in out.split("\n"):
        if not line.strip():
            continue
        cid, kv = parse_kv_line(line)
        if "judge" not in kv:
            continue
        if kv["judge"].startswith("SKIP"):
            skipped += 1
            dist["skip_" + kv["judge"].split()[1]] = dist.get("skip_" + kv["judge"].split()[1], 0) + 1
            continue
        evals += 1
        qfree = kv.get("qfree") == "true"
        dist["qfree" if qfree else "quantified"] += 1
        compiled = kv.get("compiled") == "true"
        dist["compiled" if compiled else "rejected"] += 1
        if kv.get("haserror") == "true":
            dist["error_trees"] += 1
        nimpl = int(kv.get("nimpl", "0") or 0)
        if compiled:
            dist["equal_compared" if qfree else "subset_compared"] += 1
        if nimpl >= 1:
            dist["with_match"] += 1
        spec = specs.get(cid, cid)
        qhex = spec.split(" ")[-1]
        try:
            qtext = bytes.fromhex(qhex).decode("utf8", "replace")
        except ValueError:
            qtext = ""
        steps = len(re.findall(r"\(|\"[^\"]*\"|\b_\b", qtext))
        if steps >= 2 and nimpl >= 1:
            skeleton = re.sub(r"@\w+", "@", qtext)
            distinct.add(hashlib.sha1((skeleton + spec.split(" ")[1]).encode()).hexdigest())
        if len(samples) < 6 and evals % 211 == 1:
            samples.append({"case": cid, "query": qtext[:200], "result": kv})
        if kv.get("capq", "ok") != "ok" and compiled:
            capq_bad += 1
            ctx.violation("corr", "capQItem (generated quantifier tables applied to the pattern) differs from Query::capture_quantifiers: " + kv["capq"][:200],
                          {"case": cid, "spec": spec, "query": qtext, "result": kv,
                           "correspondence": "TsVerif.C05.capQItem vs ts_query_capture_quantifier_for_id"},
                          fingerprint={"corr": "capq"}, found_input=False)
        if compiled:
            capq_cmp += 1
        if "verif" in kv:
            ver_cmp += 1
            if kv["verif"] != "agree":
                ver_bad += 1
                ctx.violation("corr", "the Sat-verifier (Verify.lean) and the enumeration matchAll disagree about a real match",
                              {"case": cid, "spec": spec, "query": qtext, "result": kv,
                               "correspondence": "TsVerif.C05.verifyAnywhere vs membership in TsVerif.C05.matchAll"},
                              fingerprint={"corr": "verifier"}, found_input=False)
        if kv.get("verified") == "true":
            dist["wide_quantified_cases_verified"] = dist.get("wide_quantified_cases_verified", 0) + 1
        if kv.get("qempty") == "true":
            dist["quantified_pattern_with_model_matches_but_no_real_match"] = dist.get("quantified_pattern_with_model_matches_but_no_real_match", 0) + 1
        if kv["judge"] == "ok" or kv["judge"].startswith("ok "):
            continue
        judge_bad += 1
        kind = kv["judge"].split()[1] if len(kv["judge"].split()) > 1 else "?"
        kinds[kind] = kinds.get(kind, 0) + 1
        lang = cid.rsplit("-", 1)[0]
        ctx.violation("judge", "C05 %s: query %r — %s" % (kind, qtext[:160], kv["judge"][:200]),
                      {"case": cid, "spec": spec, "query": qtext, "result": kv},
                      fingerprint={"kind": kind, "optional": kv.get("optional", "-"), "extras": kv.get("extras", "-"), "super": kv.get("super", "-"), "lang": lang})
    ctx.oblige("corr:verifyAnywhere=membership-in-matchAll(on the real matches)", ver_bad == 0, "%d of %d cases differ" % (ver_bad, ver_cmp))
    ctx.oblige("corr:capQItem=ts_query_capture_quantifier_for_id", capq_bad == 0, "%d of %d differ" % (capq_bad, capq_cmp))
    ctx.coverage.update({
        "evaluations": evals, "distinct_nontrivial": len(distinct),
        "rule": "one evaluation = one (language, tree, query): the real compile verdict and the real match stream compared with the "
                "Lean model's matchAll on the dumped visible tree; trees: grammar-directed documents, every 3rd byte-mutated (ERROR/MISSING), "
                "every 3rd edited and re-parsed incrementally; queries derived from nodes of the tree with kind perturbation "
                "(1-2 patterns, depth <= 2, width <= 3, fields, negated fields, anchors, wildcards, alternations, MISSING/ERROR, 40% with quantifiers); "
                "non-trivial := query has >= 2 steps and >= 1 match; distinct by hash of (query skeleton with capture names erased, document)",
        "samples": samples, "distribution": dist, "failure_kinds": kinds, "skipped": skipped,
        "explorer_summary": exp_summary,
        "correspondence": {"compared": evals + capq_cmp, "equal": evals - judge_bad + capq_cmp - capq_bad, "capture_quantifier_tables": {"compared": capq_cmp, "equal": capq_cmp - capq_bad}},
        "judge": {"evaluated": evals, "passed": evals - judge_bad},
        "impl_vs_judge_failures": judge_bad, "model_vs_impl_disagreements": capq_bad,
    })
    ctx.notes.append("spec-level property: the model IS the semantics, so a model/implementation difference is an implementation-vs-judge failure; "
                     "model repairs made while building are listed in notes/C05.md")
    if evals == 0:
        ctx.oblige("run:driver-produced-results", False, out[-500:])
    return ctx.finish()
