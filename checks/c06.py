"""C06 — Node and cursor navigation agree with the tree's structure.

Proof: TsVerif/C06/Props.lean over `flatten` (the ordered tree of visible nodes), the ports of
node.c child iteration and of tree_cursor.c (Cursor.lean).
Tie: T-data (full internal dumps + language tables), T-corr (every cursor answer of the real API =
the port run on the dump).  Judge: EVERY answer of every navigation function for every node of
every explored tree = the list operation on `flatten` computed in Lean from the dump alone."""
import hashlib
import json
import os
import re
from checklib import sh, parse_kv_line

FEATURES = ["hiddenvis", "alias", "extra", "zerowidth"]

# label of a failing clause -> defects involved (each is a separate known-finding fingerprint)
QUIRK_DEFECT = {"int8": "cursor-prev-int8", "descidx": "cursor-prev-descidx", "structidx": "cursor-prev-structidx"}


def defects_of(label):
    op, _, rest = label.partition(":")
    if rest.startswith("quirk-"):
        return [QUIRK_DEFECT.get(q, "cursor-prev-" + q) for q in rest[len("quirk-"):].split("+")]
    if rest == "zero-width-sibling-skipped":
        return ["next-sibling-zero-width"]
    if rest == "zero-width":
        return ["descendant-range-zero-width"]
    if rest == "fallback-lost":
        return ["first-child-for-byte-fallback"]
    if rest == "zero-width-self":
        return ["prev-sibling-zero-width"]
    if rest == "dead-end-descent":
        return ["cursor-first-child-for-byte-dead-end"]
    if rest == "hidden-missing-printed":
        return ["sexp-hidden-missing"]
    if rest == "error-parent-has-no-field-map":
        return ["child-by-field-error-parent"]
    if rest == "inherited-entry-on-visible-child":
        return ["child-by-field-enters-visible-child"]
    return [label]


def split_result(line):
    m = re.match(r"(\S+) corr=(.*?) judge=(.*?) asked=(\d+) (.*)$", line)
    if not m:
        return None
    _, kv = parse_kv_line("x asked=%s %s" % (m.group(4), m.group(5)))
    return m.group(1), m.group(2), m.group(3), kv


def clauses(verdict):
    if verdict == "ok":
        return []
    m = re.match(r"FAIL (\S+)", verdict)
    return m.group(1).split("|") if m else ["unparsed"]


def detail(verdict, clause):
    for part in verdict.split(" :: ", 1)[-1].split(" ; "):
        if part.startswith(clause + ":"):
            return part[:600]
    return verdict[:300]


def run(ctx):
    ctx.trusted += [
        "hand ports TsVerif/C06/Cursor.lean (tree_cursor.c) and TsVerif/C02/Model.lean (child enumeration of node.c), tied by comparing every "
        "cursor answer of the real API with the port run on the dump of the same tree",
        "node identity: TSNode.id is recomputed from the dump as parent heap address - 8*(child_count - i) (layout of ts_subtree_children)",
        "language tables dumped by harness/csrc/cunit_c02.c through the runtime's own accessors",
        "the reading of 'the single ordered tree obtained by a depth-first walk' = TsVerif.C06.flatten (visible or aliased nodes, hidden nodes "
        "replaced by their children, fields through hidden ancestors, extras without fields)",
    ]
    ctx.assumptions += ["byte/row/column quantities < 2^32", "theorems assume Summarized/shapeOK of C02 (checked on every real tree by ./check C02)"]
    ctx.extra_lean_dirs = ["C02"]
    ctx.regen()
    ctx.prove(["TsVerif.C06.Props", "TsVerif.C06.CursorProps", "TsVerif.C06.NodeProps", "TsVerif.C06.SiblingZw", "TsVerif.C06.NavVariants", "TsVerif.C06.FlatProps", "TsVerif.C06.FieldProps", "TsVerif.C06.SiblingNamed", "TsVerif.C06.SiblingNamedNext", "TsVerif.C06.NamedFcb", "TsVerif.C06.CursorFcb", "TsVerif.C06.FieldWitness", "TsVerif.C06.CursorParent", "TsVerif.C06.CursorFcbFlat", "TsVerif.C06.FieldNamed", "TsVerif.C06.RangeFlat", "TsVerif.C06.RangeFlatP", "TsVerif.C06.EmptyRange", "TsVerif.C06.Round11"], "TsVerif/C06/Audit.lean")
    driver = ctx.build_driver("tsv-c06")
    explorer = ctx.cargo_bin("c06")
    langdump = ctx.cunit("cunit_c02")
    if not (explorer and langdump and os.path.exists(driver)):
        return ctx.finish()
    ops = os.path.join(ctx.workdir, "ops.txt")
    cmd = [explorer, ops, "--langdump", langdump]
    if ctx.replay:
        rp = json.load(open(ctx.replay))
        spec = os.path.join(ctx.workdir, "spec.txt")
        open(spec, "w").write(rp["case"].get("spec", "") + "\n")
        cmd += ["--spec", spec]
    rc, out = sh(cmd, env=ctx.env, timeout=3000)
    last = out.strip().split("\n")[-1] if out.strip() else "explorer silent"
    ctx.log(last)
    if rc != 0:
        m = re.search(r"PARSE-TIMEOUT after (\d+)s spec=(.*)", out)
        if m:
            spec = m.group(2).strip()
            ctx.violation("judge", "termination: a parse did not return within %s s of wall-clock time (no progress callback reached): %s" % (m.group(1), spec[:200]),
                          {"spec": spec, "clause": "termination:timeout"},
                          fingerprint={"lang": spec.split(" ")[0], "clause": "termination:timeout"})
        ctx.oblige("run:explorer", False, out[-800:])
        return ctx.finish()
    specs = {}
    for line in open(ops, errors="replace"):
        if line.startswith("spec "):
            _, cid, rest = line.rstrip("\n").split(" ", 2)
            specs[cid] = rest
    rc, out = sh("%s < %s" % (driver, ops), timeout=3000)
    evals = 0
    distinct = set()
    samples = []
    kinds = {}
    feat = {k: 0 for k in FEATURES + ["fields", "err", "missing", "multiline", "wide(>255 raw children)"]}
    totals = {"asked": 0, "ported": 0, "vis": 0, "raw": 0}
    corr_bad = judge_bad = 0
    sexp_hyp_bad = 0
    anon_hyp_bad = 0
    stack_bad = 0
    hidden_extra_bad = 0
    hidden_missing_trees = 0
    unsorted_langs = set()
    cwidths = {"measured": 0, "assumed": 0, "ok": False, "detail": "probe did not run"}
    skip_langs = set()
    par = {"parchk": 0, "parzw": 0, "parbad": 0, "parflat": 0, "nschk": 0, "nsout": 0, "nsbad": 0, "nsflat": 0,
           "pschk": 0, "psout": 0, "psbad": 0, "psflat": 0, "cfcchk": 0, "cfcout": 0, "cfcbad": 0, "cfcflat": 0, "nnschk": 0, "nnsout": 0, "nnsbad": 0, "nnsflat": 0, "npschk": 0, "npsout": 0, "npsbad": 0, "npsflat": 0, "cparchk": 0, "cparbad": 0, "edfrchk": 0, "edfrout": 0, "edfrbad": 0, "edfrslack": 0, "cbfchk": 0, "cbfout": 0, "cbfbad": 0, "cbfflat": 0, "cbfskip": 0, "nfcbchk": 0, "nfcbout": 0, "nfcbbad": 0, "nfcbflat": 0, "ndfrchk": 0, "ndfrbad": 0, "ndfrflat": 0, "pdfrchk": 0, "pdfrbad": 0, "pdfrflat": 0, "znschk": 0, "znsout": 0, "znsbad": 0, "zpschk": 0, "zpsout": 0, "zpsbad": 0, "pgenbad": 0, "znsoutpar": 0, "znsoutfollow": 0, "znsoutzw": 0, "zpsoutpar": 0, "zpsoutid": 0, "zpsoutzw": 0, "fcbchk": 0, "fcbout": 0, "fcbbad": 0, "fcbflat": 0, "dfrchk": 0, "dfrbad": 0, "dfrflat": 0}
    ns_bad_cases = []
    par_bad_cases = []
    per_clause = {}
    max_fanout = 0
    for line in out.split("\n"):
        if not line.strip():
            continue
        r = split_result(line)
        if r is None:
            continue
        cid, corr, judge, kv = r
        if kv.get("cwidthcase") == "1":
            cwidths.update({"measured": int(kv.get("measured", "0") or 0), "assumed": int(kv.get("assumed", "0") or 0), "ok": corr == "ok",
                            "detail": detail(corr, "tie:cursor-index-widths") if corr != "ok" else "all answers beyond index 65535 are those of a flat node"})
            if corr != "ok":
                ctx.violation("tie", "the real cursor / node functions lose track of children beyond index 65535 of a flat node of 70000 leaves (an index field narrower than the Nat-valued ports assume): %s" % cwidths["detail"][:500],
                              {"case": cid, "clause": "tie:cursor-index-widths", "verdict": corr[:1200],
                               "correspondence": "TsVerif.C06.wideProbeExpected vs the real cursor / node functions on a flat node of 70000 leaves (tsv-cunit_c02 cwidths)"},
                              fingerprint={"lang": "-", "clause": "tie:cursor-index-widths", "defect": "tie:cursor-index-widths"}, found_input=False)
            continue
        evals += 1
        lang = cid.rsplit("-", 1)[0]
        spec = specs.get(cid, "")
        kinds[kv.get("kind", "?")] = kinds.get(kv.get("kind", "?"), 0) + 1
        for k in totals:
            totals[k] += int(kv.get(k, "0") or 0)
        if kv.get("sexpok", "1") != "1":
            sexp_hyp_bad += 1
        if kv.get("anonleafok", "1") != "1":
            anon_hyp_bad += 1
        stack_bad += int(kv.get("stackbad", "0") or 0)
        if kv.get("hiddenextraok", "1") != "1":
            hidden_extra_bad += 1
        if kv.get("fmsorted", "1") != "1":
            unsorted_langs.add(lang)
        if kv.get("hiddenmissing", "0") == "1":
            hidden_missing_trees += 1
        for k in par:
            par[k] += int(kv.get(k, "0") or 0)
        if int(kv.get("cbfskip", "0") or 0) > 0:
            skip_langs.add(lang)
        if (int(kv.get("parbad", "0") or 0) or int(kv.get("parflat", "0") or 0)) and len(par_bad_cases) < 3:
            par_bad_cases.append("%s: %s" % (cid, specs.get(cid, "")[:120]))
        if (int(kv.get("nsbad", "0") or 0) or int(kv.get("nsflat", "0") or 0) or int(kv.get("psbad", "0") or 0)
                or int(kv.get("psflat", "0") or 0) or int(kv.get("fcbbad", "0") or 0) or int(kv.get("fcbflat", "0") or 0)
                or int(kv.get("dfrbad", "0") or 0) or int(kv.get("dfrflat", "0") or 0) or int(kv.get("znsbad", "0") or 0)
                or int(kv.get("zpsbad", "0") or 0) or int(kv.get("pgenbad", "0") or 0)
                or any(int(kv.get(k, "0") or 0) for k in ["edfrbad", "cparbad", "cfcbad", "cfcflat", "nnsbad", "nnsflat", "npsbad", "npsflat", "cbfbad", "cbfflat", "nfcbbad", "nfcbflat", "ndfrbad", "ndfrflat", "pdfrbad", "pdfrflat"])) and len(ns_bad_cases) < 3:
            ns_bad_cases.append("%s: %s" % (cid, specs.get(cid, "")[:120]))
        fan = int(kv.get("fanout", "0") or 0)
        max_fanout = max(max_fanout, fan)
        nontrivial = False
        for k in FEATURES:
            if int(kv.get(k, "0") or 0) > 0:
                feat[k] += 1
                nontrivial = True
        for k in ["fields", "err", "missing", "multiline"]:
            if int(kv.get(k, "0") or 0) > 0:
                feat[k] += 1
        if fan > 255:
            feat["wide(>255 raw children)"] += 1
        if nontrivial:
            distinct.add(hashlib.sha1(spec.encode()).hexdigest())
        if len(samples) < 6 and evals % 157 == 1:
            samples.append({"case": cid, "spec": spec[:160], "verdict": {"corr": corr[:80], "judge": judge[:160]}, "stats": kv})
        if judge != "ok":
            judge_bad += 1
            for cl in clauses(judge):
                per_clause[cl] = per_clause.get(cl, 0) + 1
                for d in defects_of(cl):
                    key = "seen:" + d
                    per_clause[key] = per_clause.get(key, 0) + 1
                    if per_clause[key] <= 3 or d != cl:
                        ctx.violation("judge", "C06: API answer differs from the ordered tree (%s, %s): %s" % (cl, lang, detail(judge, cl)),
                                      {"case": cid, "spec": spec, "clause": cl, "defect": d, "verdict": judge[:1500], "stats": kv},
                                      fingerprint={"lang": lang, "clause": cl, "defect": d})
        if corr != "ok":
            corr_bad += 1
            for cl in clauses(corr):
                per_clause[cl] = per_clause.get(cl, 0) + 1
                if per_clause[cl] <= 3:
                    ctx.violation("corr", "a port (node.c / tree_cursor.c / S-expression writer) and the real API disagree (%s): %s" % (cl, detail(corr, cl)),
                                  {"case": cid, "spec": spec, "clause": cl, "verdict": corr[:1500],
                                   "correspondence": "TsVerif.C06.{Cursor,NodePort,NodeNav,Sexp} vs lib/src/{tree_cursor.c,node.c,subtree.c}"},
                                  fingerprint={"lang": lang, "clause": cl, "defect": cl}, found_input=False)
    ctx.oblige("corr:ports=node.c+tree_cursor.c+sexp-writer", corr_bad == 0, "%d trees with disagreements" % corr_bad)
    if not ctx.replay:
        ctx.oblige("tie:cursor-and-iterator-indices-beyond-16-bits(behavioural: a flat node of 70000 one-byte leaves built with the real constructors; goto_last_child, "
                   "goto_previous_sibling, a full goto_next_sibling walk, goto_descendant(65537), goto_first_child_for_byte(66000), ts_node_child(65536 / last), next / prev sibling, "
                   "first_child_for_byte, descendant_for_byte_range answer as the arithmetic of such a node; all-ones entry read back through ts_tree_cursor_current_descendant_index)",
                   cwidths["ok"] and cwidths["measured"] >= cwidths["assumed"] > 0,
                   "%d fields measured, %d assumed: %s" % (cwidths["measured"], cwidths["assumed"], cwidths["detail"][:300]))
    ctx.coverage["cursor_index_field_widths"] = cwidths
    ctx.oblige("corr:sexpOK-holds-on-real-trees(hypothesis of sexp_spec; trees with a hidden MISSING node are outside the theorem and "
               "reported by the judge)", sexp_hyp_bad == 0, "%d trees" % sexp_hyp_bad)
    ctx.oblige("corr:anonLeafOK-holds-on-real-trees(hypothesis of named_child_spec)", anon_hyp_bad == 0, "%d trees" % anon_hyp_bad)
    ctx.oblige("corr:StackOK-linkage+IdxOK+TopVisible-hold-on-every-cursor-stack(hypotheses of cursor_next_sibling_spec, cursor_parent_is_parentOnPath, depth_parent)", stack_bad == 0, "%d stacks" % stack_bad)
    ctx.oblige("corr:hiddenExtraOK-holds-on-real-trees(hypothesis of field_name_for_child_spec)", hidden_extra_bad == 0, "%d trees" % hidden_extra_bad)
    ctx.oblige("corr:parent_spec-hypotheses-hold-on-every-relevant-node-of-real-trees(non-empty: pathOK, slot ids distinct along the search; empty: psPathOK of parent_spec_empty; "
               "and ported ts_node_parent = parentOnPath)", par["parbad"] == 0 and (par["parchk"] > 0 or evals == 0 or bool(ctx.replay)),
               "%d nodes checked, %d of them zero-width (parent_spec_empty), %d bad %s" % (par["parchk"], par["parzw"], par["parbad"], "; ".join(par_bad_cases)))
    ctx.oblige("corr:parentOnPath=parent-in-the-flattened-tree(on every node checked)", par["parflat"] == 0, "%d differ %s" % (par["parflat"], "; ".join(par_bad_cases)))
    ctx.oblige("corr:next_sibling_spec-conclusion-holds-wherever-its-hypotheses-hold(non-empty node, nsPathOK: no zero-width raw node follows "
               "within the parent; nodes failing the hypothesis are counted as outside the theorem)", par["nsbad"] == 0 and (par["nschk"] > 0 or evals == 0 or bool(ctx.replay)),
               "%d nodes checked, %d outside, %d bad %s" % (par["nschk"], par["nsout"], par["nsbad"], "; ".join(ns_bad_cases)))
    ctx.oblige("corr:head(laterOnPath)=next-sibling-in-the-flattened-tree(on every node checked)", par["nsflat"] == 0,
               "%d differ %s" % (par["nsflat"], "; ".join(ns_bad_cases)))
    ctx.oblige("corr:prev_sibling_spec-conclusion-holds-wherever-its-hypotheses-hold(non-empty node, psPathOK: the node's slot id occurs nowhere "
               "among or inside its earlier siblings)", par["psbad"] == 0 and (par["pschk"] > 0 or evals == 0 or bool(ctx.replay)),
               "%d nodes checked, %d outside, %d bad %s" % (par["pschk"], par["psout"], par["psbad"], "; ".join(ns_bad_cases)))
    ctx.oblige("corr:last(earlierOnPath)=previous-sibling-in-the-flattened-tree(on every node checked)", par["psflat"] == 0,
               "%d differ %s" % (par["psflat"], "; ".join(ns_bad_cases)))
    ctx.oblige("corr:next_sibling_spec_empty-conclusion-holds-wherever-its-hypotheses-hold(ZERO-WIDTH relevant nodes: psPathOK for the parent, nsPathOK, "
               "nsZwOK; nodes failing a hypothesis are counted as outside the theorem)", par["znsbad"] == 0 and (par["znschk"] > 0 or evals == 0 or bool(ctx.replay)),
               "%d zero-width nodes checked, %d outside, %d bad %s" % (par["znschk"], par["znsout"], par["znsbad"], "; ".join(ns_bad_cases)))
    ctx.oblige("corr:prev_sibling_spec_general-conclusion-holds-wherever-its-hypotheses-hold(ZERO-WIDTH relevant nodes: psPathOK, psZwOK = the scan passes "
               "everything before the node and stops at every ancestor, i.e. has_trailing_empty_descendant answers as intended)",
               par["zpsbad"] == 0 and (par["zpschk"] > 0 or evals == 0 or bool(ctx.replay)),
               "%d zero-width nodes checked, %d outside, %d bad %s" % (par["zpschk"], par["zpsout"], par["zpsbad"], "; ".join(ns_bad_cases)))
    ctx.oblige("corr:psZwOK-holds-for-every-non-empty-node(the position hypothesis of prev_sibling_spec_general is only a restriction for zero-width nodes)",
               par["pgenbad"] == 0, "%d non-empty nodes with psPathOK but not psZwOK %s" % (par["pgenbad"], "; ".join(ns_bad_cases)))
    ctx.coverage["zero_width_sibling_specs"] = {"next_checked": par["znschk"], "next_outside_the_theorem": par["znsout"], "next_conclusion_failures": par["znsbad"],
                                                "prev_checked": par["zpschk"], "prev_outside_the_theorem": par["zpsout"], "prev_conclusion_failures": par["zpsbad"],
                                                "non_empty_nodes_violating_psZwOK": par["pgenbad"],
                                                "next_outside_because": {"parent/id hypotheses": par["znsoutpar"], "nsPathOK (zero-width raw node follows at the same byte)": par["znsoutfollow"],
                                                                         "nsZwOK (ancestor starting at the node, nothing visible after the node inside it)": par["znsoutzw"]},
                                                "prev_outside_because": {"parent/id hypotheses": par["zpsoutpar"], "psPathOK (slot id / inline value repeated)": par["zpsoutid"],
                                                                         "psZwOK (has_trailing_empty_descendant answers otherwise)": par["zpsoutzw"]}}
    ctx.oblige("corr:first_child_for_byte_spec-conclusion-holds-wherever-ndeNode-holds(no dead-end descent; sampled goals at child boundaries)",
               par["fcbbad"] == 0 and (par["fcbchk"] > 0 or evals == 0 or bool(ctx.replay)),
               "%d (node, goal) pairs checked, %d outside, %d bad %s" % (par["fcbchk"], par["fcbout"], par["fcbbad"], "; ".join(ns_bad_cases)))
    ctx.oblige("corr:fcbNode=first-child-ending-after-the-goal-in-the-flattened-tree(on every pair checked)", par["fcbflat"] == 0,
               "%d differ %s" % (par["fcbflat"], "; ".join(ns_bad_cases)))
    ctx.oblige("corr:descendant_for_byte_range_spec-conclusion-on-non-empty-ranges(range of every non-empty node and its first byte, from the root)",
               par["dfrbad"] == 0 and (par["dfrchk"] > 0 or evals == 0 or bool(ctx.replay)), "%d ranges checked, %d bad %s" % (par["dfrchk"], par["dfrbad"], "; ".join(ns_bad_cases)))
    ctx.oblige("corr:dfrIdeal=smallest-spanning-node-of-the-flattened-tree(on every range checked)", par["dfrflat"] == 0,
               "%d differ %s" % (par["dfrflat"], "; ".join(ns_bad_cases)))
    ctx.oblige("corr:cursor_first_child_for_spec-conclusion-holds-wherever-ndeCur-holds(every goto_first_child_for_byte/point question: no dead-end descent; "
               "port = plain search cfcIdeal) and cfcIdeal=FT.cursorFirstChildFor(index and node)",
               par["cfcbad"] == 0 and par["cfcflat"] == 0 and (par["cfcchk"] > 0 or evals == 0 or bool(ctx.replay)),
               "%d (cursor, goal) pairs checked, %d outside (dead end: finding cursor-first-child-for-byte-dead-end), %d bad, %d differ from flatten %s"
               % (par["cfcchk"], par["cfcout"], par["cfcbad"], par["cfcflat"], "; ".join(ns_bad_cases)))
    ctx.oblige("corr:cursor_parent_is_parentOnPath+goto_parent_spec+depth_parent-conclusions-hold-on-every-positioned-cursor(hypotheses: linked stack with structural "
               "indices, top entry visible - counted in StackOK-linkage; conclusion: goto_parent shows the node parentOnPath designates for the stack's path (id, subtree, alias), "
               "depth decreases by one; on the root it fails)", par["cparbad"] == 0 and (par["cparchk"] > 0 or evals == 0 or bool(ctx.replay)),
               "%d cursors checked, %d conclusion failures %s" % (par["cparchk"], par["cparbad"], "; ".join(ns_bad_cases)))
    ctx.coverage["cursor_parent_spec"] = {"cursors_checked": par["cparchk"], "conclusion_failures": par["cparbad"]}
    ctx.oblige("corr:descendant_for_empty_byte_range_ft_spec-conclusion-holds-wherever-emptyOK-holds(EMPTY ranges [x,x] from the root, x = start / end of every node, both flags: "
               "port = dfrIdealE = FT.descendantForBytes; emptyOK: a hidden child the scan passes over hides no visible zero-width node at x, a hidden child it enters that offers nothing "
               "visible at x is not followed by a visible node the ordered search would enter; positions failing it are outside = finding descendant-range-zero-width)",
               par["edfrbad"] == 0 and (par["edfrchk"] > 0 or evals == 0 or bool(ctx.replay)),
               "%d (position, flag) pairs checked, %d positions outside (on %d of them the port nevertheless agrees with the ordered tree: slack of the hypothesis), %d bad %s"
               % (par["edfrchk"], par["edfrout"], par["edfrslack"], par["edfrbad"], "; ".join(ns_bad_cases)))
    ctx.coverage["empty_byte_range_spec"] = {"pairs_checked": par["edfrchk"], "positions_outside_the_theorem(emptyOK false)": par["edfrout"],
                                             "outside_but_port_agrees_with_the_ordered_tree(slack)": par["edfrslack"], "conclusion_failures": par["edfrbad"]}
    ctx.coverage["cursor_first_child_for_spec"] = {k: par[k] for k in ["cfcchk", "cfcout", "cfcbad", "cfcflat"]}
    ctx.oblige("corr:next_sibling_spec_anon-NAMED-flag(ts_node_next_named_sibling; every relevant node of any width with nsPathOK, for zero-width nodes nsZwOKA, tree satisfies anonLeafOK): "
               "port = first NAMED element of laterOnPath = FT.nextSibling namedOnly",
               par["nnsbad"] == 0 and par["nnsflat"] == 0 and (par["nnschk"] > 0 or evals == 0 or bool(ctx.replay)),
               "%d nodes checked, %d outside, %d bad, %d differ from flatten %s" % (par["nnschk"], par["nnsout"], par["nnsbad"], par["nnsflat"], "; ".join(ns_bad_cases)))
    ctx.coverage["next_named_sibling_spec"] = {k: par[k] for k in ["nnschk", "nnsout", "nnsbad", "nnsflat"]}
    ctx.oblige("corr:prev_sibling_spec_anon-NAMED-flag(ts_node_prev_named_sibling; every relevant node of any width with psPathOK + psZwOK, tree satisfies anonLeafOK): "
               "port = last NAMED element of earlierOnPath = FT.prevSibling namedOnly",
               par["npsbad"] == 0 and par["npsflat"] == 0 and (par["npschk"] > 0 or evals == 0 or bool(ctx.replay)),
               "%d nodes checked, %d outside, %d bad, %d differ from flatten %s" % (par["npschk"], par["npsout"], par["npsbad"], par["npsflat"], "; ".join(ns_bad_cases)))
    ctx.coverage["prev_named_sibling_spec"] = {k: par[k] for k in ["npschk", "npsout", "npsbad", "npsflat"]}
    ctx.oblige("corr:child_by_field_id_spec-conclusion-holds-wherever-cbfOK-holds(every entry x every field id of the language; cbfOK: entries of the field sorted by child index, "
               "inherited entries point at hidden children and are complete, a directly tagged hidden child does not begin with an extra) and cbfSpec=FT.childByField",
               par["cbfbad"] == 0 and par["cbfflat"] == 0 and (par["cbfchk"] > 0 or evals == 0 or bool(ctx.replay)),
               "%d (node, field) pairs checked, %d outside, %d bad, %d differ from flatten %s" % (par["cbfchk"], par["cbfout"], par["cbfbad"], par["cbfflat"], "; ".join(ns_bad_cases)))
    ctx.oblige("corr:fieldMapsSorted-holds-on-every-language-dump(language-level premise of child_by_field_id_spec: per production and field strictly increasing child indices)",
               not unsorted_langs, "languages with an unsorted field map: %s" % ", ".join(sorted(unsorted_langs)))
    ctx.coverage["child_by_field_id_spec"] = {"pairs_where_the_scan_passes_a_hidden_child_without_the_field_before_the_answer": par["cbfskip"],
                                              "languages_with_such_pairs": sorted(skip_langs), "pairs_checked": par["cbfchk"], "pairs_outside_the_theorem(cbfOK false)": par["cbfout"], "conclusion_failures": par["cbfbad"],
                                              "cbfSpec_vs_flatten_differences": par["cbfflat"], "languages_with_unsorted_field_map": sorted(unsorted_langs)}
    ctx.oblige("corr:first_child_for_byte_spec_anon-NAMED-variant-conclusion-holds-wherever-ndeNodeA-holds(same nodes and goals) and fcbNodeA=first-NAMED-child-ending-after-the-goal-in-the-flattened-tree",
               par["nfcbbad"] == 0 and par["nfcbflat"] == 0 and (par["nfcbchk"] > 0 or evals == 0 or bool(ctx.replay)),
               "%d (node, goal) pairs checked, %d outside, %d bad, %d differ from flatten %s" % (par["nfcbchk"], par["nfcbout"], par["nfcbbad"], par["nfcbflat"], "; ".join(ns_bad_cases)))
    ctx.oblige("corr:descendant_for_byte_range_spec_anon-NAMED-variant(range of every non-empty node, from the root: port = dfrIdealA = smallest NAMED spanning node of the flattened tree)",
               par["ndfrbad"] == 0 and par["ndfrflat"] == 0 and (par["ndfrchk"] > 0 or evals == 0 or bool(ctx.replay)),
               "%d ranges checked, %d bad, %d differ from flatten %s" % (par["ndfrchk"], par["ndfrbad"], par["ndfrflat"], "; ".join(ns_bad_cases)))
    ctx.oblige("corr:descendant_for_point_range_spec_partial(POINT range of every node with start < end in row/column order, both flags, from the root: port = dfrIdealP = FT.descendantForPoints)",
               par["pdfrbad"] == 0 and par["pdfrflat"] == 0 and (par["pdfrchk"] > 0 or evals == 0 or bool(ctx.replay)),
               "%d ranges checked, %d bad, %d differ from flatten %s" % (par["pdfrchk"], par["pdfrbad"], par["pdfrflat"], "; ".join(ns_bad_cases)))
    ctx.coverage["named_and_point_variants"] = {k: par[k] for k in ["nfcbchk", "nfcbout", "nfcbbad", "nfcbflat", "ndfrchk", "ndfrbad", "ndfrflat", "pdfrchk", "pdfrbad", "pdfrflat"]}
    ctx.coverage["descendant_for_byte_range_spec"] = {"ranges_checked": par["dfrchk"], "conclusion_failures": par["dfrbad"],
                                                      "dfrIdeal_vs_flatten_differences": par["dfrflat"]}
    ctx.coverage["first_child_for_byte_spec_hypotheses"] = {"pairs_checked": par["fcbchk"], "pairs_outside_the_theorem(dead-end descent)": par["fcbout"],
                                                            "conclusion_failures": par["fcbbad"], "fcbNode_vs_flatten_differences": par["fcbflat"]}
    ctx.coverage["prev_sibling_spec_hypotheses"] = {"nodes_checked": par["pschk"], "nodes_outside_the_theorem": par["psout"],
                                                    "conclusion_failures": par["psbad"], "earlierOnPath_vs_flatten_prev_sibling_differences": par["psflat"]}
    ctx.coverage["next_sibling_spec_hypotheses"] = {"nodes_checked": par["nschk"], "nodes_outside_the_theorem(zero-width raw node follows)": par["nsout"],
                                                    "conclusion_failures": par["nsbad"], "laterOnPath_vs_flatten_next_sibling_differences": par["nsflat"]}
    ctx.coverage["parent_spec_hypotheses"] = {"nodes_checked": par["parchk"], "zero_width_nodes_checked_with_parent_spec_empty": par["parzw"],
                                              "hypothesis_or_conclusion_failures": par["parbad"], "parentOnPath_vs_flatten_parent_differences": par["parflat"]}
    ctx.coverage["trees_with_hidden_missing_node"] = hidden_missing_trees
    ctx.coverage.update({
        "evaluations": evals, "distinct_nontrivial": len(distinct),
        "rule": "zoo languages x (grammar-directed sentences, byte-mutated sentences, multi-line variants, trees re-parsed after 1-3 edits) + corpus "
                "(>255 raw children, zero-width/MISSING/ERROR); one evaluation = one real tree for which EVERY node (sampled beyond 1500 nodes) is "
                "asked every navigation question (Node: parent, counts, child/named_child by index, field names, child_by_field_id, 4 sibling "
                "functions, first_(named_)child_for_byte at the node's and its children's boundaries +-1, (named_)descendant_for_byte/point_range, "
                "child_with_descendant, to_sexp; TreeCursor at that node via goto_descendant and rooted at it: first/last child, next/previous "
                "sibling, parent, first_child_for_byte/point, depth, descendant index, field id, full backwards walk); non-trivial := the tree has a "
                "hidden node with visible children, an alias, an extra or a zero-width node; distinct by hash of (language, text, edits)",
        "samples": samples, "kinds": kinds, "trees_with_feature": feat, "totals": totals, "max_raw_fanout": max_fanout,
        "explorer_summary": last,
        "correspondence": {"compared": totals["ported"], "equal": totals["ported"] - sum(v for k, v in per_clause.items() if k.startswith("corr:")),
                           "unit": "API answers compared with a code-shaped port run on the dump (all cursor functions, child/named_child, parent, siblings, child_with_descendant, fields, first_child_for_byte, descendant ranges, to_sexp)"},
        "judge": {"evaluated": evals, "passed": evals - judge_bad, "api_answers_judged": totals["asked"]},
        "failing_clauses": per_clause,
        "impl_vs_judge_failures": judge_bad, "model_vs_impl_disagreements": corr_bad,
    })
    if evals == 0:
        ctx.oblige("run:driver-produced-results", False, out[-500:])
    elif not ctx.replay:
        if len(distinct) * 4 < evals:
            ctx.oblige("generator:nontrivial-fraction>=25%", False, "%d of %d" % (len(distinct), evals))
        ctx.oblige("generator:has-node-with->255-raw-children", max_fanout > 255, "max fan-out %d" % max_fanout)
        # seed-independent by construction (corpus/c06.txt, grammar twofld); the random twofld documents add more
        ctx.oblige("generator:child_by_field-scan-passes-a-hidden-child-WITHOUT-the-field-before-reaching-the-child-that-has-it"
                   "(one field inherited through several hidden children with optional/alternative content: only there the 'go on with the next "
                   "field-map entry' branch of ts_node_child_by_field_id decides the answer)", par["cbfskip"] >= 8,
                   "%d (node, field) pairs, languages %s" % (par["cbfskip"], ", ".join(sorted(skip_langs))))
    return ctx.finish()
