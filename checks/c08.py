"""C08 — Trees are persistent values: copies are isolated and safe across threads.

Proof: TsVerif/C08/Props.lean over the reference-counted heap model (TsVerif/C08/Model.lean: retain,
release with the explicit stack, clone, make_mut, the ownership skeleton of ts_subtree_edit,
tree copy/delete/edit).  Tie: (1) syntactic obligation that atomic_inc/atomic_dec expand to
__atomic_*_fetch(.., SEQ_CST) on this platform and that ts_subtree_retain/release are the only
writers of ref_count (the model's atomicity assumption); (2) T-corr: histories of
copy/edit/re-parse/query/walk/delete over 1-6 handles through the Rust API; after every operation
every live handle is dumped (all fields, ref_count, addresses) and the model's prediction for
copy/edit/delete (counts, sharing, payloads, up to cell ids) must equal the real heap; (3) judge
on every real state: ref_count = number of owners, every other handle observes the same tree;
threaded runs (2-16 threads on their own copies) must equal the sequential run; the counting
allocator must balance to zero."""
import hashlib
import json
import os
import re
from checklib import sh, parse_kv_line, REPO


def atomic_tie(ctx):
    """T-gen-like syntactic check of lib/src/atomic.h and of the ref_count writers."""
    probe = os.path.join(ctx.workdir, "atomic_probe.c")
    open(probe, "w").write('#include "atomic.h"\n')
    rc, out = sh(["cc", "-E", "-P", "-I", REPO + "/lib/src", probe])
    flat = re.sub(r"\s+", " ", out)
    inc = re.search(r"static inline uint32_t atomic_inc\(volatile uint32_t \*p\) \{ return __atomic_add_fetch\(p, 1U, 5\); \}", flat)
    dec = re.search(r"static inline uint32_t atomic_dec\(volatile uint32_t \*p\) \{ return __atomic_sub_fetch\(p, 1U, 5\); \}", flat)
    ctx.oblige("tie:atomic_inc=__atomic_add_fetch(SEQ_CST)", rc == 0 and bool(inc), flat[-300:] if not inc else "")
    ctx.oblige("tie:atomic_dec=__atomic_sub_fetch(SEQ_CST)", rc == 0 and bool(dec), flat[-300:] if not dec else "")
    src = open(REPO + "/lib/src/subtree.c").read()

    def body(name):
        m = re.search(r"\n\w[\w \*]*\b%s\([^)]*\)\s*\{" % name, src)
        if not m:
            return ""
        i = m.end()
        depth = 1
        while i < len(src) and depth:
            depth += {"{": 1, "}": -1}.get(src[i], 0)
            i += 1
        return src[m.end():i]
    retain, release = body("ts_subtree_retain"), body("ts_subtree_release")
    ok_ret = "atomic_inc((volatile uint32_t *)&self.ptr->ref_count)" in retain
    ok_rel = release.count("atomic_dec((volatile uint32_t *)&") == 2 and "== 0" in release
    ctx.oblige("tie:ts_subtree_retain-uses-atomic_inc", ok_ret, retain[:200])
    ctx.oblige("tie:ts_subtree_release-uses-atomic_dec", ok_rel, release[:200])
    # no other writer of a subtree's ref_count (initialisation to 1 excepted)
    bad = []
    for f in ("subtree.c", "subtree.h", "parser.c", "tree.c", "tree_cursor.c", "node.c", "get_changed_ranges.c", "query.c", "lexer.c"):
        for i, line in enumerate(open(os.path.join(REPO, "lib/src", f)), 1):
            code = line.split("//")[0]
            if re.search(r"ref_count\s*(\+\+|--|\+=|-=|=(?!=))", code) and not re.search(r"ref_count\s*=\s*1\b", code):
                bad.append("%s:%d" % (f, i))
            if re.search(r"(\+\+|--)\s*[\w\.\->]*ref_count", code):
                bad.append("%s:%d" % (f, i))
    ctx.oblige("tie:no-non-atomic-ref_count-writes", not bad, ",".join(bad))
    # the licence to write in place
    mm = body("ts_subtree_make_mut")
    ctx.oblige("tie:make_mut-in-place-iff-ref_count==1", "ref_count == 1" in mm and "ts_subtree_clone" in mm and "ts_subtree_release" in mm, mm[:200])


class _JudgeFirst:
    """Buffers violations and hands the ones with a concrete failing input to ctx first
    (ctx.finish writes replay files for the first few only)."""
    def __init__(self, ctx):
        self.ctx, self.buf = ctx, []

    def violation(self, kind, what, payload, fingerprint=None, found_input=True):
        self.buf.append((0 if (found_input and kind == "judge") else 1, len(self.buf), kind, what, payload, fingerprint, found_input))

    def flush(self):
        for _, _, kind, what, payload, fp, fi in sorted(self.buf, key=lambda x: (x[0], x[1])):
            self.ctx.violation(kind, what, payload, fingerprint=fp, found_input=fi)
        self.buf = []


def run(ctx):
    jf = _JudgeFirst(ctx)
    ctx.trusted += [
        "hand model TsVerif/C08/Model.lean of retain/release/clone/make_mut/edit-skeleton/tree copy+delete (tied by correspondence on full heap dumps)",
        "TsVerif/C10/Model.lean (lead's port of the edit geometry) decides which nodes an edit visits and their new payload",
        "sequentially consistent atomic increments/decrements (tied syntactically to atomic.h on this platform); real memory ordering, torn reads and the Rust Send/Sync declarations are NOT modelled",
    ]
    ctx.assumptions += ["operations of different threads act on distinct tree handles (the API contract)",
                        "re-parse is abstract in the model: its result is taken from the real run and only judged (ref counts = owners, other handles unchanged)"]
    ctx.extra_lean_dirs = ["C10"]
    ctx.regen()
    ctx.prove(["TsVerif.C08.Props"], "TsVerif/C08/Audit.lean")
    atomic_tie(ctx)
    driver = ctx.build_driver("tsv-c08")
    explorer = ctx.cargo_bin("c08")
    if not (explorer and os.path.exists(driver)):
        jf.flush()
        return ctx.finish()
    ops = os.path.join(ctx.workdir, "ops.txt")
    if ctx.replay:
        rp = json.load(open(ctx.replay))
        spec = os.path.join(ctx.workdir, "spec.txt")
        open(spec, "w").write(rp["case"].get("spec", "") + "\n")
        rc, out = sh([explorer, ops, "--spec", spec], env=ctx.env, timeout=3000)
    else:
        rc, out = sh([explorer, ops], env=ctx.env, timeout=3000)
    ctx.log(out.strip().split("\n")[-1] if out.strip() else "explorer silent")
    if rc != 0:
        # a crash of the explorer IS the property failing (double free / use after free): name the history
        last = ""
        if os.path.exists(ops):
            for line in open(ops, errors="replace"):
                if line.startswith("spec "):
                    last = line.rstrip("\n").split(" ", 2)[2]
        ctx.oblige("run:explorer", False, out[-800:])
        jf.violation("judge", "the explorer process died (signal/abort) in history `%s`" % last,
                     {"case": "crash", "spec": last, "output": out[-2000:]}, fingerprint={"clause": "crash", "op": "crash"})
        jf.flush()
        return ctx.finish()
    specs, threads, alloc, kinds = {}, [], None, {}
    for line in open(ops):
        if line.startswith("spec "):
            _, cid, rest = line.rstrip("\n").split(" ", 2)
            specs[cid] = rest
        elif line.startswith("threads "):
            cid, kv = parse_kv_line(line[8:])
            threads.append((cid, kv))
        elif line.startswith("alloc "):
            alloc = dict(w.split("=") for w in line.split()[1:])
        elif line.startswith("kinds "):
            kinds = dict(w.split("=") for w in line.split()[1:])
    rc, out = sh("%s < %s" % (driver, ops), timeout=3000)
    evals = 0
    distinct = set()
    samples = []
    corr_cmp = corr_bad = judge_bad = 0
    opsum = {}
    agg = {"cells": 0, "shared": 0, "visited": 0}
    for line in out.split("\n"):
        if not line.strip():
            continue
        sid, kv = parse_kv_line(line)
        if "corr" not in kv:
            continue
        evals += 1
        cid = sid.rsplit(".", 1)[0]
        opsum[kv["op"]] = opsum.get(kv["op"], 0) + 1
        for k in agg:
            agg[k] += int(kv.get(k, "0") or 0)
        if int(kv.get("shared", "0") or 0) >= 1 and int(kv.get("handles", "0") or 0) >= 2:
            distinct.add(hashlib.sha1((specs.get(cid, cid) + sid).encode()).hexdigest())
        if len(samples) < 5 and evals % 173 == 1:
            samples.append({"step": sid, "spec": specs.get(cid, ""), "result": kv})
        payload = {"case": cid, "step": sid, "spec": specs.get(cid, ""), "result": kv}
        if kv["judge"] != "ok":
            judge_bad += 1
            clause = kv["judge"].split(":")[1] if ":" in kv["judge"] else kv["judge"]
            jf.violation("judge", "C08 judge failed on the real heap after `%s`: %s" % (kv["op"], kv["judge"]), payload,
                          fingerprint={"clause": clause, "op": kv["op"]})
        if kv["corr"] != "na":
            corr_cmp += 1
            if kv["corr"] != "ok":
                corr_bad += 1
                jf.violation("corr", "model heap and real heap disagree after `%s`: %s" % (kv["op"], kv["corr"]),
                              dict(payload, correspondence="TsVerif.C08.State.{copy,delete,edit} vs lib/src/tree.c + subtree.c"),
                              fingerprint={"corr": "diff", "op": kv["op"]}, found_input=False)
    for cid, kv in threads:
        evals += 1
        if kv.get("obs_equal") != "1":
            judge_bad += 1
            jf.violation("judge", "threaded run differs from the sequential run of the same per-thread sequences (%s)" % specs.get(cid, cid),
                          {"case": cid, "spec": specs.get(cid, ""), "result": kv}, fingerprint={"clause": "threads", "op": "threads"})
    evals += 1
    if not alloc or alloc.get("live") != "0":
        judge_bad += 1
        jf.violation("judge", "allocator balance is not zero after every handle was released: %s" % alloc,
                      {"case": "alloc", "spec": "\n".join(specs.values()), "result": alloc}, fingerprint={"clause": "alloc", "op": "all"})
    ctx.oblige("corr:heap-model=subtree.c", corr_bad == 0, "%d disagreements" % corr_bad)
    ctx.coverage.update({
        "evaluations": evals, "distinct_nontrivial": len(distinct),
        "rule": "one evaluation = one API operation (copy/edit/reparse/query/walk/delete) on a family of 1-6 live handles with full heap dumps "
                "of every handle before and after (or one threaded-vs-sequential comparison, or the final allocator balance); "
                "non-trivial := at least 2 live handles and at least one cell with ref_count > 1 in the state; distinct by hash of (history spec, step)",
        "samples": samples, "operations": opsum, "explorer_kinds": kinds, "totals": agg,
        "threaded": {"cases": len(threads), "threads": sorted({kv.get("n") for _, kv in threads}), "equal": sum(1 for _, kv in threads if kv.get("obs_equal") == "1")},
        "allocator": alloc,
        "correspondence": {"compared": corr_cmp, "equal": corr_cmp - corr_bad},
        "judge": {"evaluated": evals, "passed": evals - judge_bad},
        "impl_vs_judge_failures": judge_bad, "model_vs_impl_disagreements": corr_bad,
    })
    if evals <= 1:
        ctx.oblige("run:driver-produced-results", False, out[-500:])
    jf.flush()
    return ctx.finish()
