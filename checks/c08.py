"""C08 — Trees are persistent values: copies are isolated and safe across threads.

Proof: TsVerif/C08/Props.lean over the reference-counted heap model (TsVerif/C08/Model.lean: retain,
release with the explicit stack, clone, make_mut, the ownership skeleton of ts_subtree_edit,
tree copy/delete/edit).  Tie: (1) the model's atomicity / exclusivity assumptions, by behavioural probes through
the unity build cunit_c08 (16-thread lost-update probe of atomic_inc/atomic_dec, concurrent
retain/release of one shared subtree, make_mut in place iff unshared) plus a token-level SEQ_CST
obligation on the preprocessed atomic.h (follows wrapper functions) and a scan for non-atomic
ref_count writes; (2) T-corr: histories of
copy/edit/re-parse/query/walk/delete over 1-6 handles through the Rust API; after every operation
every live handle is dumped (all fields, ref_count, addresses) and the model's prediction for
copy/edit/delete (counts, sharing, payloads, up to cell ids) must equal the real heap; (3) judge
on every real state: ref_count = number of owners, every other handle observes the same tree;
threaded runs (2-16 threads on their own copies) must equal the sequential run; the counting
allocator must balance to zero."""
import hashlib
import json
import os
import re
from checklib import sh, parse_kv_line, REPO


def _functions(flat):
    """name -> body of every `static inline` function of a preprocessed, whitespace-normalised header
    (bodies without nested braces, which holds for atomic.h)."""
    return {m.group(1): m.group(2) for m in re.finditer(r"static inline [\w \*]+?\b(\w+)\s*\([^)]*\)\s*\{([^{}]*)\}", flat)}


def _reaches_seq_cst(fns, name, kind, depth=3):
    """Does `name` perform an atomic read-modify-write of kind add/sub with sequentially consistent
    order — directly or through helper functions of the same header?"""
    body = re.sub(r"\s+", "", fns.get(name, ""))
    if re.search(r"__atomic_%s_fetch\([^;]*,5\)" % kind, body) or re.search(r"__atomic_fetch_%s\([^;]*,5\)" % kind, body) \
            or re.search(r"__sync_%s_and_fetch\(" % kind, body) or re.search(r"__sync_fetch_and_%s\(" % kind, body):
        return True
    if depth == 0:
        return False
    return any(_reaches_seq_cst(fns, callee, kind, depth - 1) for callee in fns if callee != name and re.search(r"\b%s\(" % callee, fns.get(name, "")))


def atomic_tie(ctx):
    """The model assumes atomic, sequentially consistent count updates.  Tie, robust against
    refactorings that keep behaviour: (a) behavioural probes through the unity build on the REAL
    code: 16 threads x 200 000 atomic_inc/atomic_dec lose no update; 16 threads retaining and
    releasing one shared subtree leave its count where it was and free nothing; make_mut returns the
    cell itself iff it is unshared, else a fresh copy with retained children; (b) the memory order,
    which no probe can see: after preprocessing atomic.h, atomic_inc / atomic_dec reach — directly
    or through helpers — a __atomic/__sync read-modify-write with SEQ_CST (token-level, whitespace,
    macro names and wrapper functions do not matter); (c) no non-atomic write to a subtree ref_count."""
    exe = ctx.cunit("cunit_c08")
    if exe:
        rc, out = sh([exe], input_text="atomic 16 200000\nrc 16 100000\nmm\n", timeout=600)
        kv = {}
        for line in out.split("\n"):
            ws = line.split()
            if ws:
                kv[ws[0]] = dict(w.split("=") for w in ws[1:] if "=" in w)
        a, r, m = kv.get("atomic", {}), kv.get("rc", {}), kv.get("mm", {})
        ctx.oblige("probe:atomic_inc/dec-lose-no-update(16 threads)", rc == 0 and a.get("after_inc") == a.get("expected") and a.get("after_dec") == "0", str(a) + out[-200:])
        ctx.oblige("probe:concurrent-retain/release-keep-the-count", rc == 0 and r.get("mid") == r.get("expected_mid") and r.get("end") == r.get("start") and r.get("frees") == "0", str(r))
        ctx.oblige("probe:make_mut-in-place-iff-unshared", rc == 0 and m == {"unshared_same": "1", "shared_new": "1", "orig_rc": "1", "copy_rc": "1", "kids_rc": "2"}, str(m))
        ctx.coverage["probes"] = {"atomic": a, "retain_release": r, "make_mut": m}
    probe = os.path.join(ctx.workdir, "atomic_probe.c")
    open(probe, "w").write('#include "atomic.h"\n')
    rc, out = sh(["cc", "-E", "-P", "-I", REPO + "/lib/src", probe])
    flat = re.sub(r"\s+", " ", out)
    fns = _functions(flat)
    ctx.oblige("tie:atomic_inc-reaches-SEQ_CST-add", rc == 0 and _reaches_seq_cst(fns, "atomic_inc", "add"), str(fns.get("atomic_inc"))[:200])
    ctx.oblige("tie:atomic_dec-reaches-SEQ_CST-sub", rc == 0 and _reaches_seq_cst(fns, "atomic_dec", "sub"), str(fns.get("atomic_dec"))[:200])
    # no non-atomic write of a subtree's ref_count (initialisation to 1 excepted), comments stripped
    bad = []
    uses = {"atomic_inc": 0, "atomic_dec": 0}
    for f in ("subtree.c", "subtree.h", "parser.c", "tree.c", "tree_cursor.c", "node.c", "get_changed_ranges.c", "query.c", "lexer.c"):
        text = open(os.path.join(REPO, "lib/src", f)).read()
        text = re.sub(r"/\*.*?\*/", lambda m: "\n" * m.group(0).count("\n"), text, flags=re.S)
        for i, line in enumerate(text.split("\n"), 1):
            code = line.split("//")[0]
            if re.search(r"ref_count\s*(\+\+|--|\+=|-=|=(?!=))", code) and not re.search(r"ref_count\s*=\s*1\b", code):
                bad.append("%s:%d" % (f, i))
            if re.search(r"(\+\+|--)\s*[\w\.\->\(\)\*&]*ref_count", code):
                bad.append("%s:%d" % (f, i))
            if f == "subtree.c":
                for k in uses:
                    uses[k] += len(re.findall(r"\b%s\s*\(" % k, code))
    ctx.oblige("tie:no-non-atomic-ref_count-writes", not bad, ",".join(bad))
    ctx.oblige("tie:subtree.c-updates-counts-through-atomic_inc/atomic_dec", uses["atomic_inc"] >= 1 and uses["atomic_dec"] >= 1, str(uses))


class _JudgeFirst:
    """Buffers violations and hands the ones with a concrete failing input to ctx first
    (ctx.finish writes replay files for the first few only)."""
    def __init__(self, ctx):
        self.ctx, self.buf = ctx, []

    def violation(self, kind, what, payload, fingerprint=None, found_input=True):
        self.buf.append((0 if (found_input and kind == "judge") else 1, len(self.buf), kind, what, payload, fingerprint, found_input))

    def flush(self):
        for _, _, kind, what, payload, fp, fi in sorted(self.buf, key=lambda x: (x[0], x[1])):
            self.ctx.violation(kind, what, payload, fingerprint=fp, found_input=fi)
        self.buf = []


def run(ctx):
    jf = _JudgeFirst(ctx)
    ctx.trusted += [
        "hand model TsVerif/C08/Model.lean of retain/release/clone/make_mut/edit-skeleton/tree copy+delete (tied by correspondence on full heap dumps)",
        "TsVerif/C10/Model.lean (lead's port of the edit geometry) decides which nodes an edit visits and their new payload",
        "sequentially consistent atomic increments/decrements (probed on the real code with 16 threads; the memory order is tied at token level to the preprocessed atomic.h on this platform); real memory ordering, torn reads and the Rust Send/Sync declarations are NOT modelled",
    ]
    ctx.assumptions += ["operations of different threads act on distinct tree handles (the API contract)",
                        "re-parse is abstract in the model: its result is taken from the real run and only judged (ref counts = owners, other handles unchanged)"]
    ctx.extra_lean_dirs = ["C10"]
    ctx.regen()
    ctx.prove(["TsVerif.C08.Props", "TsVerif.C08.Persistence", "TsVerif.C08.Round11"], "TsVerif/C08/Audit.lean")
    atomic_tie(ctx)
    driver = ctx.build_driver("tsv-c08")
    explorer = ctx.cargo_bin("c08")
    if not (explorer and os.path.exists(driver)):
        jf.flush()
        return ctx.finish()
    ops = os.path.join(ctx.workdir, "ops.txt")
    if ctx.replay:
        rp = json.load(open(ctx.replay))
        spec = os.path.join(ctx.workdir, "spec.txt")
        open(spec, "w").write(rp["case"].get("spec", "") + "\n")
        rc, out = sh([explorer, ops, "--spec", spec], env=ctx.env, timeout=3000)
    else:
        rc, out = sh([explorer, ops], env=ctx.env, timeout=3000)
    ctx.log(out.strip().split("\n")[-1] if out.strip() else "explorer silent")
    if rc != 0:
        # a crash of the explorer IS the property failing (double free / use after free): name the history
        last = ""
        if os.path.exists(ops):
            for line in open(ops, errors="replace"):
                if line.startswith("spec "):
                    last = line.rstrip("\n").split(" ", 2)[2]
        ctx.oblige("run:explorer", False, out[-800:])
        jf.violation("judge", "the explorer process died (signal/abort) in history `%s`" % last,
                     {"case": "crash", "spec": last, "output": out[-2000:]}, fingerprint={"clause": "crash", "op": "crash"})
        jf.flush()
        return ctx.finish()
    specs, threads, alloc, kinds = {}, [], None, {}
    for line in open(ops):
        if line.startswith("spec "):
            _, cid, rest = line.rstrip("\n").split(" ", 2)
            specs[cid] = rest
        elif line.startswith("threads "):
            cid, kv = parse_kv_line(line[8:])
            threads.append((cid, kv))
        elif line.startswith("alloc "):
            alloc = dict(w.split("=") for w in line.split()[1:])
        elif line.startswith("kinds "):
            kinds = dict(w.split("=") for w in line.split()[1:])
    rc, out = sh("%s < %s" % (driver, ops), timeout=3000)
    evals = 0
    distinct = set()
    samples = []
    corr_cmp = corr_bad = judge_bad = 0
    opsum = {}
    agg = {"cells": 0, "shared": 0, "visited": 0}
    for line in out.split("\n"):
        if not line.strip():
            continue
        sid, kv = parse_kv_line(line)
        if "corr" not in kv:
            continue
        evals += 1
        cid = sid.rsplit(".", 1)[0]
        opsum[kv["op"]] = opsum.get(kv["op"], 0) + 1
        for k in agg:
            agg[k] += int(kv.get(k, "0") or 0)
        if int(kv.get("shared", "0") or 0) >= 1 and int(kv.get("handles", "0") or 0) >= 2:
            distinct.add(hashlib.sha1((specs.get(cid, cid) + sid).encode()).hexdigest())
        if len(samples) < 5 and evals % 173 == 1:
            samples.append({"step": sid, "spec": specs.get(cid, ""), "result": kv})
        payload = {"case": cid, "step": sid, "spec": specs.get(cid, ""), "result": kv}
        if kv["judge"] != "ok":
            judge_bad += 1
            clause = kv["judge"].split(":")[1] if ":" in kv["judge"] else kv["judge"]
            jf.violation("judge", "C08 judge failed on the real heap after `%s`: %s" % (kv["op"], kv["judge"]), payload,
                          fingerprint={"clause": clause, "op": kv["op"]})
        if kv["corr"] != "na":
            corr_cmp += 1
            if kv["corr"] != "ok":
                corr_bad += 1
                jf.violation("corr", "model heap and real heap disagree after `%s`: %s" % (kv["op"], kv["corr"]),
                              dict(payload, correspondence="TsVerif.C08.State.{copy,delete,edit} vs lib/src/tree.c + subtree.c"),
                              fingerprint={"corr": "diff", "op": kv["op"]}, found_input=False)
    for cid, kv in threads:
        evals += 1
        if kv.get("obs_equal") != "1":
            judge_bad += 1
            jf.violation("judge", "threaded run differs from the sequential run of the same per-thread sequences (%s)" % specs.get(cid, cid),
                          {"case": cid, "spec": specs.get(cid, ""), "result": kv}, fingerprint={"clause": "threads", "op": "threads"})
    evals += 1
    if not alloc or alloc.get("live") != "0":
        judge_bad += 1
        jf.violation("judge", "allocator balance is not zero after every handle was released: %s" % alloc,
                      {"case": "alloc", "spec": "\n".join(specs.values()), "result": alloc}, fingerprint={"clause": "alloc", "op": "all"})
    ctx.oblige("corr:heap-model=subtree.c", corr_bad == 0, "%d disagreements" % corr_bad)
    ctx.coverage.update({
        "evaluations": evals, "distinct_nontrivial": len(distinct),
        "rule": "one evaluation = one API operation (copy/edit/reparse/query/walk/delete) on a family of 1-6 live handles with full heap dumps "
                "of every handle before and after (or one threaded-vs-sequential comparison, or the final allocator balance); "
                "non-trivial := at least 2 live handles and at least one cell with ref_count > 1 in the state; distinct by hash of (history spec, step)",
        "samples": samples, "operations": opsum, "explorer_kinds": kinds, "totals": agg,
        "threaded": {"cases": len(threads), "threads": sorted({kv.get("n") for _, kv in threads}), "equal": sum(1 for _, kv in threads if kv.get("obs_equal") == "1")},
        "allocator": alloc,
        "correspondence": {"compared": corr_cmp, "equal": corr_cmp - corr_bad},
        "judge": {"evaluated": evals, "passed": evals - judge_bad},
        "impl_vs_judge_failures": judge_bad, "model_vs_impl_disagreements": corr_bad,
    })
    if evals <= 1:
        ctx.oblige("run:driver-produced-results", False, out[-500:])
    jf.flush()
    return ctx.finish()
