"""C09 — The tree is a pure function of language, text and included ranges.

Proof: TsVerif/C09/Props.lean over the ports of ts_decode_utf8/U8_NEXT (Utf8.lean) and of the
lexer's chunk handling (ts_lexer__get_chunk / __get_lookahead with its retry; C13/Lexer.lean).
Tie: scripted runs of the REAL lexer under chunkers and the real decoder (unity build cunit_c13).
Judge (Lean, implementation vs implementation): the full dump of the tree of a canonical drive
(fresh parser, one chunk, UTF-8, no logger) against the dumps obtained under every other drive."""
import hashlib
import json
import os
from checklib import sh, parse_kv_line


def run(ctx):
    ctx.trusted += [
        "hand ports TsVerif/C09/Utf8.lean (U8_NEXT) and TsVerif/C13/Lexer.lean (lexer.c), tied by scripted runs of the real lexer/decoder under chunkers (cunit_c13), state by state",
        "the parser object (stack, token cache, cancellation state) is not modelled: history-, logger- and cancellation-independence are judged on real outputs only (sampled)",
    ]
    ctx.assumptions += [
        "chars_chunk_indep needs WholeChar: each chunk returned at a character start holds the whole character or reaches the end (witness chars_chunk_dep_witness; known finding short-chunk-at-char-start)",
        "UTF-16 drives: valid UTF-8 documents only (there is no UTF-16 image of an ill-formed UTF-8 text)",
    ]
    ctx.regen()
    ctx.extra_lean_dirs = ["C13", "C01"]   # the lexer port lives in C13/Lexer.lean; TreeLevel.lean uses C01's runDriver (Stream.lean)
    ctx.prove(["TsVerif.C09.Props", "TsVerif.C09.Bom", "TsVerif.C09.TreeLevel", "TsVerif.C09.Round11", "TsVerif.C09.VersionOrder"], "TsVerif/C09/Audit.lean")
    ctx.validate_compare_versions(20000 if ctx.tier == "thorough" else 4000)
    driver = ctx.build_driver("tsv-c09")
    explorer = ctx.cargo_bin("c09")
    cunit = ctx.cunit("cunit_c13")
    if not (explorer and cunit and os.path.exists(driver)):
        return ctx.finish()
    ops = os.path.join(ctx.workdir, "ops.txt")
    if ctx.replay:
        rp = json.load(open(ctx.replay))
        spec = os.path.join(ctx.workdir, "spec.txt")
        open(spec, "w").write(rp["case"].get("spec", "") + "\n")
        rc, out = sh([explorer, ops, "--spec", spec], env=ctx.env, timeout=3000)
    else:
        rc, out = sh([explorer, ops], env=ctx.env, timeout=3000)
    ctx.log(out.strip().split("\n")[-1][:600] if out.strip() else "explorer silent")
    if rc != 0:
        ctx.oblige("run:explorer", False, out[-800:])
        return ctx.finish()
    specs, flines = {}, {}
    for line in open(ops):
        if line.startswith("spec "):
            _, cid, rest = line.rstrip("\n").split(" ", 2)
            specs[cid] = rest
        elif line.startswith("L ") or line.startswith("D ") or line.startswith("E "):
            flines[line.split(" ", 2)[1]] = line.rstrip("\n")
    rc, mout = sh("%s < %s" % (driver, ops), timeout=3000)
    rc2, cout = sh([cunit, ops], timeout=3000)
    if rc2 != 0:
        ctx.oblige("run:cunit_c13", False, cout[-500:])
    impl_f = {}
    for line in cout.split("\n"):
        if line.strip():
            impl_f[line.split(" ", 1)[0]] = line
    f_cmp = f_bad = f_states = 0
    f_viol = []
    alt_lines = {}
    l_cmp = []
    e16 = []
    evals = judge_bad = 0
    distinct = set()
    samples = []
    kinds, causes = {}, {}
    sources = {}
    core_bad = 0
    for line in mout.split("\n"):
        if not line.strip():
            continue
        cid, kv = parse_kv_line(line)
        if cid.endswith("#F"):
            alt_lines[cid[:-2]] = line.replace("#F", "", 1)
            continue
        if cid in flines and flines[cid].startswith("E "):
            # UTF-16 decoder: the model prints the decoder as it should be (dec16) and as unicode.h has it (asis);
            # which one /repo has is decided behaviourally on the lines where the two differ
            f_cmp += 1
            im = (impl_f.get(cid) or "").split("dec16=")[-1]
            e16.append((cid, kv.get("dec16"), kv.get("asis"), im))
            continue
        if cid in flines:
            f_cmp += 1
            f_states += line.count(";") + 1
            l_cmp.append((cid, line))
            continue
        if "eq" not in kv:
            continue
        evals += 1
        kind = kv.get("kind", "?")
        k = kinds.setdefault(kind, {"drives": 0, "equal": 0})
        k["drives"] += 1
        cause = kv.get("cause", "-")
        causes[cause] = causes.get(cause, 0) + 1
        sp = specs.get(cid, "")
        # non-trivial: chunk boundary inside the text / another encoding / a history / a cancellation — every drive but the logger one on tiny documents
        distinct.add(hashlib.sha1(sp.encode()).hexdigest())
        if len(samples) < 6 and evals % 977 == 1:
            samples.append({"case": cid, "spec": sp[:200], "result": kv})
        if kv.get("core") == "bad":
            core_bad += 1
        # per source of variation (the drive string of the spec): how often exercised, how often equal
        drv = sp.split(" ")[-1] if sp else ""
        srcs = []
        if ":after:" in drv:
            srcs = ["history:" + o + "->final:" + drv.split(":")[0] for o in sorted(set(drv.split(":after:")[1].split("+"))) if o.startswith("enc")]
        elif drv.startswith("hist:"):
            srcs = ["history:" + o for o in sorted(set(drv[5:].split("+")))]
        elif drv == "failed":
            srcs = ["history:first-parse-failed(no language)"]
        elif drv.startswith("cancel:"):
            srcs = ["cancel:" + drv.split(":")[-1]]
        elif drv.startswith("custom:"):
            srcs = ["encoding:custom-decode-utf8"]
        elif drv.startswith("u16"):
            srcs = ["encoding:" + drv[:5] + (":point-addressed" if ":pt:" in drv else "") + (":chunked" if ":c" in drv else "")]
        elif drv.startswith("pt:"):
            srcs = ["chunking:point-addressed"]
        elif drv[:1] in ("c", "s"):
            srcs = ["chunking:" + ("fixed" if drv[0] == "c" else "splits")]
        elif drv in ("log", "dot", "dotlog"):
            srcs = ["debug:" + drv]
        for so in srcs:
            e = sources.setdefault(so, {"drives": 0, "equal": 0})
            e["drives"] += 1
            e["equal"] += kv["eq"] == "ok"
        if kv["eq"] == "ok":
            k["equal"] += 1
        else:
            judge_bad += 1
            ctx.violation("judge", "C09: the tree of drive `%s` differs from the canonical drive's: %s" % (sp.split(" ")[-1][:60], kv["eq"][:300]),
                          {"case": cid, "spec": sp, "result": kv},
                          fingerprint={"kind": kind, "cause": cause})
    nF = sum(1 for _, a, b, im in e16 if a != b and im == a)
    nA = sum(1 for _, a, b, im in e16 if a != b and im == b)
    u16_variant = "asis" if nA > nF else "fixed"
    ctx.coverage["utf16_decoder_variant"] = {"chosen": u16_variant, "distinguishing_lines": nF + nA, "fixed_wins": nF, "asis_wins": nA}
    for cid, a, b, im in e16:
        want = b if u16_variant == "asis" else a
        if im != want:
            f_bad += 1
            if len(f_viol) < 3:
                f_viol.append({"case": cid, "line": flines[cid], "model": want, "impl": im,
                               "correspondence": "TsVerif.Utf.decodeUtf16 vs lib/src/unicode.h ts_decode_utf16_le/_be"})
    # the lexer port in two variants (as it is / with fixes/C13-empty-range-boundary.diff): chosen behaviourally on the
    # scripted runs where the two differ
    wF = sum(1 for cid, a in l_cmp if cid in alt_lines and impl_f.get(cid) == alt_lines[cid])
    wA = sum(1 for cid, a in l_cmp if cid in alt_lines and impl_f.get(cid) == a)
    lex_variant = "fixed" if wF > wA else "asis"
    ctx.coverage["lexer_empty_range_variant"] = {"chosen": lex_variant, "distinguishing_runs": wF + wA, "fixed_wins": wF, "asis_wins": wA}
    for cid, a in l_cmp:
        want = alt_lines.get(cid, a) if lex_variant == "fixed" else a
        if impl_f.get(cid) != want:
            f_bad += 1
            if len(f_viol) < 3:
                f_viol.append({"case": cid, "line": flines[cid], "model": want[:2000], "impl": (impl_f.get(cid) or "")[:2000],
                               "correspondence": "TsVerif.Lex.* / TsVerif.Utf.decodeUtf8 vs lib/src/lexer.c, lib/src/unicode.h"})
    for pl in f_viol:
        ctx.violation("corr", "Lean lexer/decoder port and the C code disagree on a scripted run", pl,
                      fingerprint={"level": "function"}, found_input=False)
    ctx.oblige("model:coreChars=lexStream", core_bad == 0, "%d chunk drives on which the chunk logic of chars_chunk_indep and the full lexer port see different sequences" % core_bad)
    ctx.oblige("corr:lexer-port=lexer.c", f_bad == 0 and (f_cmp > 0 or bool(ctx.replay)), "%d/%d scripted runs differ" % (f_bad, f_cmp))
    ctx.coverage.update({
        "evaluations": evals, "distinct_nontrivial": len(distinct),
        "rule": "zoo languages x documents of four sizes (<= 9 bytes: every split; small; medium; ~1500 tokens: several progress callbacks) incl. multi-byte "
                "characters, BOM and byte-mutated texts x drives: fixed 1/2/3/4/7-byte chunks, every split / random splits (also inside characters), "
                "UTF-16LE/BE whole and chunked, parser histories of 1-5 operations (other document, same document, half document, other language, ranges set "
                "and cleared with and without a parse, reset, cancelled parse (first / later callback, this / another document, cleared by reset or by set_language), "
                "language flipped back and forth, logger / dot graphs on and off again, incremental parse), a parser whose first parse failed (no language), logger on, dot graphs on, "
                "custom decode function decoding UTF-8, cancellation at progress-callback index k (all k when <= 12, else sampled) "
                "followed by resume (whole or 4-byte chunks) or by reset + fresh parse; one evaluation = one drive compared with the canonical drive by full dumps; every drive differs "
                "from the canonical one, so all are non-trivial; distinct by hash of (language, document, drive)",
        "samples": samples, "drives_by_kind": kinds, "drives_by_source": sources, "causes": causes,
        "function_level": {"compared": f_cmp, "equal": f_cmp - f_bad, "lexer_states_compared": f_states},
        "correspondence": {"compared": f_cmp, "equal": f_cmp - f_bad},
        "judge": {"evaluated": evals, "passed": evals - judge_bad},
        "impl_vs_judge_failures": judge_bad, "model_vs_impl_disagreements": f_bad,
    })
    if evals == 0:
        ctx.oblige("run:driver-produced-results", False, mout[-500:])
    return ctx.finish()
