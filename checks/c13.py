"""C13 — Parsing included ranges equals parsing their concatenation.

Proof: TsVerif/C13/Props.lean over the port of the range validation (ts_lexer_set_included_ranges +
the Rust wrapper's error index) and of the lexer's position logic (TsVerif/C13/Lexer.lean).
Tie: scripted runs of the REAL lexer (unity build cunit_c13) against the port, state by state.
Judge (Lean, from full dumps): parse(doc, ranges) vs parse(concat): same shape, every node position
= psi of the concatenated one, leaf boundaries never strictly inside excluded text, setter verdict =
specification, Tree::included_ranges = given ranges."""
import hashlib
import json
import os
from checklib import sh, parse_kv_line


def run(ctx):
    ctx.trusted += [
        "hand port TsVerif/C13/Lexer.lean of lib/src/lexer.c (position logic, UTF-8) and TsVerif/C09/Utf8.lean of ts_decode_utf8/U8_NEXT, "
        "tied by scripted runs of the real lexer and decoder (cunit_c13), compared state by state",
        "the harness' own concatenation / effective-text computation is re-computed by the Lean model and must agree",
        "documents and offsets < 2^32 (the Rust wrapper truncates usize offsets to uint32_t silently)",
    ]
    ctx.assumptions += [
        "stream_concat-style equality of the character streams needs RangesOnCharBoundaries (witness: known finding char-splitting-range-boundary)",
        "tree-shape equality is judged on real outputs; for erroneous parses it fails genuinely (known finding error-recovery)",
        "tree_shape_concat / driver_concat (TreeLevel.lean) are corollaries for DETERMINISTIC parsing whose only access to the text is the "
        "observation sequence (no GLR, no error recovery, no external scanner, no get_column): that the real parser is such a function is a modelling claim, not proved",
        "external scanners that ask for range boundaries/columns are not part of the equality claim",
    ]
    ctx.regen()
    ctx.extra_lean_dirs = ["C09", "C01"]   # C13 imports C09's decoder model; TreeLevel.lean imports C01's LR machine (Skel.lean)
    ctx.prove(["TsVerif.C13.Props", "TsVerif.C13.TreeLevel", "TsVerif.C13.Round11", "TsVerif.C13.Round11b"], "TsVerif/C13/Audit.lean")
    driver = ctx.build_driver("tsv-c13")
    explorer = ctx.cargo_bin("c13")
    cunit = ctx.cunit("cunit_c13")
    if not (explorer and cunit and os.path.exists(driver)):
        return ctx.finish()
    ops = os.path.join(ctx.workdir, "ops.txt")
    if ctx.replay:
        rp = json.load(open(ctx.replay))
        spec = os.path.join(ctx.workdir, "spec.txt")
        open(spec, "w").write(rp["case"].get("spec", "") + "\n")
        rc, out = sh([explorer, ops, "--spec", spec], env=ctx.env, timeout=3000)
    else:
        rc, out = sh([explorer, ops], env=ctx.env, timeout=3000)
    ctx.log(out.strip().split("\n")[-1] if out.strip() else "explorer silent")
    if rc != 0:
        ctx.oblige("run:explorer", False, out[-800:])
        return ctx.finish()
    specs, flines = {}, {}
    for line in open(ops):
        if line.startswith("spec "):
            _, cid, rest = line.rstrip("\n").split(" ", 2)
            specs[cid] = rest
        elif line.startswith("L ") or line.startswith("D "):
            flines[line.split(" ", 2)[1]] = line.rstrip("\n")
    rc, mout = sh("%s < %s" % (driver, ops), timeout=3000)
    rc2, cout = sh([cunit, ops], timeout=3000)
    if rc2 != 0:
        ctx.oblige("run:cunit_c13", False, cout[-500:])
    impl_f = {}
    for line in cout.split("\n"):
        if line.strip():
            impl_f[line.split(" ", 1)[0]] = line
    f_cmp = f_bad = f_states = 0
    f_viol = []
    alt_lines = {}
    l_cmp = []
    rc_bad = sc_bad = fit_n = 0
    evals = judge_bad = 0
    distinct = set()
    samples = []
    agg = {"accepted": 0, "rejected": 0, "error_free_pairs": 0, "erroneous_pairs": 0, "nodes": 0, "leaves": 0,
           "leaves_spanning_a_gap": 0, "char_splitting_lists": 0, "causes": {}}
    langs = {}
    gap_case = None
    for line in mout.split("\n"):
        if not line.strip():
            continue
        cid, kv = parse_kv_line(line)
        if cid.endswith("#F"):
            alt_lines[cid[:-2]] = line.replace("#F", "", 1)
            continue
        if cid in flines:
            f_cmp += 1
            f_states += line.count(";") + 1
            l_cmp.append((cid, line))
            continue
        if "setter" not in kv:
            continue
        evals += 1
        lang = cid.rsplit("-", 1)[0]
        langs[lang] = langs.get(lang, 0) + 1
        acc = kv.get("accepted") == "1"
        agg["accepted" if acc else "rejected"] += 1
        if acc:
            agg["error_free_pairs" if kv.get("err") == "0" else "erroneous_pairs"] += 1
            agg["nodes"] += int(kv.get("nodes", "0") or 0)
            agg["leaves"] += int(kv.get("leaves", "0") or 0)
            agg["leaves_spanning_a_gap"] += int(kv.get("gapleaves", "0") or 0)
            agg["char_splitting_lists"] += 1 if kv.get("onb") == "0" else 0
        rc_bad += 1 if kv.get("rc") == "bad" else 0
        sc_bad += 1 if kv.get("sc") == "bad" else 0
        fit_n += 1 if kv.get("fit") == "1" else 0
        cause = kv.get("cause", "-")
        agg["causes"][cause] = agg["causes"].get(cause, 0) + 1
        nontrivial = acc and (int(kv.get("neff", "0") or 0) >= 2 or kv.get("onb") == "0")
        if nontrivial:
            distinct.add(hashlib.sha1(specs.get(cid, cid).encode()).hexdigest())
        if len(samples) < 5 and evals % 173 == 1:
            samples.append({"case": cid, "spec": specs.get(cid, "")[:300], "result": kv})
        payload = {"case": cid, "spec": specs.get(cid, ""), "result": kv}
        clauses = [k for k in ("setter", "reported", "concat", "shape", "pos") if kv.get(k, "ok") not in ("ok", "-")]
        if clauses:
            judge_bad += 1
            # setter / reported-ranges / concat failures are never covered by a known finding
            c = cause if all(k in ("shape", "pos") for k in clauses) else "other"
            ctx.violation("judge", "C13 judge failed (%s): %s" % (",".join(clauses), " | ".join(kv[k][:200] for k in clauses)), payload,
                          fingerprint={"lang": lang, "clauses": ",".join(clauses), "cause": c})
        elif acc and int(kv.get("gapleaves", "0") or 0) > 0 and gap_case is None:
            gap_case = payload
    # the lexer port in two variants (as it is / with fixes/C13-empty-range-boundary.diff): chosen behaviourally on the
    # scripted runs where the two differ
    wF = sum(1 for cid, a in l_cmp if cid in alt_lines and impl_f.get(cid) == alt_lines[cid])
    wA = sum(1 for cid, a in l_cmp if cid in alt_lines and impl_f.get(cid) == a)
    lex_variant = "fixed" if wF > wA else "asis"
    ctx.coverage["lexer_empty_range_variant"] = {"chosen": lex_variant, "distinguishing_runs": wF + wA, "fixed_wins": wF, "asis_wins": wA}
    for cid, a in l_cmp:
        want = alt_lines.get(cid, a) if lex_variant == "fixed" else a
        if impl_f.get(cid) != want:
            f_bad += 1
            if len(f_viol) < 3:
                f_viol.append({"case": cid, "line": flines[cid], "model": want[:2000], "impl": (impl_f.get(cid) or "")[:2000],
                               "correspondence": "TsVerif.Lex.* / TsVerif.Utf.decodeUtf8 vs lib/src/lexer.c, lib/src/unicode.h"})
    for pl in f_viol:   # after the system-level cases, so that concrete failing inputs are listed first
        ctx.violation("corr", "Lean lexer/decoder port and the C code disagree on a scripted run", pl,
                      fingerprint={"level": "function"}, found_input=False)
    if gap_case is not None:
        # the literal reading of "no leaf covers excluded text" (a leaf whose characters lie on both sides of a gap
        # has a byte range that contains the gap): false by construction, recorded as a finding, not judged
        ctx.violation("judge", "literal reading: a leaf's byte range contains excluded bytes (its characters lie on both sides of a gap)",
                      gap_case, fingerprint={"cause": "literal-leaf-spans-gap"})
    ctx.oblige("model:rangedChars=lexStream", rc_bad == 0, "%d cases on which the character logic of stream_concat and the full lexer port see different sequences" % rc_bad)
    ctx.oblige("model:stream_concat-instance", sc_bad == 0, "%d cases with FitRun true but different sequences over ranges and over the concatenation (would contradict the theorem)" % sc_bad)
    ctx.coverage["stream_concat_hypothesis_true"] = fit_n
    ctx.oblige("corr:lexer-port=lexer.c", f_bad == 0 and (f_cmp > 0 or bool(ctx.replay)), "%d/%d scripted runs differ" % (f_bad, f_cmp))
    ctx.coverage.update({
        "evaluations": evals, "distinct_nontrivial": len(distinct),
        "rule": "zoo languages x grammar-directed documents (every 3rd byte-mutated) x range lists: (a) random lists of 1-8 ranges with cuts at token "
                "boundaries / random offsets / inside multi-byte characters / at and beyond EOF, empty and adjacent ranges, UINT32_MAX ends, 1 in 7 made invalid; "
                "(b) template documents = a valid sentence cut at token boundaries with junk between the fragments, ranges = the fragments. "
                "one evaluation = setter verdict + parse(doc, ranges) + parse(concat) (+ parse(E) for character-splitting lists) with full dumps; "
                "non-trivial := accepted and (>= 2 non-empty ranges or a boundary inside a character); distinct by hash of (language, document, ranges)",
        "samples": samples, "totals": agg, "cases_per_language": langs,
        "function_level": {"compared": f_cmp, "equal": f_cmp - f_bad, "lexer_states_compared": f_states},
        "correspondence": {"compared": f_cmp, "equal": f_cmp - f_bad},
        "judge": {"evaluated": evals, "passed": evals - judge_bad},
        "impl_vs_judge_failures": judge_bad, "model_vs_impl_disagreements": f_bad,
    })
    if evals == 0:
        ctx.oblige("run:driver-produced-results", False, mout[-500:])
    return ctx.finish()
