"""C11 — Query cursor views agree: captures, matches, ranges, limits, predicates.

Proof: TsVerif/C11/Props.lean (generated range_intersects/range_within = interval overlap/containment,
capture-view spec, predicate evaluator = documented reading, quantifier algebra).
Tie: T-gen for the range predicates and quantifier tables; the predicate port is tied by
correspondence with QueryMatches; the views of the REAL cursor (matches/captures under ranges,
depths, limits, re-execution, removal, predicates) are compared by the Lean judges."""
import hashlib
import json
import os
import random
import re
from checklib import sh, parse_kv_line

CLAUSES = {
    "a": "capture stream = triples of the match stream, in document order",
    "b": "range-restricted matches = unrestricted matches whose root intersects / lies within the range",
    "c": "re-executed / reused cursor gives the identical stream",
    "d": "a match limit that changes the stream is reported by did_exceed_match_limit",
    "e": "remove_match suppresses only the removed match's remaining captures",
    "f": "QueryMatches returns exactly the matches whose text predicates hold (documented reading)",
    "g": "max_start_depth only reports unrestricted matches rooted at depth <= d",
    "h": "QueryCaptures with predicates agrees with QueryMatches with predicates",
    "p": "a byte range and the point range of the same positions select the same matches and captures",
    "r": "ts_query_is_pattern_rooted says rooted exactly for patterns with one top-level node (alternations included)",
    "u": "finished-state heap keeps the heap property (unit level)",
}



CANON = ["finished_state_precedes", "finished_state_sift_down", "finished_state_sift_up", "finished_state_pop",
         "finished_state_erase", "ts_query_cursor__heapify_finished_states", "ts_query_cursor__push_finished_state",
         "capture_list_pool_new", "capture_list_pool_reset", "capture_list_pool_delete", "capture_list_pool_get_mut",
         "capture_list_pool_is_empty", "capture_list_pool_acquire", "capture_list_pool_release"]


def static_functions(src):
    """(name, return type, parameter text, body) of the static functions of a C file."""
    out = []
    for m in re.finditer(r"^static\s+(?:inline\s+)?([A-Za-z_][\w\s\*]*?)\b(\w+)\s*\(([^)]*)\)\s*\{", src, re.M):
        depth, k = 1, m.end()
        while k < len(src) and depth:
            depth += {"{": 1, "}": -1}.get(src[k], 0)
            k += 1
        out.append((m.group(2), " ".join(m.group(1).split()), " ".join(m.group(3).split()), src[m.end():k]))
    return out


def resolve_static_names(src):
    """The unity driver calls static functions by name.  When they were RENAMED (a harmless rewrite) find
    them again by signature and a body feature and return -D mappings canonical -> current name."""
    fs = static_functions(src)
    names = {f[0] for f in fs}
    found = {}

    def pick(canon, pred):
        if canon in names:
            return
        c = [f for f in fs if pred(f)]
        if len(c) == 1:
            found[canon] = c[0][0]

    heap3 = [f for f in fs if re.fullmatch(r"QueryStateList \*\w+, uint32_t \w+, const CaptureListPool \*\w+", f[2])]
    pick("finished_state_precedes", lambda f: f[2].count("const QueryState *") == 2 and "CaptureListPool" in f[2])
    if len(heap3) == 3:
        others = lambda f: [g[0] for g in heap3 if g[0] != f[0]]
        erase = [f for f in heap3 if all(re.search(r"\b%s\b" % o, f[3]) for o in others(f))]
        rest = [f for f in heap3 if f not in erase]
        down = [f for f in rest if re.search(r"2 \* \w+ \+ 1|<< 1", f[3])]
        up = [f for f in rest if f not in down]
        for canon, c in (("finished_state_erase", erase), ("finished_state_sift_down", down), ("finished_state_sift_up", up)):
            if canon not in names and len(c) == 1:
                found[canon] = c[0][0]
    pick("finished_state_pop", lambda f: re.fullmatch(r"QueryStateList \*\w+, const CaptureListPool \*\w+", f[2]) is not None)
    pick("ts_query_cursor__heapify_finished_states", lambda f: re.fullmatch(r"TSQueryCursor \*\w+", f[2]) and "finished_states_heap_size++" in f[3].replace(" ", ""))
    pick("ts_query_cursor__push_finished_state", lambda f: "QueryState *" in f[2] and "TSQueryCursor *" in f[2] and "heap_insert_order" in f[3] and "next_finished_state_id" in f[3])
    pick("capture_list_pool_new", lambda f: f[1] == "CaptureListPool" and f[2] in ("void", ""))
    pick("capture_list_pool_reset", lambda f: f[1] == "void" and re.fullmatch(r"CaptureListPool \*\w+", f[2]) and "free_capture_list_count =" in f[3])
    pick("capture_list_pool_delete", lambda f: f[1] == "void" and re.fullmatch(r"CaptureListPool \*\w+", f[2]) and "array_delete" in f[3] and "free_capture_list_count =" not in f[3])
    pick("capture_list_pool_get_mut", lambda f: f[1] == "CaptureList *" and "CaptureListPool *" in f[2] and not f[2].startswith("const"))
    pick("capture_list_pool_is_empty", lambda f: f[1] == "bool" and re.fullmatch(r"const CaptureListPool \*\w+", f[2]) is not None)
    pick("capture_list_pool_acquire", lambda f: f[1] in ("uint32_t", "uint16_t") and re.fullmatch(r"CaptureListPool \*\w+", f[2]) is not None)
    pick("capture_list_pool_release", lambda f: f[1] == "void" and re.fullmatch(r"CaptureListPool \*\w+, uint32_t \w+", f[2]) is not None)
    missing = [c for c in CANON if c not in names and c not in found]
    return found, missing


def cunit_tolerant(ctx):
    """ctx.cunit, but static functions the driver calls are looked up again by signature when they were renamed."""
    repo = os.environ.get("VERIF_REPO", "/repo")
    try:
        src = open(os.path.join(repo, "lib/src/query.c")).read()
    except OSError:
        src = ""
    found, missing = resolve_static_names(src)
    if not found and not missing:
        return ctx.cunit("cunit_c11")
    if missing:
        ctx.oblige("build:tsv-cunit_c11", False, "static functions called by the unity driver not found (renamed beyond recognition or removed): " + ", ".join(missing))
        return None
    root = os.path.dirname(os.path.dirname(os.path.abspath(__file__)))
    exe = os.path.join(ctx.workdir, "tsv-cunit_c11")
    cmd = ["cc", "-std=c11", "-O1", "-w", "-D_POSIX_C_SOURCE=200112L", "-D_DEFAULT_SOURCE",
           "-DTSV_REPO_LIB_C=\"%s/lib/src/lib.c\"" % repo, "-I", repo + "/lib/src", "-I", repo + "/lib/src/wasm", "-I", repo + "/lib/include"]
    cmd += ["-D%s=%s" % (c, n) for c, n in sorted(found.items())]
    cmd += [os.path.join(root, "harness", "csrc", "cunit_c11.c"), "-o", exe]
    rc, out = sh(cmd)
    ctx.notes.append("unity driver: renamed static functions resolved by signature: %s" % found)
    if rc != 0:
        ctx.oblige("build:tsv-cunit_c11", False, out[-1200:])
        return None
    return exe


def unit_level(ctx, driver):
    """Function level: the ports of the finished-state heap and of the capture-list pool
    (TsVerif/C11/Heap.lean) against the REAL static functions, on random operation scripts."""
    exe = cunit_tolerant(ctx)
    if not exe:
        return
    rnd = random.Random(ctx.seed * 7919 + 11)
    ops = []
    sessions = 400 if ctx.tier == "thorough" else 60
    for _ in range(sessions):
        ops.append("hnew")
        live = 0
        for _ in range(rnd.randint(5, 60)):
            r = rnd.random()
            if r < 0.45 or live == 0:
                n = rnd.randint(0, 4)
                start = rnd.randint(0, 12)
                bs = sorted(rnd.randint(start, start + 10) for _ in range(n))
                ops.append("hpush %d %d %s" % (rnd.randint(0, 3), n, " ".join(map(str, bs))))
                live += 1
            elif r < 0.55:
                ops.append("hheapify")
            elif r < 0.75:
                ops.append("hconsume")
            elif r < 0.9:
                ops.append("hpop")
                live = max(0, live - 1)
            else:
                ops.append("herase %d" % rnd.randint(0, max(0, live - 1)))
                live = max(0, live - 1)
    for _ in range(sessions):
        ops.append("pnew")
        ops.append("pmax %d" % rnd.choice([0, 1, 2, 3, 4, 8, 4294967295]))
        for _ in range(rnd.randint(5, 50)):
            r = rnd.random()
            if r < 0.5:
                ops.append("pacq")
            elif r < 0.8:
                ops.append("prel %d" % rnd.randint(0, 9))
            elif r < 0.88:
                ops.append("pempty")
            elif r < 0.94:
                ops.append("pmax %d" % rnd.choice([0, 1, 2, 3, 5, 4294967295]))
            else:
                ops.append("preset")
    script = os.path.join(ctx.workdir, "unit_ops.txt")
    open(script, "w").write("\n".join(ops) + "\n")
    rc, cout = sh("%s < %s" % (exe, script), timeout=600)
    clines = [l for l in cout.split("\n") if l.strip()]
    if rc != 0 or len(clines) != len(ops):
        ctx.oblige("run:cunit_c11", False, "rc=%d lines=%d ops=%d %s" % (rc, len(clines), len(ops), cout[-300:]))
        return
    feed = os.path.join(ctx.workdir, "unit_feed.txt")
    with open(feed, "w") as f:
        for o, c in zip(ops, clines):
            f.write("uop %s\nuc %s\n" % (o, c))
    rc, out = sh("%s < %s" % (driver, feed), timeout=600)
    compared = equal = heap_bad = 0
    first = None
    for line in out.split("\n"):
        if not line.startswith("unit#"):
            continue
        cid, kv = parse_kv_line(line)
        compared += 1
        if kv.get("corr") == "ok":
            equal += 1
        elif first is None:
            first = (cid, kv.get("corr", "")[:300], ops[int(cid.split("#")[1])])
        if kv.get("judge") != "ok":
            heap_bad += 1
            if heap_bad <= 3:
                i = int(cid.split("#")[1])
                # the session that led here is the replayable input
                j = max(k for k in range(i + 1) if ops[k] in ("hnew", "pnew"))
                ctx.violation("judge", "C11 finished-state heap: heap property broken after `%s` (real finished_state_* functions)" % ops[i],
                              {"case": cid, "clause": "u", "unit_script": ops[j:i + 1], "result": kv},
                              fingerprint={"clause": "u", "kind": "heap-property"})
    ctx.oblige("corr:Heap.lean=finished_state_*/capture_list_pool_*", compared > 0 and compared == equal,
               "%d of %d operation results equal; first difference: %s" % (equal, compared, first))
    if compared != equal:
        ctx.violation("corr", "Lean port of the finished-state heap / capture-list pool disagrees with the real functions: %s" % (first,),
                      {"first": first, "correspondence": "TsVerif/C11/Heap.lean vs lib/src/query.c finished_state_*, capture_list_pool_*"},
                      fingerprint={"corr": "heap-pool"}, found_input=False)
    ctx.coverage["unit_level"] = {"operations": len(ops), "compared": compared, "equal": equal, "heap_property_failures": heap_bad,
                                  "rule": "random scripts: push (0-4 captures), lazy heapify, consume-root, pop, erase(i); pool acquire/release/is_empty/reset under changing limits"}


def run(ctx):
    ctx.trusted += [
        "hand ports in TsVerif/C11/Model.lean: set_byte_range/set_point_range normalisation, node_outside_of_range, "
        "satisfies_text_predicates (tied by correspondence on every predicate case: corr=ok|ok-unfixed|ok-fixed)",
        "miniRegex (TsVerif/C11/Judge.lean) stands in for regex::bytes on the generated subset (^ $ literals [a-z] * + ?)",
        "harness/src/bin/c11.rs: stream recording through the public Rust API; node identity = (id, range, kind) -> preorder ordinal",
        "ts_query_cursor__advance is not modelled: the views are compared with each other, not with a matcher (that is C05)",
    ]
    ctx.assumptions += ["documents < 4 GiB; generated queries capture every pattern root as @r (needed to decide clause b)"]
    ctx.regen()
    ctx.prove(["TsVerif.C11.Props", "TsVerif.C11.ViewProps"], "TsVerif/C11/Audit.lean")
    driver = ctx.build_driver("tsv-c11")
    explorer = ctx.cargo_bin("c11")
    if not (explorer and os.path.exists(driver)):
        return ctx.finish()
    if not ctx.replay:
        unit_level(ctx, driver)
    ops = os.path.join(ctx.workdir, "ops.txt")
    if ctx.replay:
        rp = json.load(open(ctx.replay))
        spec = os.path.join(ctx.workdir, "spec.txt")
        open(spec, "w").write(rp["case"].get("spec", "") + "\n")
        rc, out = sh([explorer, ops, "--spec", spec], env=ctx.env, timeout=3000)
    else:
        rc, out = sh([explorer, ops], env=ctx.env, timeout=3000)
    exp_summary = out.strip().split("\n")[-1] if out.strip() else "explorer silent"
    ctx.log(exp_summary)
    if rc != 0:
        ctx.oblige("run:explorer", False, out[-800:])
        return ctx.finish()
    specs = {}
    probe = "unknown"
    for line in open(ops):
        if line.startswith("probe node_precedes_range "):
            probe = line.split()[2]
        if line.startswith("spec "):
            _, cid, rest = line.rstrip("\n").split(" ", 2)
            specs[cid] = rest
    rc, out = sh("%s < %s" % (driver, ops), timeout=3000)
    evals = 0
    per_clause = {}
    distinct = set()
    samples = []
    corr_cmp = corr_bad = judge_bad = 0
    kinds = {}
    want_clause = None
    if ctx.replay:
        want_clause = json.load(open(ctx.replay))["case"].get("clause")
    for line in out.split("\n"):
        if not line.strip():
            continue
        cid, kv = parse_kv_line(line)
        if "judge" not in kv:
            continue
        case = cid.split("#")[0]
        clause = kv.get("clause", "?")
        evals += 1
        pc = per_clause.setdefault(clause, {"evaluated": 0, "passed": 0, "nontrivial": 0})
        pc["evaluated"] += 1
        n1 = int(kv.get("n1", "0") or 0)
        n2 = int(kv.get("n2", "0") or 0)
        nontrivial = (clause in ("a", "h", "c", "p") and n1 >= 2) or (clause in ("b", "g", "f") and n1 >= 2 and n1 != n2) or \
                     (clause == "d" and (n1 != n2 or kv.get("exceeded") == "1")) or (clause == "e" and n1 != n2)
        if nontrivial:
            pc["nontrivial"] += 1
            distinct.add(hashlib.sha1((specs.get(case, case) + clause + kv.get("mode", "")).encode()).hexdigest())
        if len(samples) < 6 and evals % 1301 == 1:
            samples.append({"check": cid, "spec": specs.get(case, "")[:400], "result": kv})
        lang = case.rsplit("-", 1)[0]
        if kv.get("corr", "-") != "-":
            corr_cmp += 1
            if kv["corr"] == "DIFF":
                corr_bad += 1
                ctx.violation("corr", "Lean port of satisfies_text_predicates (unchanged and fixed variants) both disagree with QueryMatches",
                              {"case": case, "clause": clause, "spec": specs.get(case, ""), "result": kv,
                               "correspondence": "TsVerif.C11.evalImpl/evalFixed vs lib/binding_rust/lib.rs:satisfies_text_predicates"},
                              fingerprint={"lang": lang, "corr": "predicates"}, found_input=False)
        if kv["judge"] == "ok":
            pc["passed"] += 1
            continue
        if want_clause and clause != want_clause:
            continue
        judge_bad += 1
        kind = kv["judge"].split()[1] if len(kv["judge"].split()) > 1 else "?"
        kinds[clause + ":" + kind] = kinds.get(clause + ":" + kind, 0) + 1
        ctx.violation("judge", "C11 clause (%s) %s — %s" % (clause, CLAUSES.get(clause, ""), kv["judge"]),
                      {"case": case, "clause": clause, "spec": specs.get(case, ""), "result": kv},
                      fingerprint={"clause": clause, "kind": kind, "wild": kv.get("wild", "false"), "lang": lang,
                                   "qfree": kv.get("qfree", "-")})
    ctx.coverage["range_test_variant_by_behavioural_probe"] = probe
    ctx.oblige("tie:probe:capture-range-test-variant-determined", probe in ("new", "old"),
               "the behavioural probe (captures() on the zero-width root of an empty lst document) gave no answer")
    ctx.oblige("corr:evalImpl|evalFixed=satisfies_text_predicates", corr_bad == 0, "%d disagreements" % corr_bad)
    tot_pass = sum(v["passed"] for v in per_clause.values())
    ctx.coverage.update({
        "evaluations": evals, "distinct_nontrivial": len(distinct),
        "rule": "one evaluation = one clause decided by the Lean judge on streams of the real cursor for one (language, document, "
                "query, cursor setting); queries are derived from nodes of the parsed document (kinds, fields, anchors, wildcards, "
                "alternations, quantifiers, 0-2 text predicates per pattern, 1-3 patterns); settings: 4 byte/point ranges "
                "(intersecting or containing; empty, inside tokens, past EOF), a max start depth 0-4, 2 match limits from "
                "{1,2,3,4,8,16,64}, re-execution after partial consumption, removal at a random stream position; "
                "non-trivial := >=2 matches (a,c,h) / restriction changes the result (b,f,g) / limit changed stream or flag set (d) / "
                "removal changed the stream (e); distinct by hash of (language, text, query, seed, clause, range mode)",
        "samples": samples, "per_clause": per_clause, "failure_kinds": kinds,
        "explorer_summary": exp_summary,
        "correspondence": {"compared": corr_cmp, "equal": corr_cmp - corr_bad},
        "judge": {"evaluated": evals, "passed": tot_pass},
        "impl_vs_judge_failures": judge_bad, "model_vs_impl_disagreements": corr_bad,
    })
    if evals == 0:
        ctx.oblige("run:driver-produced-results", False, out[-500:])
    return ctx.finish()
