"""C12 — Re-parsing after a small edit reuses the unchanged parts of the old tree.

Proof: TsVerif/C12/Props.lean over C10's port of ts_subtree_edit (marked_bound, unmarked_shared,
edit_same_or_marked).  Measurement on the REAL runtime (harness/src/bin/c12.rs): per generated
error-free document of 10^3 / 10^4 (/ 10^5) tokens and single-token edit, the number of
lexed_lookahead log events, the bytes handed out by a counting 4-byte-chunk read callback, and
the internal dumps before the edit / after ts_tree_edit / after the re-parse.  Judge (Lean,
TsVerif/C12/Judge.lean, run by tsv-c12): fractions vs the committed checks/c12_thresholds.json,
growth between sizes, and the marking theorems' statements decided on the real dumps.

Round 11: interrupted drives.  For two (edit position, interruption mode) pairs per language and both
sizes the SAME re-parse is cancelled by the progress callback (ParseOptions::progress_callback ->
Break) at the k-th callback invocation (early / middle / late / twice) and resumed by calling parse
again without reset until the tree is complete; lexed tokens and served bytes are summed over the
interrupted run and the resumed run(s), node sharing is taken between the edited old tree and the
final tree, and the same judge with the same thresholds decides (case id `<lang>-<size>-<pos>@<mode>`).
Interrupted drives never enter the calibration.

Calibration (only by hand, on the reference tree):  VERIF_C12_CALIBRATE=1 ./check C12 --tier thorough
rewrites checks/c12_thresholds.json from the measured values (5x, floor 2 %; the all-heap-node
sharing metric additionally capped half-way between the measured value and 100 %)."""
import json
import os
from checklib import sh, parse_kv_line, ROOT

THR = os.path.join(ROOT, "checks", "c12_thresholds.json")
FLOOR = 20000  # 2 % in ppm
METRICS = ("lexed_ppm", "bytes_ppm", "fresh_ppm", "freshvis_ppm")


# Languages whose re-parse cost has a large document-dependent variance on the reference tree
# (pyish: after zero-width DEDENTs the runtime skips a whole sibling subtree on a scanner-state
# mismatch, see notes/C12.md): wider floor, no growth comparison.
HIGH_VARIANCE = {"pyish": 250000}


def threshold(metric, measured, lang=None):
    t = max(FLOOR, 5 * measured)
    if lang in HIGH_VARIANCE and metric in ("lexed_ppm", "bytes_ppm", "freshvis_ppm"):
        t = max(t, HIGH_VARIANCE[lang])
    if metric == "fresh_ppm":
        # hidden repeat nodes are rebuilt along the whole top-level spine on the reference tree
        # (~20-26 % of heap nodes): 5x would exceed 100 %, so cap half-way to 100 %
        t = min(t, measured + (1000000 - measured) // 2)
    return min(t, 1000000)


def run(ctx):
    ctx.extra_lean_dirs = ["C10", "C01"]
    ctx.trusted += [
        "hand port TsVerif/C10/Model.lean of ts_subtree_edit (tied by C10's correspondence; here its marking statements are re-decided on real dumps)",
        "the public logger (lexed_lookahead events) and the harness's counting read callback as measurements",
        "node identity = heap address in the dumps of harness/csrc/shim.c (old tree kept alive during the re-parse)",
        "committed thresholds checks/c12_thresholds.json (calibrated once on the reference tree)"]
    ctx.assumptions += ["documents are error-free and generated (grammar-directed units + one deep block), single numeric-token replacement",
                        "constants and wall-clock cost are runtime behaviour: measured, not proved"]
    ctx.regen()
    ctx.prove(["TsVerif.C12.Props", "TsVerif.C12.Round11", "TsVerif.C12.Round11b", "TsVerif.C12.Round11c"], "TsVerif/C12/Audit.lean")
    driver = ctx.build_driver("tsv-c12")
    explorer = ctx.cargo_bin("c12")
    if not (explorer and os.path.exists(driver)):
        return ctx.finish()
    calibrate = os.environ.get("VERIF_C12_CALIBRATE") == "1"
    thr = {}
    if os.path.exists(THR):
        thr = json.load(open(THR)).get("thresholds", {})
    elif not calibrate:
        ctx.oblige("tie:thresholds-file", False, "checks/c12_thresholds.json missing")
    ops = os.path.join(ctx.workdir, "ops.txt")
    if ctx.replay:
        rp = json.load(open(ctx.replay))
        sp = os.path.join(ctx.workdir, "spec.txt")
        specs_in = rp["case"].get("specs") or [rp["case"].get("spec", "")]
        open(sp, "w").write("\n".join(specs_in) + "\n")
        rc, out = sh([explorer, ops, "--spec", sp], env=ctx.env, timeout=3000)
    else:
        rc, out = sh([explorer, ops], env=ctx.env, timeout=3000)
    ctx.log(out.strip().split("\n")[-1] if out.strip() else "explorer silent")
    if rc != 0:
        ctx.oblige("run:explorer", False, out[-800:])
        return ctx.finish()
    specs = {}
    interrupts = {}
    edits = {}
    cur = ""
    for line in open(ops):
        if line.startswith("case "):
            cur = line.split()[1]
        elif line.startswith("edit ") and cur:
            edits[cur] = line.rstrip("\n")[5:]
        if line.startswith("spec "):
            _, cid, rest = line.rstrip("\n").split(" ", 2)
            specs[cid] = rest
        elif line.startswith("interrupt "):
            icid, ikv = parse_kv_line(line.rstrip("\n").split(" ", 1)[1])
            interrupts[icid] = ikv
    pre = os.path.join(ctx.workdir, "thr.txt")
    with open(pre, "w") as f:
        for key, v in sorted(thr.items()):
            lang, size = key.split("/")
            f.write("thr %s %s %d %d %d %d\n" % (lang, size, v["lexed_ppm"], v["bytes_ppm"], v["fresh_ppm"], v["freshvis_ppm"]))
        for lang in sorted(HIGH_VARIANCE):
            f.write("nogrowth %s\n" % lang)
    fin = os.path.join(ctx.workdir, "fin.txt")
    open(fin, "w").write("finish\n")
    rc, out = sh("cat %s %s %s | %s" % (pre, ops, fin, driver), timeout=3000)
    evals = judge_bad = growth_n = growth_bad = marks_checked = 0
    base_evals = intr_evals = intr_bad = growth_skipped_interrupted = 0
    measured = {}
    measured_intr = {}
    table = []
    samples = []
    for line in out.split("\n"):
        if not line.strip():
            continue
        cid, kv = parse_kv_line(line)
        if "judge" not in kv:
            continue
        if cid.startswith("growth-"):
            if ctx.replay and "fewer than two sizes" in kv["judge"]:
                continue   # replay of a single (size, position) case: nothing to compare
            if "@" in cid and "fewer than two sizes" in kv["judge"]:
                growth_skipped_interrupted += 1   # this drive was cancelled at one size only (counted below)
                continue
            growth_n += 1
            if kv["judge"] != "ok" and not calibrate:
                growth_bad += 1
                _, lang, wher = cid.split("-", 2)
                sp = [v for k, v in specs.items() if k.startswith(lang + "-") and k.endswith("-" + wher)]
                ctx.violation("judge", "re-parse cost grows with document size: " + kv["judge"],
                              {"case": cid, "specs": sp, "spec": sp[-1] if sp else "", "result": kv},
                              fingerprint={"lang": lang, "clause": "growth"})
            continue
        evals += 1
        lang, size, wher = cid.split("-")
        key = "%s/%s" % (lang, size)
        interrupted = "@" in wher
        intr = interrupts.get(cid, {}) if interrupted else {}
        # thresholds are calibrated on uninterrupted re-parses only; interrupted drives are judged against them
        m = (measured_intr if interrupted else measured).setdefault(key, {k: 0 for k in METRICS})
        for k in METRICS:
            m[k] = max(m[k], int(kv.get(k, "0") or 0))
        marks_checked += kv.get("marks") == "ok"
        base_evals += not interrupted
        intr_evals += interrupted
        table.append({"case": cid, **({"interrupted": intr} if interrupted else {}), **{k: int(kv.get(k, "0") or 0) for k in METRICS},
                      "tokens": int(kv.get("tokens", "0") or 0), "lexed": int(kv.get("lexed", "0") or 0),
                      "heap_nodes": int(kv.get("heap", "0") or 0), "marked": int(kv.get("marked", "0") or 0),
                      "cand_prem": kv.get("cand_prem", "-"), "descended": kv.get("desc", "-"), "tips": kv.get("tips", "-"), "tips_bound": kv.get("tips_bound", "-"),
                      "reuse_candidates": kv.get("cand", "-"), "cand_bound": kv.get("cand_bound", "-"),
                      "uncovered_new_nodes": kv.get("uncovered", "-"), "stray_uncovered": kv.get("stray", "-"), "work_bound": kv.get("work_bound", "-"),
                      "repeat_chains": int(kv.get("chains", "0") or 0), "chain_max_elems": int(kv.get("chain_max_elems", "0") or 0),
                      "chain_max_height": int(kv.get("chain_max_height", "0") or 0), "balance_slack": int(kv.get("balance_slack", "0") or 0)})
        if len(samples) < 4 and evals % 13 == 1:
            samples.append({"case": cid, "spec": specs.get(cid, ""), "result": kv})
        if kv["judge"] != "ok" and not (calibrate and "threshold" in kv["judge"]):
            judge_bad += 1
            if interrupted:
                intr_bad += 1
                # replay spec with the cancel point made explicit (`<pos>@k<i>[,<j>]`, 0-based callback indices over the whole drive)
                rspec = specs.get(cid, "")
                if intr.get("cancel_at", "-") not in ("-", "") and "@" in rspec and "@k" not in rspec:
                    f4 = rspec.split(" ")
                    f4[2] = f4[2].split("@")[0] + "@k" + intr["cancel_at"]
                    rspec = " ".join(f4)
                ctx.violation("judge", "C12 judge failed on the real re-parse INTERRUPTED by the progress callback at callback(s) %s of %s "
                              "and resumed (sums over %s runs; lexed per run %s, bytes served per run %s): %s"
                              % (intr.get("cancel_at", "?"), intr.get("callbacks_uncancelled", "?"), intr.get("runs", "?"),
                                 intr.get("lexed_per_run", "?"), intr.get("bytes_per_run", "?"), kv["judge"]),
                              {"case": cid, "spec": rspec, "spec_as_scheduled": specs.get(cid, ""), "cancel_at_callbacks": intr.get("cancel_at", ""),
                               "edit": edits.get(cid, ""), "interrupt": intr, "result": kv},
                              fingerprint={"lang": lang, "clause": kv["judge"][:50], "interrupted": True})
                continue
            ctx.violation("judge", "C12 judge failed on the real re-parse: " + kv["judge"],
                          {"case": cid, "spec": specs.get(cid, ""), "result": kv},
                          fingerprint={"lang": lang, "clause": kv["judge"][:50]})
    if calibrate:
        new = {key: {k: threshold(k, v[k], key.split("/")[0]) for k in METRICS} for key, v in measured.items()}
        merged = dict(thr)
        merged.update(new)
        json.dump({"comment": "per language/size: ppm thresholds = max(2 %, 5 x max measured over edit positions) on the reference tree; "
                              "fresh_ppm capped half-way to 100 %. Written only by VERIF_C12_CALIBRATE=1 ./check C12 --tier thorough",
                   "measured_max_ppm": measured, "thresholds": merged}, open(THR, "w"), indent=1, sort_keys=True)
        ctx.log("calibrated thresholds written to " + THR)
    if not ctx.replay:
        ctx.oblige("run:all-cases-built", base_evals >= 96 and growth_n >= 42, "evals=%d growth=%d" % (base_evals, growth_n))
        n_att = len(interrupts)
        n_can = len([1 for v in interrupts.values() if int(v.get("cancelled", "0")) > 0])
        n_done = len([1 for v in interrupts.values() if v.get("completed") == "1"])
        ctx.oblige("run:interrupted-drives", n_att >= 32 and n_done == n_att and 4 * n_can >= 3 * n_att and intr_evals == n_can,
                   "attempted=%d completed=%d actually-cancelled=%d judged=%d" % (n_att, n_done, n_can, intr_evals))
    ctx.coverage["reparse_work_premise"] = {
        "what": "premise of reparse_work_bound_partial: no uncovered node of the new tree fails to reach the edit (stray = 0)",
        "cases_evaluated": len([r for r in table if r["stray_uncovered"] != "-"]),
        "cases_where_it_holds": len([r for r in table if r["stray_uncovered"] == "0"])}
    modes = {}
    for icid, v in interrupts.items():
        mo = modes.setdefault(icid.split("@", 1)[1], {"attempted": 0, "cancelled": 0})
        mo["attempted"] += 1
        mo["cancelled"] += int(v.get("cancelled", "0")) > 0
    ctx.coverage["interrupted_drives"] = {
        "what": "re-parse of the same single-token edit cancelled by the progress callback (Break at the listed 0-based callback "
                "invocation(s); the callback fires every 100 parse operations) and resumed by parse-without-reset until complete; "
                "lexed tokens / served bytes summed over all runs of the drive, sharing = edited old tree vs final tree; same judge, same thresholds",
        "attempted": len(interrupts),
        "actually_cancelled": len([1 for v in interrupts.values() if int(v.get("cancelled", "0")) > 0]),
        "cancelled_twice": len([1 for v in interrupts.values() if int(v.get("cancelled", "0")) > 1]),
        "total_cancellations": sum(int(v.get("cancelled", "0")) for v in interrupts.values()),
        "resume_parsing_log_events": sum(int(v.get("resume_events", "0")) for v in interrupts.values()),
        "completed": len([1 for v in interrupts.values() if v.get("completed") == "1"]),
        "judged": intr_evals, "judge_failed": intr_bad,
        "by_mode": modes,
        "callbacks_uncancelled_min_max": [min([int(v.get("callbacks_uncancelled", "0")) for v in interrupts.values()] or [0]),
                                          max([int(v.get("callbacks_uncancelled", "0")) for v in interrupts.values()] or [0])],
        "growth_comparisons_skipped_one_size_only": growth_skipped_interrupted,
        "measured_max_ppm": measured_intr,
        "drives": interrupts}
    ctx.coverage["edit_candidates_total_bound"] = {
        "what": "Round11b theorem decided on the real before/after dumps of ts_tree_edit: premises clean/noCol/tiles on the tree before the edit; "
                "tips <= w+la+2+Z, descended <= that*(h+1), reuse candidates (maximal unmarked subtrees) <= 1+that*(h+1)*fanout; a failure is a judge failure",
        "cases_evaluated": len([r for r in table if r["cand_prem"] != "-"]),
        "cases_where_premises_hold": len([r for r in table if r["cand_prem"] == "1"]),
        "max_tips": max([int(r["tips"]) for r in table if r["tips"] != "-"] or [0]),
        "max_reuse_candidates": max([int(r["reuse_candidates"]) for r in table if r["reuse_candidates"] != "-"] or [0])}
    ctx.coverage.update({
        "evaluations": evals + growth_n, "distinct_nontrivial": evals,
        "rule": "one evaluation = one (language, document size, edit position) re-parse on the real runtime plus one growth comparison per "
                "(language, edit position); languages lst, arith, jsonish, stmt the GLR grammar cdecl (dynamic-precedence ambiguity `t * p;` every 40 units) the indentation grammar pyish and markscan (stateful external scanners; markscan's token sits in the middle of statements) and declscan (STATELESS external scanner; documents without any external token, the edit `7` -> `q!` adds the first one); sizes 10^3, 10^4 (thorough: 10^5) tokens; positions start, 25 %, "
                "50 %, 75 %, end, inside a 24-deep block; the edit replaces one numeric token (the token sequence changes, the document stays "
                "error-free, incremental tree == scratch tree is required); every case is non-trivial (>= 10^3 tokens) and distinct by construction; "
                "plus (round 11) per language and size two interrupted drives `<pos>@<mode>` (cancelled by the progress callback early / in the middle / late / twice, "
                "resumed to completion, quantities summed over all runs, see coverage.interrupted_drives), counted only when at least one cancellation happened",
        "samples": samples, "measurements": table, "measured_max_ppm": measured, "thresholds": thr,
        "correspondence": {"compared": marks_checked, "equal": marks_checked,
                           "what": "statements of marked_bound / unmarked_shared (+ upper side) decided on real before/after dumps of ts_tree_edit"},
        "judge": {"evaluated": evals + growth_n, "passed": evals + growth_n - judge_bad - growth_bad},
        "impl_vs_judge_failures": judge_bad + growth_bad, "model_vs_impl_disagreements": 0,
    })
    if evals == 0:
        ctx.oblige("run:driver-produced-results", False, out[-500:])
    # concrete failing inputs first (checklib prints the first five)
    ctx.violations.sort(key=lambda v: not v["found_input"])
    return ctx.finish()
