"""C12 — Re-parsing after a small edit reuses the unchanged parts of the old tree.

Proof: TsVerif/C12/Props.lean over C10's port of ts_subtree_edit (marked_bound, unmarked_shared,
edit_same_or_marked).  Measurement on the REAL runtime (harness/src/bin/c12.rs): per generated
error-free document of 10^3 / 10^4 (/ 10^5) tokens and single-token edit, the number of
lexed_lookahead log events, the bytes handed out by a counting 4-byte-chunk read callback, and
the internal dumps before the edit / after ts_tree_edit / after the re-parse.  Judge (Lean,
TsVerif/C12/Judge.lean, run by tsv-c12): fractions vs the committed checks/c12_thresholds.json,
growth between sizes, and the marking theorems' statements decided on the real dumps.

Calibration (only by hand, on the reference tree):  VERIF_C12_CALIBRATE=1 ./check C12 --tier thorough
rewrites checks/c12_thresholds.json from the measured values (5x, floor 2 %; the all-heap-node
sharing metric additionally capped half-way between the measured value and 100 %)."""
import json
import os
from checklib import sh, parse_kv_line, ROOT

THR = os.path.join(ROOT, "checks", "c12_thresholds.json")
FLOOR = 20000  # 2 % in ppm
METRICS = ("lexed_ppm", "bytes_ppm", "fresh_ppm", "freshvis_ppm")


# Languages whose re-parse cost has a large document-dependent variance on the reference tree
# (pyish: after zero-width DEDENTs the runtime skips a whole sibling subtree on a scanner-state
# mismatch, see notes/C12.md): wider floor, no growth comparison.
HIGH_VARIANCE = {"pyish": 250000}


def threshold(metric, measured, lang=None):
    t = max(FLOOR, 5 * measured)
    if lang in HIGH_VARIANCE and metric in ("lexed_ppm", "bytes_ppm", "freshvis_ppm"):
        t = max(t, HIGH_VARIANCE[lang])
    if metric == "fresh_ppm":
        # hidden repeat nodes are rebuilt along the whole top-level spine on the reference tree
        # (~20-26 % of heap nodes): 5x would exceed 100 %, so cap half-way to 100 %
        t = min(t, measured + (1000000 - measured) // 2)
    return min(t, 1000000)


def run(ctx):
    ctx.extra_lean_dirs = ["C10", "C01"]
    ctx.trusted += [
        "hand port TsVerif/C10/Model.lean of ts_subtree_edit (tied by C10's correspondence; here its marking statements are re-decided on real dumps)",
        "the public logger (lexed_lookahead events) and the harness's counting read callback as measurements",
        "node identity = heap address in the dumps of harness/csrc/shim.c (old tree kept alive during the re-parse)",
        "committed thresholds checks/c12_thresholds.json (calibrated once on the reference tree)"]
    ctx.assumptions += ["documents are error-free and generated (grammar-directed units + one deep block), single numeric-token replacement",
                        "constants and wall-clock cost are runtime behaviour: measured, not proved"]
    ctx.regen()
    ctx.prove(["TsVerif.C12.Props"], "TsVerif/C12/Audit.lean")
    driver = ctx.build_driver("tsv-c12")
    explorer = ctx.cargo_bin("c12")
    if not (explorer and os.path.exists(driver)):
        return ctx.finish()
    calibrate = os.environ.get("VERIF_C12_CALIBRATE") == "1"
    thr = {}
    if os.path.exists(THR):
        thr = json.load(open(THR)).get("thresholds", {})
    elif not calibrate:
        ctx.oblige("tie:thresholds-file", False, "checks/c12_thresholds.json missing")
    ops = os.path.join(ctx.workdir, "ops.txt")
    if ctx.replay:
        rp = json.load(open(ctx.replay))
        sp = os.path.join(ctx.workdir, "spec.txt")
        specs_in = rp["case"].get("specs") or [rp["case"].get("spec", "")]
        open(sp, "w").write("\n".join(specs_in) + "\n")
        rc, out = sh([explorer, ops, "--spec", sp], env=ctx.env, timeout=3000)
    else:
        rc, out = sh([explorer, ops], env=ctx.env, timeout=3000)
    ctx.log(out.strip().split("\n")[-1] if out.strip() else "explorer silent")
    if rc != 0:
        ctx.oblige("run:explorer", False, out[-800:])
        return ctx.finish()
    specs = {}
    for line in open(ops):
        if line.startswith("spec "):
            _, cid, rest = line.rstrip("\n").split(" ", 2)
            specs[cid] = rest
    pre = os.path.join(ctx.workdir, "thr.txt")
    with open(pre, "w") as f:
        for key, v in sorted(thr.items()):
            lang, size = key.split("/")
            f.write("thr %s %s %d %d %d %d\n" % (lang, size, v["lexed_ppm"], v["bytes_ppm"], v["fresh_ppm"], v["freshvis_ppm"]))
        for lang in sorted(HIGH_VARIANCE):
            f.write("nogrowth %s\n" % lang)
    fin = os.path.join(ctx.workdir, "fin.txt")
    open(fin, "w").write("finish\n")
    rc, out = sh("cat %s %s %s | %s" % (pre, ops, fin, driver), timeout=3000)
    evals = judge_bad = growth_n = growth_bad = marks_checked = 0
    measured = {}
    table = []
    samples = []
    for line in out.split("\n"):
        if not line.strip():
            continue
        cid, kv = parse_kv_line(line)
        if "judge" not in kv:
            continue
        if cid.startswith("growth-"):
            if ctx.replay and "fewer than two sizes" in kv["judge"]:
                continue   # replay of a single (size, position) case: nothing to compare
            growth_n += 1
            if kv["judge"] != "ok" and not calibrate:
                growth_bad += 1
                _, lang, wher = cid.split("-", 2)
                sp = [v for k, v in specs.items() if k.startswith(lang + "-") and k.endswith("-" + wher)]
                ctx.violation("judge", "re-parse cost grows with document size: " + kv["judge"],
                              {"case": cid, "specs": sp, "spec": sp[-1] if sp else "", "result": kv},
                              fingerprint={"lang": lang, "clause": "growth"})
            continue
        evals += 1
        lang, size, wher = cid.split("-")
        key = "%s/%s" % (lang, size)
        m = measured.setdefault(key, {k: 0 for k in METRICS})
        for k in METRICS:
            m[k] = max(m[k], int(kv.get(k, "0") or 0))
        marks_checked += kv.get("marks") == "ok"
        table.append({"case": cid, **{k: int(kv.get(k, "0") or 0) for k in METRICS},
                      "tokens": int(kv.get("tokens", "0") or 0), "lexed": int(kv.get("lexed", "0") or 0),
                      "heap_nodes": int(kv.get("heap", "0") or 0), "marked": int(kv.get("marked", "0") or 0),
                      "uncovered_new_nodes": kv.get("uncovered", "-"), "stray_uncovered": kv.get("stray", "-"), "work_bound": kv.get("work_bound", "-"),
                      "repeat_chains": int(kv.get("chains", "0") or 0), "chain_max_elems": int(kv.get("chain_max_elems", "0") or 0),
                      "chain_max_height": int(kv.get("chain_max_height", "0") or 0), "balance_slack": int(kv.get("balance_slack", "0") or 0)})
        if len(samples) < 4 and evals % 13 == 1:
            samples.append({"case": cid, "spec": specs.get(cid, ""), "result": kv})
        if kv["judge"] != "ok" and not (calibrate and "threshold" in kv["judge"]):
            judge_bad += 1
            ctx.violation("judge", "C12 judge failed on the real re-parse: " + kv["judge"],
                          {"case": cid, "spec": specs.get(cid, ""), "result": kv},
                          fingerprint={"lang": lang, "clause": kv["judge"][:50]})
    if calibrate:
        new = {key: {k: threshold(k, v[k], key.split("/")[0]) for k in METRICS} for key, v in measured.items()}
        merged = dict(thr)
        merged.update(new)
        json.dump({"comment": "per language/size: ppm thresholds = max(2 %, 5 x max measured over edit positions) on the reference tree; "
                              "fresh_ppm capped half-way to 100 %. Written only by VERIF_C12_CALIBRATE=1 ./check C12 --tier thorough",
                   "measured_max_ppm": measured, "thresholds": merged}, open(THR, "w"), indent=1, sort_keys=True)
        ctx.log("calibrated thresholds written to " + THR)
    if not ctx.replay:
        ctx.oblige("run:all-cases-built", evals >= 96 and growth_n >= 42, "evals=%d growth=%d" % (evals, growth_n))
    ctx.coverage["reparse_work_premise"] = {
        "what": "premise of reparse_work_bound_partial: no uncovered node of the new tree fails to reach the edit (stray = 0)",
        "cases_evaluated": len([r for r in table if r["stray_uncovered"] != "-"]),
        "cases_where_it_holds": len([r for r in table if r["stray_uncovered"] == "0"])}
    ctx.coverage.update({
        "evaluations": evals + growth_n, "distinct_nontrivial": evals,
        "rule": "one evaluation = one (language, document size, edit position) re-parse on the real runtime plus one growth comparison per "
                "(language, edit position); languages lst, arith, jsonish, stmt the GLR grammar cdecl (dynamic-precedence ambiguity `t * p;` every 40 units) the indentation grammar pyish and markscan (stateful external scanners; markscan's token sits in the middle of statements) and declscan (STATELESS external scanner; documents without any external token, the edit `7` -> `q!` adds the first one); sizes 10^3, 10^4 (thorough: 10^5) tokens; positions start, 25 %, "
                "50 %, 75 %, end, inside a 24-deep block; the edit replaces one numeric token (the token sequence changes, the document stays "
                "error-free, incremental tree == scratch tree is required); every case is non-trivial (>= 10^3 tokens) and distinct by construction",
        "samples": samples, "measurements": table, "measured_max_ppm": measured, "thresholds": thr,
        "correspondence": {"compared": marks_checked, "equal": marks_checked,
                           "what": "statements of marked_bound / unmarked_shared (+ upper side) decided on real before/after dumps of ts_tree_edit"},
        "judge": {"evaluated": evals + growth_n, "passed": evals + growth_n - judge_bad - growth_bad},
        "impl_vs_judge_failures": judge_bad + growth_bad, "model_vs_impl_disagreements": 0,
    })
    if evals == 0:
        ctx.oblige("run:driver-produced-results", False, out[-500:])
    # concrete failing inputs first (checklib prints the first five)
    ctx.violations.sort(key=lambda v: not v["found_input"])
    return ctx.finish()
