"""C04 — Changed ranges cover every position whose ancestor chain changed.

Proof: TsVerif/C04/Props.lean over hand ports of ts_range_array_add / _intersects /
_get_changed_ranges (Ranges.lean) and of the lock-step Iterator + ts_subtree_get_changed_ranges
(Iter.lean).  Tie: function-level correspondence against the real static C functions (unity build
cunit_c04), system-level correspondence of the whole port against Tree::changed_ranges on real
histories (full dumps of both trees).  Judge (Lean, from the dumps): ranges sorted, disjoint,
inside the document, every byte whose stack of visible node types differs is covered."""
import hashlib
import json
import os
from checklib import sh, parse_kv_line


def build_cunit(ctx):
    """Unity build of cunit_c04.c.  The direct test of the STATIC ts_range_array_add needs that name; if the
    compile fails only because of it (renamed / inlined helper: a harmless rewrite) the build is repeated
    without the direct calls — `add` stays covered through the non-static entry points and at system level."""
    import checklib
    exe = os.path.join(ctx.workdir, "tsv-cunit_c04")
    src = os.path.join(checklib.HARNESS, "csrc", "cunit_c04.c")
    base = ["cc", "-std=c11", "-O1", "-w", "-D_POSIX_C_SOURCE=200112L", "-D_DEFAULT_SOURCE",
            "-DTSV_REPO_LIB_C=\"%s/lib/src/lib.c\"" % checklib.REPO,
            "-I", checklib.REPO + "/lib/src", "-I", checklib.REPO + "/lib/src/wasm", "-I", checklib.REPO + "/lib/include", src, "-o", exe]
    rc, out = sh(base)
    if rc == 0:
        ctx.coverage["static_add_direct_calls"] = True
        return exe
    rc2, out2 = sh(base[:5] + ["-DTSV_NO_STATIC_ADD"] + base[5:])
    if rc2 == 0:
        ctx.coverage["static_add_direct_calls"] = False
        ctx.notes.append("static ts_range_array_add not reachable by name: direct call sequences skipped (still covered via ts_range_array_get_changed_ranges and ts_tree_get_changed_ranges)")
        return exe
    ctx.oblige("build:tsv-cunit_c04", False, out[-1200:])
    return None


def run(ctx):
    ctx.trusted += [
        "hand ports TsVerif/C04/Ranges.lean and Iter.lean of lib/src/get_changed_ranges.c (tied by correspondence: "
        "every static range function against the unity build, the whole algorithm against ts_tree_get_changed_ranges on dumps of real trees)",
        "harness/src/bin/c04.rs reads TSLanguage.alias_sequences through a #[repr(C)] mirror of the struct prefix in lib/src/parser.h (ABI 13-15)",
        "the judge's scope stacks follow the visibility/alias rule of tree_cursor.c (visible symbol or aliased non-extra slot; type = public symbol)",
    ]
    ctx.assumptions += [
        "range lists handed to the symmetric difference are what ts_lexer_set_included_ranges accepts and no range starts at UINT32_MAX "
        "(otherwise the C loop reads ranges[count]; see notes/C04.md)",
        "no included range STARTS beyond the end of the text (then the tree itself lies outside the document)",
        "coverage theorem changed_covers is OPEN (needs MatchSound); coverage is decided per case by the judge",
    ]
    ctx.regen()
    ctx.prove(["TsVerif.C04.Props", "TsVerif.C04.Round11"], "TsVerif/C04/Audit.lean")
    driver = ctx.build_driver("tsv-c04")
    explorer = ctx.cargo_bin("c04")
    cunit = build_cunit(ctx)
    if not (explorer and cunit and os.path.exists(driver)):
        return ctx.finish()
    ops = os.path.join(ctx.workdir, "ops.txt")
    if ctx.replay:
        rp = json.load(open(ctx.replay))
        spec = os.path.join(ctx.workdir, "spec.txt")
        open(spec, "w").write(rp["case"].get("spec", "") + "\n")
        rc, out = sh([explorer, ops, "--spec", spec], env=ctx.env, timeout=3000)
    else:
        rc, out = sh([explorer, ops], env=ctx.env, timeout=3000)
    ctx.log(out.strip().split("\n")[-1] if out.strip() else "explorer silent")
    if rc != 0:
        ctx.oblige("run:explorer", False, out[-800:])
        return ctx.finish()
    specs, flines = {}, {}
    for line in open(ops):
        if line.startswith("spec "):
            _, cid, rest = line.rstrip("\n").split(" ", 2)
            specs[cid] = rest
        elif line.startswith("F "):
            p = line.split(" ", 3)
            flines[p[1]] = line.rstrip("\n")
    rc, mout = sh("%s < %s" % (driver, ops), timeout=3000)
    rc2, cout = sh([cunit, ops], timeout=3000)
    if rc2 != 0:
        ctx.oblige("run:cunit_c04", False, cout[-500:])
    impl_f = {}
    for line in cout.split("\n"):
        if line.strip():
            cid, kv = parse_kv_line(line)
            impl_f[cid] = kv.get("out")
    f_cmp = f_bad = f_skip = 0
    f_kinds = {"add": 0, "isect": 0, "symdiff": 0}
    f_nonempty = 0
    evals = judge_bad = corr_bad = 0
    distinct = set()
    samples = []
    agg = {"reported_ranges": 0, "diff_bytes": 0, "overreported_bytes": 0, "range_list_changed": 0,
           "trace_admissible_ok": 0, "match_sound_ok": 0, "matched_spans": 0, "add_calls": 0}
    langs = {}
    # BEHAVIOURAL choice of the model variant (Iter.lean `fixed`): the driver reports, per case, whether the port with
    # the fixed included-range override (corrF) and the port with the original one (corrA) reproduce the
    # implementation; the variant of /repo is the one that wins on the cases where the two differ (the corpus holds
    # the distinguishing inputs of the old defect).  No source text is inspected.
    nF = nA = 0
    cov_contra = 0
    csb_contra = 0
    for line in mout.split("\n"):
        if " corrF=" in line:
            _, kv0 = parse_kv_line(line)
            if kv0.get("corrF") != kv0.get("corrA"):
                nF += kv0.get("corrF") == "ok"
                nA += kv0.get("corrA") == "ok"
    variant = "asis" if nA > nF else "fixed"
    ctx.coverage["override_variant"] = {"chosen": variant, "distinguishing_cases": nF + nA, "fixed_wins": nF, "asis_wins": nA}
    for line in mout.split("\n"):
        if not line.strip():
            continue
        cid, kv = parse_kv_line(line)
        if cid in flines:
            f_cmp += 1
            op = flines[cid].split(" ")[2]
            f_kinds[op] = f_kinds.get(op, 0) + 1
            if kv.get("out") not in ("-", "0"):
                f_nonempty += 1
            if impl_f.get(cid) == "SKIP":
                f_skip += 1
            elif impl_f.get(cid) != kv.get("out"):
                f_bad += 1
                ctx.violation("corr", "Lean port and C function disagree on %s: model=%s impl=%s" % (op, kv.get("out"), impl_f.get(cid)),
                              {"case": cid, "line": flines[cid], "model": kv.get("out"), "impl": impl_f.get(cid),
                               "correspondence": "TsVerif.C04.%s vs lib/src/get_changed_ranges.c" % op},
                              fingerprint={"level": "function", "op": op}, found_input=False)
            continue
        if "corr" not in kv:
            continue
        evals += 1
        lang = cid.rsplit("-", 1)[0]
        langs[lang] = langs.get(lang, 0) + 1
        db = int(kv.get("diffbytes", "0") or 0)
        agg["reported_ranges"] += int(kv.get("nr", "0") or 0)
        agg["diff_bytes"] += db
        agg["overreported_bytes"] += int(kv.get("same", "0") or 0)
        agg["range_list_changed"] += int(kv.get("rchg", "0") or 0)
        agg["trace_admissible_ok"] += 1 if kv.get("mono") == "ok" else 0
        agg["match_sound_ok"] += 1 if kv.get("msound") == "ok" else 0
        c = kv.get("cov", "?")
        agg.setdefault("changed_covers_hypotheses", {})
        agg["changed_covers_hypotheses"][c] = agg["changed_covers_hypotheses"].get(c, 0) + 1
        if c == "ok" and kv["judge"] != "ok" and "stacks differ" in kv["judge"]:
            cov_contra += 1
        pr = kv.get("prem", "?")
        agg.setdefault("changed_sorted_bounded_premises", {})
        agg["changed_sorted_bounded_premises"][pr] = agg["changed_sorted_bounded_premises"].get(pr, 0) + 1
        if pr == "ok" and kv.get("concl") != "ok":
            csb_contra += 1
        agg["walk_reaches_end_of_shorter_tree"] = agg.get("walk_reaches_end_of_shorter_tree", 0) + (kv.get("reach") == "1")
        agg["roots_visible"] = agg.get("roots_visible", 0) + (kv.get("root") == "1")
        if pr == "ok" and kv.get("root") == "1" and kv.get("reach") != "1":
            csb_contra += 1   # would contradict walk_reaches_end
        agg["matched_spans"] += int(kv.get("matched", "0") or 0)
        agg["add_calls"] += int(kv.get("calls", "0") or 0)
        if db > 0 or kv.get("rchg") == "1":
            distinct.add(hashlib.sha1(specs.get(cid, cid).encode()).hexdigest())
        if len(samples) < 5 and evals % 211 == 1:
            samples.append({"case": cid, "spec": specs.get(cid, "")[:300], "result": kv})
        payload = {"case": cid, "spec": specs.get(cid, ""), "result": kv}
        if kv["judge"] != "ok":
            judge_bad += 1
            ctx.violation("judge", "C04 judge failed on the implementation's changed ranges: " + kv["judge"], payload,
                          fingerprint={"lang": lang, "clause": kv["judge"][:30], "cause": kv.get("cause", "other")})
        elif kv.get("corrF" if variant == "fixed" else "corrA", kv["corr"]) != "ok":
            kv["corr"] = kv.get("corrmsg", "DIFF")
            corr_bad += 1
            payload["correspondence"] = "TsVerif.C04.treeChangedRanges vs lib/src/tree.c:ts_tree_get_changed_ranges"
            ctx.violation("corr", "Lean port and ts_tree_get_changed_ranges disagree: " + kv["corr"][:300], payload,
                          fingerprint={"lang": lang, "corr": "diff"}, found_input=False)
        elif kv.get("mono") != "ok":
            # hypothesis of changed_sorted_bounded_partial not met on a real case: the theorem does not apply
            corr_bad += 1
            payload["hypothesis"] = "traceAdmissible (changed_sorted_bounded_partial)"
            ctx.violation("corr", "a call of the port to ts_range_array_add is not admissible (hypothesis of changed_sorted_bounded_partial): " + kv.get("mono", ""),
                          payload, fingerprint={"lang": lang, "corr": "shape"}, found_input=False)
    ctx.oblige("model:changed_covers-instance", cov_contra == 0 or corr_bad > 0,
               "%d cases with the hypotheses of changed_covers_partial true, port = implementation, and an uncovered differing byte (would contradict the theorem)" % cov_contra)
    ctx.oblige("model:changed_sorted_bounded-instance", csb_contra == 0,
               "%d cases with the premises of changed_sorted_bounded true (sized trees, entry inside both trees, fuel left) whose evaluated "
               "conclusions (admissible + growing calls, forward spans, non-empty ranges inside the longer tree; with visible roots: the walk reaches the end of the shorter tree) are false" % csb_contra)
    ctx.oblige("corr:ranges-functions=C", f_bad == 0 and (f_cmp > 0 or bool(ctx.replay)), "%d/%d disagreements" % (f_bad, f_cmp))
    ctx.oblige("corr:treeChangedRanges=ts_tree_get_changed_ranges", corr_bad == 0, "%d disagreements" % corr_bad)
    ctx.coverage.update({
        "evaluations": evals, "distinct_nontrivial": len(distinct),
        "rule": "zoo languages x grammar-directed documents (every 4th byte-mutated) x histories of 2-5 steps; a step = 0-4 random edits "
                "(Tree::edit) + optional new included-range list + re-parse with the edited old tree + Tree::changed_ranges; "
                "one evaluation = one step with full dumps of both trees; non-trivial := >=1 byte whose scope stack differs or the "
                "trees' range lists differ; distinct by hash of (language, text, initial ranges, steps)",
        "samples": samples, "totals": agg, "cases_per_language": langs,
        "function_level": {"compared": f_cmp, "equal": f_cmp - f_bad, "kinds": f_kinds, "nonempty_results": f_nonempty},
        "correspondence": {"compared": evals + f_cmp, "equal": evals + f_cmp - corr_bad - f_bad},
        "judge": {"evaluated": evals, "passed": evals - judge_bad},
        "impl_vs_judge_failures": judge_bad, "model_vs_impl_disagreements": corr_bad + f_bad,
    })
    if evals == 0:
        ctx.oblige("run:driver-produced-results", False, mout[-500:])
    if not ctx.replay and evals and len(distinct) * 5 < evals:
        ctx.oblige("generator:nontrivial-fraction>=20%", False, "%d/%d" % (len(distinct), evals))
    return ctx.finish()
