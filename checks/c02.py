"""C02 — Every parse terminates with a well-formed tree that tiles the text.

Proof: TsVerif/C02/Props.lean over the port of ts_subtree_summarize_children and the leaf
constructors (Model.lean) + generated length/point/error-cost definitions.
Tie: T-gen for the helpers; T-data for trees and language tables (real dumps); T-corr: every cached
summary of every inner node of every real tree is recomputed by the port and compared.
Judge: the property's clauses decided in Lean on the real trees (dump + public Node API + text).
Termination is guarded by a progress-callback operation budget (not proved)."""
import hashlib
import json
import os
import re
from checklib import sh, parse_kv_line

WIDE_VALID = "wide-valid:error-free"
FEATURES = ["hiddenvis", "alias", "extra", "err", "missing", "multiline", "zerowidth"]


def split_result(line):
    """`<id> corr=… inv=… judge=… raw=…` -> (id, corr, inv, judge, stats dict).  The free-text
    parts may contain blanks and '=', so the three verdict fields are cut out positionally."""
    m = re.match(r"(\S+) corr=(.*?) inv=(ok|BAD) judge=(.*?) raw=(\d+) (.*)$", line)
    if not m:
        m2 = re.match(r"(\S+) corr=(.*?) inv=(ok|BAD) judge=(.*)$", line)
        if not m2:
            return None
        return m2.group(1), m2.group(2), m2.group(3), m2.group(4), {}
    _, kv = parse_kv_line("x raw=%s %s" % (m.group(5), m.group(6)))
    return m.group(1), m.group(2), m.group(3), m.group(4), kv


def clauses(verdict):
    if verdict == "ok":
        return []
    m = re.match(r"FAIL (\S+)", verdict)
    return m.group(1).split("|") if m else ["unparsed"]


def detail(verdict, clause):
    m = re.search(re.escape(clause) + r": (.*?)(?: ; |$)", verdict.split(" :: ", 1)[-1])
    return m.group(1) if m else verdict[:300]


def run(ctx):
    ctx.trusted += [
        "hand port TsVerif/C02/Model.lean of ts_subtree_summarize_children / ts_subtree_new_leaf / new_missing_leaf / new_error / new_node "
        "(tied by recomputing every cached summary of every dumped real subtree)",
        "language tables dumped by harness/csrc/cunit_c02.c through the runtime's own accessors (unity build of /repo/lib/src/lib.c)",
        "the judge's reading of 'skipped whitespace/extra': Unicode White_Space for \\s extras, literal extras, the BOM at offset 0",
        "termination is NOT proved: every parse runs under a progress-callback budget of 200+40*len callbacks (x100 parser operations)",
    ]
    ctx.assumptions += ["documents < 4 GiB (nat arithmetic)",
                        "theorems about has_error / counts assume the tree satisfies Summarized (checked on every real tree by the correspondence) "
                        "and the parser shape invariant ShapeOK (checked on every real tree, reported as inv)"]
    ctx.regen()
    ctx.extra_lean_dirs = ["C10", "C09", "C13", "C01"]
    ctx.prove(["TsVerif.C02.Props", "TsVerif.C02.EditProps", "TsVerif.C02.BalanceProps", "TsVerif.C02.BalanceSumm", "TsVerif.C02.WidthProps", "TsVerif.C02.LexYields", "TsVerif.C02.ModelDriver", "TsVerif.C02.Round11", "TsVerif.C02.Round11b"], "TsVerif/C02/Audit.lean")
    driver = ctx.build_driver("tsv-c02")
    explorer = ctx.cargo_bin("c02")
    langdump = ctx.cunit("cunit_c02")
    if not (explorer and langdump and os.path.exists(driver)):
        return ctx.finish()
    ops = os.path.join(ctx.workdir, "ops.txt")
    cmd = [explorer, ops, "--langdump", langdump]
    if ctx.replay:
        rp = json.load(open(ctx.replay))
        spec = os.path.join(ctx.workdir, "spec.txt")
        open(spec, "w").write(rp["case"].get("spec", "") + "\n")
        cmd += ["--spec", spec]
    wide_aborted = False
    rc, out = sh(cmd, env=ctx.env, timeout=3000)
    last = out.strip().split("\n")[-1] if out.strip() else "explorer silent"
    ctx.log(last)
    if rc != 0:
        m = re.search(r"PARSE-TIMEOUT after (\d+)s spec=(.*)", out)
        if m:
            spec = m.group(2).strip()
            ctx.violation("judge", "termination: a parse did not return within %s s of wall-clock time (no progress callback reached): %s" % (m.group(1), spec[:200]),
                          {"spec": spec, "clause": "termination:timeout"},
                          fingerprint={"lang": spec.split(" ")[0], "clause": "termination:timeout"})
        wb = re.findall(r"^c02wide: begin spec=(.*)$", out, re.M)
        if ctx.replay and not m and rp["case"].get("clause") == "termination:abort":
            wb = [rp["case"].get("spec", "")]
        if wb and not m and "c02wide: done" not in out:
            # the process died (signal / runtime assertion) inside a parse of a zoo/c02wide document: that document is the replay
            spec = wb[-1].strip()
            ctx.violation("judge", "termination: the parse of a zoo/c02wide document (> 300 symbols) aborted the process "
                          "(rc %s; a runtime assertion or a crash): %s" % (rc, spec[:200]),
                          {"spec": spec, "clause": "termination:abort", "explorer_tail": out[-600:]},
                          fingerprint={"lang": "c02wide", "clause": "termination:abort"})
            ctx.oblige("run:explorer", False, out[-800:])
            # the explorer flushes before every c02wide case: keep the complete cases written before the abort and judge them too
            data = open(ops, "rb").read() if os.path.exists(ops) else b""
            cut = data.rfind(b"\nrun\n")
            if ctx.replay or cut < 0:
                return ctx.finish()
            open(ops, "wb").write(data[:cut + 5])
            wide_aborted = True
        else:
            ctx.oblige("run:explorer", False, out[-800:])
            return ctx.finish()
    force_wide_valid = bool(ctx.replay) and rp["case"].get("clause") == WIDE_VALID
    wide = {"cases": 0, "valid_docs": 0, "valid_docs_error_free": 0, "literal_leaves": 0, "leaves": 0}
    specs = {}
    for line in open(ops, errors="replace"):
        if line.startswith("spec "):
            _, cid, rest = line.rstrip("\n").split(" ", 2)
            specs[cid] = rest
    rc, out = sh("%s < %s" % (driver, ops), timeout=3000)
    evals = 0
    distinct = set()
    samples = []
    kinds = {}
    feat = {k: 0 for k in FEATURES}
    totals = {"raw": 0, "vis": 0, "inner": 0, "leaves": 0, "literals": 0}
    sizes = {"0": 0, "1-15": 0, "16-255": 0, "256-4095": 0, "4096+": 0}
    corr_bad = judge_bad = inv_bad = 0
    bal = {"cases": 0, "changed": 0, "corr_bad": 0, "judge_bad": 0, "nodes": 0, "thm_in": 0, "thm_in_changed": 0, "thm_out": 0, "thm_bad": 0, "in_unsummarized": 0}
    bal_bad_cases = []
    per_clause = {}
    bom_docs = 0
    bom_langs = set()
    widths = {"measured": 0, "assumed": 0, "ok": False, "detail": "probe did not run"}
    widest = 0
    for line in out.split("\n"):
        if not line.strip():
            continue
        r = split_result(line)
        if r is None:
            continue
        cid, corr, inv, judge, kv = r
        if kv.get("widthcase") == "1":
            # widths of the cached fields of the real SubtreeHeapData (unity build) vs TsVerif.C02.assumedBits
            widths["measured"] = int(kv.get("measured", "0") or 0)
            widths["assumed"] = int(kv.get("assumed", "0") or 0)
            widths["ok"] = corr == "ok"
            widths["detail"] = detail(corr, "tie:field-widths") if corr != "ok" else "all fields hold what the model assumes"
            if corr != "ok":
                ctx.violation("tie", "a cached field of SubtreeHeapData is narrower than the Nat-valued model of ts_subtree_summarize_children assumes "
                              "(sums over the children would wrap): %s" % widths["detail"][:600],
                              {"case": cid, "clause": "tie:field-widths", "verdict": corr[:1500],
                               "correspondence": "TsVerif.C02.assumedBits vs lib/src/subtree.h:SubtreeHeapData (measured through the runtime's accessors)"},
                              fingerprint={"lang": "-", "clause": "tie:field-widths"}, found_input=False)
            continue
        if kv.get("balcase") == "1":
            # a rebalancing case: real ts_subtree_compress / ts_parser__balance_subtree on an unbalanced tree
            lang = cid.rsplit("-", 1)[0][4:]
            spec = specs.get(cid, "")
            bal["cases"] += 1
            bal["changed"] += int(kv.get("changed", "0") or 0)
            bal["nodes"] += int(kv.get("raw", "0") or 0)
            # balance_summarized / compress_symbol: hypotheses (input summarized, balanceOK / rotOK) and conclusion
            if kv.get("balin", "1") != "1":
                bal["in_unsummarized"] += 1
            elif kv.get("balhyp", "0") != "1":
                bal["thm_out"] += 1
            elif kv.get("balconcl", "0") == "1":
                bal["thm_in"] += 1
                bal["thm_in_changed"] += int(kv.get("changed", "0") or 0)
            else:
                bal["thm_bad"] += 1
                if len(bal_bad_cases) < 3:
                    bal_bad_cases.append("%s: %s" % (cid, spec[:100]))
            if corr != "ok":
                bal["corr_bad"] += 1
                for cl in clauses(corr):
                    per_clause[cl] = per_clause.get(cl, 0) + 1
                    if per_clause[cl] <= 3:
                        ctx.violation("corr", "the port of ts_subtree_compress / ts_parser__balance_subtree and the real code disagree (%s, case %s): %s"
                                      % (cl, cid, detail(corr, cl)),
                                      {"case": cid, "spec": spec, "clause": cl, "verdict": corr[:1500],
                                       "correspondence": "TsVerif.C02.compress / balance vs lib/src/subtree.c:ts_subtree_compress, lib/src/parser.c:ts_parser__balance_subtree"},
                                      fingerprint={"lang": lang, "clause": cl})
            if judge != "ok":
                bal["judge_bad"] += 1
                for cl in clauses(judge):
                    per_clause[cl] = per_clause.get(cl, 0) + 1
                    if per_clause[cl] <= 3:
                        ctx.violation("judge", "rebalancing changed what it must keep (%s, case %s): %s" % (cl, cid, detail(judge, cl)),
                                      {"case": cid, "spec": spec, "clause": cl, "verdict": judge[:1500], "stats": kv},
                                      fingerprint={"lang": lang, "clause": cl})
            continue
        evals += 1
        lang = cid.rsplit("-", 1)[0]
        spec = specs.get(cid, "")
        kind = kv.get("kind", "?")
        kinds[kind] = kinds.get(kind, 0) + 1
        for k in totals:
            totals[k] += int(kv.get(k, "0") or 0)
        nb = int(kv.get("bytes", "0") or 0)
        widest = max(widest, int(kv.get("maxvcc", "0") or 0))
        sizes["0" if nb == 0 else "1-15" if nb < 16 else "16-255" if nb < 256 else "256-4095" if nb < 4096 else "4096+"] += 1
        nontrivial = False
        for k in FEATURES:
            if int(kv.get(k, "0") or 0) > 0:
                feat[k] += 1
                nontrivial = True
        if nontrivial:
            distinct.add(hashlib.sha1(spec.encode()).hexdigest())
        # BOM-prefixed documents whose first token follows the byte order mark directly (=> nodes on row 0)
        sp = spec.split(" ")
        if len(sp) >= 2 and sp[1].startswith("efbbbf") and len(sp[1]) > 6 and sp[1][6:8] not in ("20", "09", "0a", "0d") \
                and int(kv.get("raw", "0") or 0) > 0:
            bom_docs += 1
            bom_langs.add(lang)
        if len(samples) < 6 and evals % 397 == 1:
            samples.append({"case": cid, "spec": spec[:200], "verdict": {"corr": corr[:80], "inv": inv, "judge": judge[:120]}, "stats": kv})
        if lang == "c02wide":
            wide["cases"] += 1
            wide["leaves"] += int(kv.get("leaves", "0") or 0)
            wide["literal_leaves"] += int(kv.get("literals", "0") or 0)
            if kind == "wide-valid" or force_wide_valid:
                # documents valid by construction (harness/src/bin/c02.rs:wide_docs) must parse without ERROR / MISSING
                wide["valid_docs"] += 1
                nerr, nmiss = int(kv.get("err", "0") or 0), int(kv.get("missing", "0") or 0)
                if nerr == 0 and nmiss == 0 and int(kv.get("raw", "0") or 0) > 0:
                    wide["valid_docs_error_free"] += 1
                else:
                    judge_bad += 1 if judge == "ok" else 0
                    per_clause[WIDE_VALID] = per_clause.get(WIDE_VALID, 0) + 1
                    if per_clause[WIDE_VALID] <= 3:
                        ctx.violation("judge", "a document of zoo/c02wide that is valid by construction (every token id below and above 256) does not parse "
                                      "error-free: %d ERROR, %d MISSING nodes, %s raw nodes" % (nerr, nmiss, kv.get("raw", "?")),
                                      {"case": cid, "spec": spec, "clause": WIDE_VALID, "verdict": judge[:1500], "stats": kv},
                                      fingerprint={"lang": lang, "clause": WIDE_VALID})
        if judge != "ok":
            judge_bad += 1
            for cl in clauses(judge):
                per_clause[cl] = per_clause.get(cl, 0) + 1
                if per_clause[cl] <= 3 or cl.startswith(("has_error:error-leaf", "trailing_skippable")):
                    ctx.violation("judge", "C02 judge clause '%s' fails on the implementation's tree (%s): %s" % (cl, lang, detail(judge, cl)),
                                  {"case": cid, "spec": spec, "clause": cl, "verdict": judge[:1500], "stats": kv},
                                  fingerprint={"lang": lang, "clause": cl})
        if corr != "ok":
            corr_bad += 1
            for cl in clauses(corr):
                per_clause[cl] = per_clause.get(cl, 0) + 1
                if per_clause[cl] <= 3:
                    ctx.violation("corr", "model summarize and ts_subtree_summarize_children disagree (%s): %s" % (cl, detail(corr, cl)),
                                  {"case": cid, "spec": spec, "clause": cl, "verdict": corr[:1500],
                                   "correspondence": "TsVerif.C02.summarize vs lib/src/subtree.c:ts_subtree_summarize_children"},
                                  fingerprint={"lang": lang, "clause": cl}, found_input=False)
        if inv != "ok":
            inv_bad += 1
            if inv_bad <= 3:
                ctx.violation("corr", "parser shape invariant ShapeOK (hypothesis of has_error theorems) does not hold on a real tree",
                              {"case": cid, "spec": spec}, fingerprint={"lang": lang, "clause": "inv"}, found_input=False)
    ctx.oblige("corr:summarize=ts_subtree_summarize_children", corr_bad == 0, "%d trees with disagreements" % corr_bad)
    ctx.oblige("corr:ShapeOK-holds-on-real-trees", inv_bad == 0, "%d trees" % inv_bad)
    if not ctx.replay:
        ctx.oblige("tie:cached-field-widths-of-SubtreeHeapData-measured>=assumedBits(every count / cost / extent that grows with the document holds 32 bits; "
                   "all-ones heap record read back through ts_node_child_count, ts_node_named_child_count, ts_subtree_visible_descendant_count, ...)",
                   widths["ok"] and widths["measured"] >= widths["assumed"] > 0,
                   "%d fields measured, %d assumed: %s" % (widths["measured"], widths["assumed"], widths["detail"][:400]))
    ctx.coverage["field_widths"] = widths
    ctx.oblige("corr:compress/balance-port=ts_subtree_compress/ts_parser__balance_subtree(every field of every node of the real result)",
               bal["corr_bad"] == 0 and (bal["changed"] > 0 or bool(ctx.replay) or bal["cases"] == 0 and evals == 0),
               "%d rebalancing cases (%d changed the tree), %d disagree" % (bal["cases"], bal["changed"], bal["corr_bad"]))
    ctx.oblige("judge:rebalancing-keeps-leaves-root-extent-and-summaries(on the real results)", bal["judge_bad"] == 0,
               "%d of %d cases" % (bal["judge_bad"], bal["cases"]))
    ctx.oblige("corr:balance_summarized-conclusion-holds-wherever-its-hypotheses-hold(input summarized; balanceOK / rotOK: wherever ts_subtree_compress is called the "
               "nodes of the rotated symbol are hidden, non-extra, not MISSING, alias-free and the symbol is no error symbol; conclusion: every summary of the result and the face of the tree kept)",
               bal["thm_bad"] == 0 and (bal["thm_in_changed"] > 0 or bool(ctx.replay) or bal["cases"] == 0),
               "%d cases inside the theorem (%d of them changed the tree), %d outside (hypothesis false), %d with an unsummarized input, %d conclusion failures %s"
               % (bal["thm_in"], bal["thm_in_changed"], bal["thm_out"], bal["in_unsummarized"], bal["thm_bad"], "; ".join(bal_bad_cases)))
    ctx.coverage["balance_summarized_hypotheses"] = {"cases_inside": bal["thm_in"], "inside_and_tree_changed": bal["thm_in_changed"],
                                                     "cases_outside(hypothesis false: the artificial chain uses a VISIBLE symbol)": bal["thm_out"],
                                                     "inputs_not_summarized": bal["in_unsummarized"], "conclusion_failures": bal["thm_bad"]}
    ctx.coverage["rebalancing"] = {"cases": bal["cases"], "cases_where_the_tree_changed": bal["changed"], "nodes": bal["nodes"],
                                   "port_vs_real_disagreements": bal["corr_bad"], "judge_failures": bal["judge_bad"],
                                   "rule": "per zoo language 10 (thorough: 60) unbalanced trees built in the unity build (left-deep chains of a hidden "
                                           "symbol of the language, 2-70 levels, leaves or short chains on the right, zero-width and multi-line leaves; "
                                           "every third case with shared nodes, foreign symbols and one-child nodes); alternately "
                                           "ts_subtree_compress(count) and the whole ts_parser__balance_subtree"}
    ctx.coverage.update({
        "evaluations": evals, "distinct_nontrivial": len(distinct),
        "rule": "zoo languages x (grammar-directed sentences, byte-mutated sentences, each also after 1-4 random edits + re-parse with the "
                "edited old tree, and special documents: empty, whitespace, BOM directly before the first token / before the rendered sentence / multi-line / before a newline, BOM in the middle, CRLF, multi-line, NUL, invalid UTF-8 "
                "(7 kinds), NBSP/U+2028/astral, random bytes, token soup, long repeats, deep nesting); one evaluation = one real tree with "
                "full internal dump + public-API walk; non-trivial := the tree has a hidden node with visible children, an alias, an extra, "
                "an ERROR, a MISSING, a multi-line token or a zero-width token; distinct by hash of (language, text, edits)",
        "samples": samples, "kinds": kinds, "document_bytes": sizes, "trees_with_feature": feat, "node_totals": totals, "largest_visible_child_count": widest,
        "explorer_summary": last, "wide_symbol_grammar(zoo/c02wide, 361 symbols)": wide,
        "bom_prefixed_documents_with_a_token_on_row_0": {"documents": bom_docs, "languages": len(bom_langs)},
        "correspondence": {"compared": evals, "equal": evals - corr_bad, "inner_nodes_recomputed": totals["inner"]},
        "judge": {"evaluated": evals, "passed": evals - judge_bad},
        "failing_clauses": per_clause,
        "impl_vs_judge_failures": judge_bad, "model_vs_impl_disagreements": corr_bad, "shape_invariant_failures": inv_bad,
    })
    if evals == 0 and bal["cases"] == 0:
        ctx.oblige("run:driver-produced-results", False, out[-500:])
    elif not ctx.replay:
        if len(distinct) * 4 < evals:
            ctx.oblige("generator:nontrivial-fraction>=25%", False, "%d of %d" % (len(distinct), evals))
        # seed-independent by construction: corpus/c02.txt + the `bom` / `bom-multiline` special documents of every language
        # seed-independent: corpus/c02.txt has documents with >= 65 536 flat children under one node
        ctx.oblige("generator:has-node-with->=65536-visible-children(cached counts beyond 16 bits, judged like every other tree)",
                   widest >= 65536, "largest cached visible_child_count in an explored tree: %d" % widest)
        ctx.oblige("generator:zoo/c02wide(>300 symbols)-explored:valid documents with token ids on both sides of 256 parse error-free; "
                   "literal leaves judged kind = covered text",
                   wide["valid_docs"] >= 30 and wide["valid_docs"] == wide["valid_docs_error_free"] and wide["literal_leaves"] >= 700,
                   "%d cases, %d valid-by-construction documents (%d error-free), %d literal leaves of %d leaves"
                   % (wide["cases"], wide["valid_docs"], wide["valid_docs_error_free"], wide["literal_leaves"], wide["leaves"]))
        ctx.oblige("generator:BOM-prefixed-documents-with-a-token-on-row-0-for->=20-languages(UTF-8 EF BB BF; C02 drives UTF-8 only)",
                   len(bom_langs) >= 20, "%d documents, %d languages" % (bom_docs, len(bom_langs)))
    return ctx.finish()
