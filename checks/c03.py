"""C03 — A generated parser recognises exactly its grammar and builds its derivation.

Proof: TsVerif/C03/Props.lean (driver_no_fault, driver_yield, check_sound, enum_sound/oracle_sound,
select_tree_prefers_dynprec, pratt_*).  Tie: the parse table is dumped from the freshly generated,
compiled and loaded TSLanguage by the runtime's own lookup functions (cunit_c03); the Lean driver
runs the model LR driver on it and compares with the real parser (accept/reject + tree); the Lean
judge decides membership (independent enumerator), derivation (checkDerivation against grammar.json)
and the Pratt tree on the real parser's outputs."""
import hashlib
import json
import os
import subprocess
import re
from checklib import sh, parse_kv_line


def clause_of(judge):
    m = re.match(r"FAIL ([\w-]+)", judge)
    return m.group(1) if m else judge[:40]


def run(ctx):
    ctx.trusted += [
        "harness/csrc/cunit_c03.c (table dump through the runtime's own ts_language_lookup/ts_language_table_entry) and the dump reader TsVerif/C03/Table.lean",
        "the JSON reader of grammar.json (Lean.Data.Json + TsVerif/C03/Cfg.lean; rule order passed separately because Lean's JSON objects are sorted)",
        "hand port TsVerif/C03/Driver.lean of the single-version path of ts_parser__advance/shift/reduce/accept (tied by correspondence with the real parser on every explored string)",
        "the formal reading of 'the tree is a derivation' (Matches/NodeBody/ExtraOK in TsVerif/C03/Derive.lean): visible children, hidden rules expanded in place, innermost FIELD wins except directly nested wrappers (outer wins, as the grammar reader merges them), ALIAS on an inlined rule is handed down",
        "for strings longer than the exhaustive bound, membership of un-mutated random derivations is taken from the harness' derivation generator (gen::GrammarGen)",
        "token-level language DerivesTok (Lang.lean) covers grammars whose terminals are anonymous strings or whole-rule tokens; text rendering of token strings (one space between tokens) in the harness",
    ]
    ctx.assumptions += [
        "the generator's Rust code is exercised, not modelled: soundness is proved per dumped table / per output tree, completeness of the LR construction is sampled",
        "token symbol 0 is reserved for end of input (driver_no_fault)",
    ]
    ctx.regen()
    ctx.prove(["TsVerif.C03.Props"], "TsVerif/C03/Audit.lean")
    driver = ctx.build_driver("tsv-c03")
    explorer = ctx.cargo_bin("c03")
    cunit = ctx.cunit("cunit_c03")
    if not (explorer and cunit and os.path.exists(driver)):
        return ctx.finish()
    env = dict(ctx.env)
    env["TSV_CUNIT_C03"] = cunit
    ops = os.path.join(ctx.workdir, "ops.txt")
    if ctx.replay:
        rp = json.load(open(ctx.replay))
        spec = os.path.join(ctx.workdir, "spec.txt")
        open(spec, "w").write(rp["case"].get("spec", "") + "\n")
        rc, out = sh([explorer, ops, "--spec", spec], env=env, timeout=3000)
    else:
        rc, out = sh([explorer, ops], env=env, timeout=3000)
    ctx.log(out.strip().split("\n")[-1] if out.strip() else "explorer silent")
    if rc != 0:
        crash = ops + ".crash"
        if os.path.exists(crash):
            # the REAL code (generator table + runtime, in-process) crashed on a concrete input: that input is the finding
            f = open(crash, errors="replace").read().split(" ", 3)
            sig, cid, src, string = (f + ["?", "?", "?", "?"])[:4]
            ctx.violation("judge", "the real parser crashed (%s) while parsing this input with the freshly generated parser" % sig,
                          {"case": cid, "spec": "%s %s" % (src, string.strip()), "result": {"signal": sig}},
                          fingerprint={"clause": "real-parser-crashes", "kind": src.split(":")[0]}, found_input=True)
            # the ops file holds everything up to the last grammar header: judge that part too
        else:
            ctx.oblige("run:explorer", False, out[-800:])
            return ctx.finish()
    # grammar sources and token strings (for replay specs)
    gsrc, gkind, case_str = {}, {}, {}
    gid = None
    for line in open(ops):
        if line.startswith("grammar "):
            _, gid, kind = line.split()
            gkind[gid] = kind
        elif line.startswith("rejected "):
            gid = line.split()[1]
            gkind[gid] = "op"
        elif line.startswith("src "):
            gsrc[gid] = line.split(" ", 1)[1].strip()
        elif line.startswith("case "):
            f = line.split()
            case_str[f[1]] = (gid, ("t:" if f[3] == "T" else "x:") + ("" if f[4] == "-" and f[3] == "T" else f[4]))
    try:
        # `exec` so that the timeout kills the driver itself, not only the shell
        rc, out = sh("exec %s < %s" % (driver, ops), timeout=900 if ctx.tier == "quick" else 3000)
    except subprocess.TimeoutExpired:
        ctx.oblige("run:model-driver-finished-in-time", False, "the Lean driver did not finish (checker blow-up on some case)")
        return ctx.finish()
    evals = 0
    distinct = set()
    samples = []
    corr_cmp = corr_bad = judge_eval = judge_bad = 0
    drv = {}
    kinds = {}
    member = {"1": 0, "0": 0, "na": 0}
    deriv = {"ok": 0, "fail": 0, "na": 0}
    lens = {}
    gram = {"tables": 0, "closed": 0, "oracle": 0, "oracle_fixpoint": 0, "states": [], "lang_sizes": []}
    nofix = set()
    grepc = {}
    stats = {}

    def spec_of(cid):
        g, s = case_str.get(cid, (None, ""))
        return "%s %s" % (gsrc.get(g, "?"), s)

    viol = []
    prec_lost = [0]
    for line in out.split("\n"):
        if not line.strip():
            continue
        ident, kv = parse_kv_line(line)
        if ident == "G":
            g = line.split()[1]
            kv = dict(p.split("=", 1) for p in line.split()[2:])
            gram["tables"] += 1
            grepc[g] = "yes" if kv.get("repconflict", "0") != "0" else "no"
            gram["states"].append(int(kv["states"]))
            if kv.get("tablesafe") == "true":
                gram["tableSafe"] = gram.get("tableSafe", 0) + 1
            if kv.get("rel") == "true":
                gram["relOK"] = gram.get("relOK", 0) + 1
            if kv.get("relscope") == "true":
                gram["rel_in_scope"] = gram.get("rel_in_scope", 0) + 1
                if kv.get("rel") == "false":
                    viol.append((0, "judge", "a production of the generated table of %s is not an instance of the source rule of its left-hand side: %s" % (g, kv.get("badprod")),
                                 {"case": g, "spec": "%s t:" % gsrc.get(g, "?"), "result": kv},
                                 {"clause": "table-production-not-in-grammar", "kind": kv["kind"]}, True))
            if kv.get("aliasrows", "ok").startswith("FAIL"):
                viol.append((0, "judge", "a reduce action of the generated table of %s has more children than a row of ts_alias_sequences is long (max_alias_sequence_length): the runtime reads the next production's aliases: %s" % (g, kv["aliasrows"]),
                             {"case": g, "spec": "%s t:" % gsrc.get(g, "?"), "result": kv},
                             {"clause": "reduce-longer-than-alias-row", "kind": kv["kind"]}, True))
            rt = kv.get("rawtie", "na")
            if rt == "ok":
                gram["rawtie_ok"] = gram.get("rawtie_ok", 0) + 1
            elif rt.startswith("FAIL"):
                viol.append((0, "corr", "ts_language_lookup disagrees with the raw parse-table rows of %s (the table the generator wrote is not the table the parser walks): %s" % (g, rt),
                             {"case": g, "spec": "%s t:" % gsrc.get(g, "?"), "result": kv, "correspondence": "TsVerif.C03.rawLookup on the raw rows vs ts_language_lookup"},
                             {"clause": "lookup-differs-from-raw-table", "kind": kv["kind"]}, True))
            if kv.get("rootsafe") == "true":
                gram["rootSafe"] = gram.get("rootSafe", 0) + 1
            cpl = kv.get("complete", "na")
            cov = kv.get("cover", "na")
            src = gsrc.get(g, "?")
            fam = src.split(":")[0]
            if cov == "true":
                gram["coverOK"] = gram.get("coverOK", 0) + 1
                if cpl == "true":
                    gram["both_halves"] = gram.get("both_halves", 0) + 1
            if cpl == "true":
                gram["completeOK"] = gram.get("completeOK", 0) + 1
            elif cpl.startswith("false"):
                gram["completeOK_fails"] = gram.get("completeOK_fails", 0) + 1
            # Grammars the generator accepted without any precedence annotation and whose table has no cell
            # with several actions (a repetition conflict, e.g. two adjacent repeats of the same content,
            # is kept in the cell and settled at run time) are LR(1) conflict-free, so when grammar.json
            # is covered by the canonical productions the table must be complete for them;
            # the chain / lalr families are built to be in that class, so they must also be covered.
            by_construction = fam in ("chain", "lalr")
            if kv.get("kind") == "cfg" and cov != "na" and ((cov == "true" and kv.get("prec") == "false" and kv.get("multi") == "0") or by_construction):
                gram["complete_in_scope"] = gram.get("complete_in_scope", 0) + 1
                if cpl != "true" or (by_construction and cov != "true"):
                    viol.append((0, "judge", "the generated table of %s (LR(1) conflict-free: accepted by the generator without precedence, one action per cell) fails the premises of parser_complete: cover=%s complete=%s" % (g, cov, cpl),
                                 {"case": g, "spec": "%s t:" % src, "result": kv},
                                 {"clause": "table-incomplete-for-its-grammar", "kind": fam}, True))
            if kv["closed"] == "true":
                gram["closed"] += 1
            else:
                ctx.violation("judge", "the dumped parse table of grammar %s fails tableClosed (a reduce can pop below the stack base or reach a state without the goto)" % g,
                              {"case": g, "spec": "%s t:" % gsrc.get(g, "?"), "result": kv},
                              fingerprint={"clause": "table-not-closed", "kind": kv["kind"]})
            if kv["oracle"] == "true":
                gram["oracle"] += 1
                gram["lang_sizes"].append(int(kv["lang"]))
                if kv["fix"] == "true":
                    gram["oracle_fixpoint"] += 1
                else:
                    nofix.add(g)
            if kv.get("resolvable") == "false":
                viol.append((0, "judge", "the generator accepts the grammar of operator table %s although a conflict is left open by its declared precedences (OpTable.resolvable = false)" % g,
                             {"case": g, "spec": "%s t:" % gsrc.get(g, "?"), "result": kv},
                             {"clause": "generator-accepts-unresolvable-operator-table", "kind": "op"}, True))
            if kv["opgrammar"] != "true" or kv["terms"] != "true":
                ctx.oblige("corr:harness-grammar=model-grammar:" + g, False, json.dumps(kv))
            continue
        if ident == "S":
            stats = dict(p.split("=", 1) for p in line.split()[1:])
            continue
        if ident == "R":
            # an operator table the generator refused: it must have a conflict its precedences leave open
            g = line.split()[1]
            rkv = dict(p.split("=", 1) for p in line.split()[2:])
            gram["op_rejected"] = gram.get("op_rejected", 0) + 1
            if rkv.get("resolvable") == "true":
                viol.append((0, "judge", "the generator rejects the grammar of operator table %s although its declared precedences and associativities resolve every conflict (OpTable.resolvable)" % g,
                             {"case": g, "spec": "%s t:" % gsrc.get(g, "?"), "result": rkv},
                             {"clause": "generator-rejects-resolvable-operator-table", "kind": "op"}, True))
            continue
        if "corr" not in kv:
            continue
        cid = ident
        evals += 1
        g = case_str.get(cid, ("?", ""))[0]
        kinds[gkind.get(g, "?")] = kinds.get(gkind.get(g, "?"), 0) + 1
        d = kv.get("drv", "?").split(":")[0]
        drv[d] = drv.get(d, 0) + 1
        member[kv.get("member", "na")] = member.get(kv.get("member", "na"), 0) + 1
        deriv[kv.get("deriv", "na")] = deriv.get(kv.get("deriv", "na"), 0) + 1
        ln = int(kv.get("len", "0") or 0)
        b = "0-2" if ln <= 2 else "3-7" if ln <= 7 else "8-30" if ln <= 30 else "31-200" if ln <= 200 else ">200"
        lens[b] = lens.get(b, 0) + 1
        if int(kv.get("prods", "0") or 0) >= 3:
            distinct.add(hashlib.sha1(spec_of(cid).encode()).hexdigest())
        if len(samples) < 6 and kv.get("err") == "0" and evals % 211 == 1:
            samples.append({"case": cid, "spec": spec_of(cid)[:300], "result": kv})
        judge = kv.get("judge", "?")
        if g in nofix and judge.startswith("FAIL membership") and "member=false" in judge:
            judge = "ok"   # the enumerator did not converge: its negative answers are not used
        # a sentence generated from the grammar (un-mutated random derivation of a token-level grammar)
        # is a member by construction: it must be accepted, whatever its length (completeness of the
        # LR construction beyond the exhaustive bound; the derivation generator in the harness is the
        # oracle for THIS clause only and is listed in the trusted base)
        is_sentence = bool(re.search(r"-d\d+$", cid)) and case_str.get(cid, ("", ""))[1].startswith("t:")
        if kv.get("precloss") == "1" and (kv.get("member") == "1" or is_sentence):
            # a member rejected by a random CFG with precedence annotations that is not validated for
            # completeness, on a run that passes a state with an unvalidated item: static conflict
            # resolution (by design) – counted, not judged
            prec_lost[0] += 1
        elif judge == "ok" and is_sentence and kv.get("err") == "1":
            judge = "FAIL generated-sentence-rejected(has_error=true);"
        if kv["corr"] != "skip":
            corr_cmp += 1
        judge_eval += 1
        if judge != "ok":
            judge_bad += 1
            viol.append((ln, "judge", "C03 judge failed on the real parser's output: " + judge,
                         {"case": cid, "spec": spec_of(cid), "result": kv},
                         {"clause": clause_of(judge), "kind": gkind.get(g, "?"),
                          "detail": (re.search(r"\(([^)]*)\)", judge) or [None, ""])[1] if clause_of(judge) == "membership" else "",
                          "repetition_shift_next_to_non_recursive_reduce": grepc.get(g, "no")}, True))
        elif kv["corr"] not in ("ok", "skip"):
            corr_bad += 1
            viol.append((ln, "corr", "model LR driver on the dumped table and the real parser disagree: " + kv["corr"],
                         {"case": cid, "spec": spec_of(cid), "result": kv,
                          "correspondence": "TsVerif.C03.run on the dumped table vs ts_parser_parse"},
                         {"corr": kv["corr"][:30]}, False))
    # smallest failing inputs first (they become the replay files)
    for _, kind, what, payload, fp, found in sorted(viol, key=lambda v: v[0]):
        ctx.violation(kind, what, payload, fingerprint=fp, found_input=found)
    ctx.oblige("corr:Model.Driver=ts_parser_parse", corr_bad == 0, "%d disagreements" % corr_bad)
    ctx.oblige("premise:tableClosed-on-every-dumped-table", gram["closed"] == gram["tables"],
               "%d/%d" % (gram["closed"], gram["tables"]))
    st = sorted(gram["states"])
    ctx.coverage.update({
        "evaluations": evals, "distinct_nontrivial": len(distinct),
        "rule": "one evaluation = one (freshly generated parser, string) pair: real parse (has_error, internal tree dump, public visible tree) "
                "vs model driver on the dumped table + membership oracle + derivation checker (+ Pratt tree for operator tables); "
                "strings: every token string up to the per-grammar bound L over the grammar's terminals, random derivations (6..1000 tokens) and 2 token-level mutations each, "
                "grammar-directed documents for zoo grammars; non-trivial := error-free and the real tree uses >= 3 distinct productions; distinct by hash of (grammar source, string)",
        "samples": samples,
        "grammars": {"tables": gram["tables"], "tableClosed": gram["closed"], "tableSafe": gram.get("tableSafe", 0), "raw_rows_equal_ts_language_lookup(every state and symbol)": gram.get("rawtie_ok", 0),
                     "relOK(premise of parser_sound_per_grammar holds)": gram.get("relOK", 0), "rel_in_scope(failing relOK is a violation)": gram.get("rel_in_scope", 0), "rootSafe(premise of driver_sound; fails only with non-terminal extras)": gram.get("rootSafe", 0),
                     "coverOK(premise of grammar_cover holds)": gram.get("coverOK", 0), "completeOK(premise of table_complete holds)": gram.get("completeOK", 0),
                     "coverOK_and_completeOK(parser_complete and parser_sound both apply)": gram.get("both_halves", 0),
                     "completeOK_fails(precedence-resolved conflicts, hidden terminal rules)": gram.get("completeOK_fails", 0),
                     "complete_in_scope(no precedence, covered, or chain/lalr: failing is a violation)": gram.get("complete_in_scope", 0), "operator_tables_rejected_by_generator(all must be unresolvable)": gram.get("op_rejected", 0), "with_oracle": gram["oracle"],
                     "oracle_fixpoint": gram["oracle_fixpoint"],
                     "states_min_med_max": [st[0], st[len(st) // 2], st[-1]] if st else [],
                     "language_sizes_up_to_L": sorted(gram["lang_sizes"])[-8:], "generator": stats},
        "by_grammar_kind": kinds, "model_driver_outcomes": drv, "membership": member, "derivation_checked": deriv,
        "token_string_lengths": lens,
        "members_rejected_after_precedence_resolved_conflict(random CFGs with precedence, not validated complete; not judged)": prec_lost[0],
        "correspondence": {"compared": corr_cmp, "equal": corr_cmp - corr_bad},
        "judge": {"evaluated": judge_eval, "passed": judge_eval - judge_bad},
        "impl_vs_judge_failures": judge_bad, "model_vs_impl_disagreements": corr_bad,
    })
    if evals == 0:
        ctx.oblige("run:driver-produced-results", False, out[-500:])
    return ctx.finish()
