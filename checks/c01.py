"""C01 — Incremental re-parse equals parsing the new text from scratch.

Proof: TsVerif/C01/Props.lean over the port of the reuse gate (ts_parser__reuse_node /
ts_parser__can_reuse_first_leaf / ts_range_array_intersects / reusable_node.h) and, through
TsVerif.C10, of ts_subtree_edit.  Tie: the language facts the gate reads are dumped from the real
TSLanguage with the runtime's own accessors (unity build cunit_c01), the candidate nodes are dumps
of the real edited old tree, and the real parser's log of every incremental parse is replayed
against the port (every logged reuse / refusal must be what reuseGate says).  Judge (the heart):
parse(new, edited_old) vs parse(new, None) on the real runtime, decided by the Lean predicate
`TsVerif.C01.judge` on the two internal dumps (flattened visible trees) and the two cursor walks."""
import hashlib
import json
import os
import re
from checklib import sh, parse_kv_line, match_fp, REPO


def gate_variant(ops_path):
    """The variant of the Lean port (with / without the column-range repair 835fde5) is chosen by the
    explorer's BEHAVIOURAL probe of the real parser (`variant colfix N` line at the top of the ops
    file), not by looking at the source text."""
    try:
        with open(ops_path) as f:
            for line in f:
                if line.startswith("variant colfix "):
                    v = int(line.split()[2])
                    nxt = f.readline()
                    return v + (2 * int(nxt.split()[2]) if nxt.startswith("variant eoffix ") else 0)
                if line.startswith("case "):
                    break
    except OSError:
        pass
    return 0


def has_empty_range(spec):
    f = spec.split(" ")
    if len(f) != 5:
        return False
    rs = [f[3]] + [st.split(",")[3] for st in f[4].split("|") if st.count(",") == 3]
    for r in rs:
        if r == "-":
            continue
        for ab in r.split(";"):
            a, b = ab.split(":")
            if a == b:
                return True
    return False


def only_empty_ranges(spec):
    """Does some range list of the history (initial or of a step) consist ONLY of empty ranges?"""
    f = spec.split(" ")
    if len(f) != 5:
        return False
    rs = [f[3]] + [st.split(",")[3] for st in f[4].split("|") if st.count(",") == 3]
    for r in rs:
        if r == "-":
            continue
        if all(ab.split(":")[0] == ab.split(":")[1] for ab in r.split(";")):
            return True
    return False


def edit_inside_character(spec):
    """Does some edit of the history start or end INSIDE a multi-byte UTF-8 character of the text it
    is applied to (on a continuation byte)?"""
    f = spec.split(" ")
    if len(f) != 5:
        return False
    text = b"" if f[2] == "-" else bytes.fromhex(f[2])
    for st in f[4].split("|"):
        if st.count(",") != 3:
            continue
        s_, oe = int(st.split(",")[0]), int(st.split(",")[1])
        for x in (s_, oe):
            if 0 < x < len(text) and (text[x] & 0xC0) == 0x80:
                return True
        text = apply_edit(text, st)
    return False


def splits_character(spec):
    """Does some included-range boundary of the history fall INSIDE a UTF-8 multi-byte sequence
    of the text it is applied to?"""
    f = spec.split(" ")
    if len(f) != 5:
        return False
    text = b"" if f[2] == "-" else bytes.fromhex(f[2])

    def bad(text, r):
        if r == "-":
            return False
        for ab in r.split(";"):
            for x in ab.split(":"):
                x = int(x)
                if 0 < x < len(text) and (text[x] & 0xC0) == 0x80:
                    return True
        return False
    if bad(text, f[3]):
        return True
    for st in f[4].split("|"):
        if st.count(",") != 3:
            continue
        text = apply_edit(text, st)
        if bad(text, st.split(",")[3]):
            return True
    return False


def last_step_facts(spec):
    """(included ranges given for the last step?, does the last edit change the number of line breaks?)"""
    f = spec.split(" ")
    if len(f) != 5:
        return False, False
    text = b"" if f[2] == "-" else bytes.fromhex(f[2])
    steps = [st for st in f[4].split("|") if st.count(",") == 3]
    if not steps:
        return False, False
    for st in steps[:-1]:
        text = apply_edit(text, st)
    s_, oe, ins, rg = steps[-1].split(",")
    removed = text[int(s_):int(oe)]
    inserted = b"" if ins == "-" else bytes.fromhex(ins)
    return rg != "-", removed.count(b"\n") != inserted.count(b"\n")


def column_token_grammar(lang, _cache={}):
    """Does the language's external scanner read the column (lexer->get_column)?  Then its tokens can be
    column-dependent (depends_on_column)."""
    if lang not in _cache:
        try:
            src = open(os.path.join(os.path.dirname(os.path.dirname(os.path.abspath(__file__))), "zoo", lang, "scanner.c")).read()
        except OSError:
            src = ""
        _cache[lang] = "get_column" in src
    return _cache[lang]


def ranges_in_history(spec):
    """Are included ranges given anywhere in the history (initial parse or any step)?"""
    f = spec.split(" ")
    return len(f) == 5 and (f[3] != "-" or any(st.count(",") == 3 and not st.endswith(",-") for st in f[4].split("|")))


def line_breaks_in_history(spec):
    """Does some version of the document in the history contain a line break?"""
    f = spec.split(" ")
    if len(f) != 5:
        return False
    text = b"" if f[2] == "-" else bytes.fromhex(f[2])
    if b"\n" in text:
        return True
    for st in f[4].split("|"):
        if st.count(",") != 3:
            continue
        text = apply_edit(text, st)
        if b"\n" in text:
            return True
    return False


def point_col(text, pos):
    """column (bytes since the last line break) of byte offset pos"""
    return pos - (text.rfind(b"\n", 0, pos) + 1)


def some_edit_shifts_columns(spec):
    """Does some edit of the history move the text that follows it on the line of its old end to another
    COLUMN (absolute new_end_point.column != old_end_point.column)?  That is exactly when column-dependent
    tokens after the edit on that line have to be invalidated by ts_subtree_edit."""
    f = spec.split(" ")
    if len(f) != 5:
        return False
    text = b"" if f[2] == "-" else bytes.fromhex(f[2])
    for st in f[4].split("|"):
        if st.count(",") != 3:
            continue
        s_, oe, ins, _ = st.split(",")
        s_, oe = int(s_), int(oe)
        new = apply_edit(text, st)
        ne = s_ + (0 if ins == "-" else len(ins) // 2)
        if point_col(text, oe) != point_col(new, ne):
            return True
        text = new
    return False


def run_pipeline(ctx, explorer, cunit, driver, args, tag):
    """explorer -> ops/langs; cunit -> tables; driver -> result lines. Returns (specs, lines, msg)."""
    ops = os.path.join(ctx.workdir, "ops-%s.txt" % tag)
    langs = os.path.join(ctx.workdir, "langs-%s.txt" % tag)
    tables = os.path.join(ctx.workdir, "tables-%s.txt" % tag)
    rc, out = sh([explorer, ops, langs] + args, env=ctx.env, timeout=3000)
    if rc != 0:
        cur = ops + ".current"
        crashed = open(cur).read().strip() if os.path.exists(cur) else ""
        return ({"crash": crashed} if crashed else None), None, "explorer failed: " + out[-800:]
    msg = out.strip().split("\n")[-1] if out.strip() else ""
    largs = []
    for line in open(langs):
        largs += line.split()
    if largs:
        rc, tout = sh([cunit] + largs, timeout=600)
        if rc != 0:
            return None, None, "table dump failed: " + tout[-500:]
        open(tables, "w").write(tout)
    else:
        open(tables, "w").write("")
    specs = {}
    for line in open(ops):
        if line.startswith("spec "):
            _, cid, rest = line.rstrip("\n").split(" ", 2)
            specs[cid] = rest
    ctx.gate_variant = gate_variant(ops)
    # side file of the explorer (round 11): how the two public trees of a case differ (same | zw | other)
    if tag != "shrink":
        ctx.treediff = {}
    try:
        for line in open(ops + ".treediff"):
            a = line.split()
            if len(a) == 2 and tag != "shrink":
                ctx.treediff[a[0]] = a[1]
    except OSError:
        pass
    rc, out = sh("cat %s %s | %s" % (tables, ops, driver), timeout=3000)
    lines = [l for l in out.split("\n") if l.strip()]
    return specs, lines, msg


def spec_fails(ctx, tools, spec, n):
    """Does the LAST step of `spec` still fail the judge?"""
    sp = os.path.join(ctx.workdir, "shrink-%d.txt" % n)
    open(sp, "w").write(spec + "\n")
    specs, lines, _ = run_pipeline(ctx, tools[0], tools[1], tools[2], ["--spec", sp], "shrink")
    if not lines:
        return False
    want = len(spec.split(" ")[4].split("|")) - 1
    for l in lines:
        cid, kv = parse_kv_line(l)
        if cid.endswith(".%d" % want) and kv.get("judge", "ok").startswith("FAIL"):
            return True
    return False


def apply_edit(text, step):
    s, oe, ins, _ = step.split(",")
    s, oe = int(s), int(oe)
    return text[:s] + (b"" if ins == "-" else bytes.fromhex(ins)) + text[oe:]


def shrink(ctx, tools, spec, budget=120):
    """Delta-debug a failing history: no chunking, no ranges, fewer steps, shorter document."""
    n = [0]

    def fails(s):
        n[0] += 1
        return n[0] <= budget and spec_fails(ctx, tools, s, n[0])

    lang, chunk, text, r0, steps = spec.split(" ")
    steps = steps.split("|")
    best = spec

    def mk(chunk, text, r0, steps):
        return " ".join([lang, chunk, text, r0, "|".join(steps)])
    if chunk != "0" and fails(mk("0", text, r0, steps)):
        chunk = "0"
    nor = [",".join(s.split(",")[:3] + ["-"]) for s in steps]
    if (r0 != "-" or nor != steps) and fails(mk(chunk, text, "-", nor)):
        r0, steps = "-", nor
    # fold leading steps into the initial document (needs range-free histories to stay valid)
    while len(steps) > 1 and r0 == "-":
        t = b"" if text == "-" else bytes.fromhex(text)
        t2 = apply_edit(t, steps[0])
        cand = mk(chunk, t2.hex() or "-", r0, steps[1:])
        if fails(cand):
            text, steps = (t2.hex() or "-"), steps[1:]
        else:
            break
    # shorten the document around a single remaining edit
    if len(steps) == 1 and r0 == "-" and text != "-":
        t = bytes.fromhex(text)
        s, oe, ins, rg = steps[0].split(",")
        s, oe = int(s), int(oe)
        size = max(1, len(t) // 2)
        while size >= 1 and n[0] < budget:
            i = 0
            progress = False
            while i < len(t) and n[0] < budget:
                j = min(len(t), i + size)
                if j <= s:
                    cand_t, cs, coe = t[:i] + t[j:], s - (j - i), oe - (j - i)
                elif i >= oe:
                    cand_t, cs, coe = t[:i] + t[j:], s, oe
                else:
                    i = j
                    continue
                if fails(mk(chunk, cand_t.hex() or "-", r0, ["%d,%d,%s,%s" % (cs, coe, ins, rg)])):
                    t, s, oe = cand_t, cs, coe
                    progress = True
                else:
                    i = j
            if not progress:
                size //= 2
        text, steps = (t.hex() or "-"), ["%d,%d,%s,%s" % (s, oe, ins, rg)]
    best = mk(chunk, text, r0, steps)
    return best, n[0]


def run(ctx):
    ctx.extra_lean_dirs = ["C10"]
    ctx.trusted += [
        "hand ports TsVerif/C01/Model.lean of ts_parser__reuse_node's decision, ts_parser__can_reuse_first_leaf, "
        "ts_range_array_intersects and reusable_node.h (tied by replaying the real parser's log against them on dumps of the real old tree)",
        "harness/csrc/cunit_c01.c (table dump through ts_language_lex_mode_for_state / ts_language_table_entry of the unity-built runtime)",
        "the parse log (public logger) as the observation of what the real parser decided; the external-scanner-state comparison is taken from the log",
        "cursor walk printed by harness/src/bin/c01.rs (public API view compared by the judge)"]
    ctx.assumptions += [
        "LexLocal: the token lexed at p depends only on text[p, p+padding+size+lookahead_bytes) (hypothesis of relex_*; what lookahead_bytes is meant to record)",
        "edits are well-formed (start <= old_end <= |text|, points consistent with bytes), included ranges sorted and disjoint",
        "documents < 4 GiB"]
    ctx.regen()
    ctx.prove(["TsVerif.C01.Props"], "TsVerif/C01/Audit.lean")
    driver = ctx.build_driver("tsv-c01")
    explorer = ctx.cargo_bin("c01")
    cunit = ctx.cunit("cunit_c01")
    if not (explorer and cunit and os.path.exists(driver)):
        return ctx.finish()
    tools = (explorer, cunit, driver)
    if ctx.replay:
        rp = json.load(open(ctx.replay))
        sp = os.path.join(ctx.workdir, "spec.txt")
        open(sp, "w").write(rp["case"].get("spec", "") + "\n")
        specs, lines, msg = run_pipeline(ctx, explorer, cunit, driver, ["--spec", sp], "replay")
    else:
        specs, lines, msg = run_pipeline(ctx, explorer, cunit, driver, [], "main")
    if lines is None:
        if specs and specs.get("crash"):
            lang = specs["crash"].split(" ")[0]
            ctx.violation("judge", "the runtime aborted while running this edit history (incremental or scratch parse): " + msg[-300:],
                          {"case": "crash", "spec": specs["crash"]}, fingerprint={"lang": lang, "clause": "runtime abort"})
        ctx.oblige("run:explorer", False, msg)
        return ctx.finish()
    ctx.log(msg)
    evals = 0
    distinct = set()
    samples = []
    tot = {k: 0 for k in ("gate", "match", "undet", "ext", "bd", "index_skipped", "cert_ok", "cert_stuck", "cert_glr", "cert_skipped", "relex_checked", "relex_equal", "gloop_reused", "refusals", "reused_inner", "reused_leaf", "reused_bytes", "lexed", "nodes", "clean")}
    by_lang = {}
    kinds = {"chunked": 0, "ranges": 0, "exhaustive_single_char": 0, "multi_step": 0}
    corr_bad = judge_bad = 0
    unsorted_diffs = 0
    gloop = {"ok": 0, "skipped": 0, "MISMATCH": 0}
    relex_unknown = 0
    lr_doc = {"ok": 0, "stuck": 0, "glr_ok": 0, "glr_stuck": 0, "skipped": 0, "MISMATCH": 0}
    lr_by_lang = {}
    shrunk = 0
    for line in lines:
        cid, kv = parse_kv_line(line)
        if "judge" not in kv:
            continue
        evals += 1
        spec = specs.get(cid, "")
        lang = cid.rsplit("-", 1)[0]
        for k in tot:
            tot[k] += int(kv.get(k, "0") or 0)
        lr_doc[kv.get("lr_doc", "skipped")] = lr_doc.get(kv.get("lr_doc", "skipped"), 0) + 1
        ll = lr_by_lang.setdefault(lang, {"doc_ok": 0, "doc_stuck": 0, "doc_glr": 0, "cert_ok": 0, "cert_stuck": 0, "cert_glr": 0})
        if kv.get("lr_doc") in ("ok", "stuck", "glr_ok", "glr_stuck"):
            ll["doc_" + kv["lr_doc"].replace("glr_ok", "glr").replace("glr_stuck", "stuck")] += 1
        for k in ("cert_ok", "cert_stuck", "cert_glr"):
            ll[k] += int(kv.get(k, "0") or 0)
        unsorted_diffs += kv.get("diffs_sorted", "1") == "0"
        gloop[kv.get("gloop", "skipped")] = gloop.get(kv.get("gloop", "skipped"), 0) + 1
        bl = by_lang.setdefault(lang, {"cases": 0, "clean": 0, "reused_inner": 0})
        bl["cases"] += 1
        bl["clean"] += int(kv.get("clean", "0") or 0)
        bl["reused_inner"] += int(kv.get("reused_inner", "0") or 0)
        f = spec.split(" ")
        if len(f) == 5:
            kinds["chunked"] += f[1] != "0"
            kinds["ranges"] += (f[3] != "-") or any(not s.endswith(",-") for s in f[4].split("|"))
            kinds["multi_step"] += "|" in f[4]
        kinds["exhaustive_single_char"] += "-x" in cid
        if int(kv.get("reused_inner", "0") or 0) >= 1 and int(kv.get("lexed", "0") or 0) >= 1:
            distinct.add(hashlib.sha1(spec.encode()).hexdigest())
        if len(samples) < 6 and evals % 1013 == 1:
            samples.append({"case": cid, "spec": spec[:300], "result": kv})
        if kv["judge"] != "ok":
            judge_bad += 1
            clause = kv["judge"][:60]
            payload = {"case": cid, "spec": spec, "result": kv}
            fp = {"lang": lang, "clause": clause,
                  # diagnosis used by known_findings/C01.json: the runtime computed included-range differences between the
                  # two parses and a column-dependent node of the old tree met the reuse gate …
                  "ranges_changed": int(kv.get("rangediffs", "0") or 0) > 0,
                  "column_dependent_candidate": kv.get("coldep") == "1",
                  # … or some included range of the history so far is EMPTY (a == b)
                  "empty_included_range": has_empty_range(spec),
                  # … some range list of the history consists ONLY of empty ranges (nothing is included)
                  "only_empty_ranges": only_empty_ranges(spec),
                  # … or some included-range boundary splits a multi-byte character
                  "range_splits_character": splits_character(spec),
                  # … or a range difference starts at/after the end of the OLD tree's last included range
                  "diff_beyond_old_end": kv.get("diff_beyond_old_end") == "1",
                  # … or the parse runs with included ranges and the edit joins/splits lines
                  # … or some edit of the history starts/ends inside a multi-byte character
                  "edit_inside_character": edit_inside_character(spec),
                  "ranges_in_play": last_step_facts(spec)[0],
                  "edit_changes_line_breaks": last_step_facts(spec)[1],
                  # round 11 (C01-column-token-stale-after-column-shift): the language's scanner reads the column;
                  # the public trees differ ONLY in the kind of zero-width leaves (same shape, same positions);
                  # some edit of the history shifts the column of what follows it on its line
                  "column_token_grammar": column_token_grammar(lang),
                  "tree_diff": getattr(ctx, "treediff", {}).get(cid, "?"),
                  "edit_shifts_columns": some_edit_shifts_columns(spec),
                  "ranges_in_history": ranges_in_history(spec),
                  # both causes need more than one line (B: a multi-line repeat node; C: an edit whose ends lie on
                  # different rows): a stale column token in a history WITHOUT any line break is another defect
                  "line_breaks_in_history": line_breaks_in_history(spec)}
            is_known = any(k.get("status") == "known" and match_fp(k.get("match", {}), fp) for k in ctx.known)
            if os.environ.get("C01_DUMP_FP"):  # debugging aid: every judge failure's fingerprint, one JSON per line
                open(os.environ["C01_DUMP_FP"], "a").write(json.dumps({"case": cid, "known": is_known, "fp": fp, "spec": spec}) + "\n")
            if kv["judge"].startswith("FAIL") and spec and shrunk < 3 and not ctx.replay and not is_known:
                shrunk += 1
                small, trials = shrink(ctx, tools, spec)
                payload["original_spec"] = spec
                payload["spec"] = small
                payload["shrink_trials"] = trials
            ctx.violation("judge", "incremental parse differs from from-scratch parse: " + kv["judge"], payload, fingerprint=fp)
        if kv.get("relex_checked", "0") != kv.get("relex_equal", "0"):
            fpr = {"lang": lang, "clause": "LexLocal: an unmarked old token is lexed differently from scratch",
                   "ranges_changed": int(kv.get("rangediffs", "0") or 0) > 0, "column_dependent_candidate": kv.get("coldep") == "1",
                   "empty_included_range": has_empty_range(spec), "only_empty_ranges": only_empty_ranges(spec),
                   "range_splits_character": splits_character(spec), "diff_beyond_old_end": kv.get("diff_beyond_old_end") == "1",
                   "edit_inside_character": edit_inside_character(spec),
                   "ranges_in_play": last_step_facts(spec)[0], "edit_changes_line_breaks": last_step_facts(spec)[1],
                   "column_token_grammar": column_token_grammar(lang), "tree_diff": getattr(ctx, "treediff", {}).get(cid, "?"),
                   "edit_shifts_columns": some_edit_shifts_columns(spec), "ranges_in_history": ranges_in_history(spec),
                   "line_breaks_in_history": line_breaks_in_history(spec)}
            if not any(k.get("status") == "known" and match_fp(k.get("match", {}), fpr) for k in ctx.known):
                relex_unknown += 1
            ctx.violation("judge", "hypothesis LexLocal fails on the real lexer: " + kv.get("relex_note", "").replace("_", " "),
                          {"case": cid, "spec": spec, "result": kv}, fingerprint=fpr)
        if kv.get("corr", "ok") != "ok":
            corr_bad += 1
            ctx.violation("corr", "reuse gate model and the real parser's log disagree: " + kv["corr"],
                          {"case": cid, "spec": spec, "result": kv,
                           "correspondence": "TsVerif.C01.reuseGate/stepIter vs lib/src/parser.c:ts_parser__reuse_node (log replay)"},
                          fingerprint={"lang": lang, "corr": "diff"}, found_input=False)
    ctx.oblige("corr:reuseGate=ts_parser__reuse_node(log replay)", corr_bad == 0, "%d cases disagree" % corr_bad)
    # hypotheses of the theorems, evaluated on the real data of this run
    ctx.oblige("hyp:RangesSorted(logged included-range differences)", unsorted_diffs == 0, "%d cases with unsorted differences" % unsorted_diffs)
    ctx.oblige("hyp:LexLocal(unmarked old tokens re-lex to themselves from scratch, same parse state)",
               relex_unknown == 0, "%d of %d tokens differ, %d cases outside the known findings" % (tot["relex_checked"] - tot["relex_equal"], tot["relex_checked"], relex_unknown))
    if not ctx.replay:
        # generator quality gate: the run must exercise reuse and error-free comparisons
        ctx.oblige("run:coverage-floor", evals >= 1000 and tot["clean"] * 5 >= evals and tot["reused_inner"] >= evals // 2,
                   "evals=%d clean=%d reused_inner=%d" % (evals, tot["clean"], tot["reused_inner"]))
    ctx.coverage["gate_variant"] = ("with column/range repair (835fde5)" if getattr(ctx, "gate_variant", 0) & 1 else "without the column/range repair") + ("; with the EOF-look-ahead repair" if getattr(ctx, "gate_variant", 0) & 2 else "; without the EOF-look-ahead repair") + " - detected by probing the real parser on the distinguishing input"
    ctx.coverage.update({
        "evaluations": evals, "distinct_nontrivial": len(distinct),
        "rule": "one evaluation = one step of an edit history: Tree::edit on the current tree, incremental parse with it (logger on) and "
                "from-scratch parse by a fresh parser of the same bytes/ranges/chunking, all on the real runtime; histories of 1-8 edits "
                "(random byte edits, same-kind token replacement, whitespace, return to the original, jump to a fresh sentence) continue "
                "from the incremental tree, so they run through erroneous intermediate states; plus single-character delete/replace/insert "
                "at EVERY byte of small documents; 1/4 of histories with included ranges (kept, re-drawn or dropped per step), 5/8 chunked "
                "(1,2,3,5,7 bytes); all zoo languages; plus (round 11) the PRIVATE grammar colwords (zero-width column-dependent token before every x): multi-line documents with line-joining, line-splitting and same-line column-shifting edits, 1-3 steps. non-trivial := the re-parse reused >=1 inner node and lexed >=1 token; distinct by hash of the spec",
        "samples": samples, "totals": tot, "by_language": by_lang, "history_kinds": kinds,
        "correspondence": {"compared": tot["gate"], "equal": tot["match"], "undetermined_state_after_breakdown": tot["undet"],
                           "breakdown_lookahead_decisions_compared": tot["bd"],
                           "external_scanner_state_comparisons_recomputed": tot["ext"],
                           "gate_loop_model_on_real_trees": {"cases_ok": gloop["ok"], "skipped_not_token_preserving_or_glr": gloop["skipped"], "mismatch": gloop["MISMATCH"],
                                                         "inner_nodes_pushed_whole_by_the_model_loop": tot["gloop_reused"], "inner_nodes_reused_by_the_real_parser": tot["reused_inner"],
                                                         "what": "LR.gloop (GateLoop.lean) run on the edited old dump (marks, parse states) with the new tokens and the dumped table; must accept with the real scratch tree"},
                           "hypotheses_on_real_data": {"LexLocal_tokens_checked": tot["relex_checked"], "LexLocal_tokens_equal": tot["relex_equal"],
                                                       "RangesSorted_cases_violating": unsorted_diffs},
                           "explained_only_by_difference_index_skipping": tot["index_skipped"],
                           "lr_machine_on_real_tables": {
                               "whole_error_free_documents": lr_doc,
                               "reuse_certificates": {"certified": tot["cert_ok"], "machine_stuck": tot["cert_stuck"],
                                                      "certified_by_some_glr_version": tot["cert_glr"], "skipped_error_recovered_or_no_parse_state": tot["cert_skipped"]},
                               "by_language": lr_by_lang,
                               "what": "TsVerif.C01.LR.step on the dumped parse table: (a) fed with the leaves of every error-free real scratch "
                                       "tree it must accept with that tree; (b) for every subtree the real incremental parse reused it must "
                                       "rebuild that subtree from its parse state (certificate LR.ReuseOK of incr_eq_scratch); a MISMATCH is a "
                                       "model/implementation disagreement, stuck = outside the machine (non-terminal extras); at GLR entries a bounded version list is used and SOME version must produce the real tree (glr_ok / certified_by_some_glr_version)"},
                           "cases": evals, "cases_equal": evals - corr_bad,
                           "what": "gate events of the real parser's log vs reuseGate on the dumped old tree and dumped tables"},
        "judge": {"evaluated": evals, "passed": evals - judge_bad, "error_free_scratch_trees": tot["clean"]},
        "impl_vs_judge_failures": judge_bad, "model_vs_impl_disagreements": corr_bad,
    })
    if evals == 0:
        ctx.oblige("run:driver-produced-results", False, "\n".join(lines[-5:]))
    # concrete failing inputs first (checklib prints the first five)
    ctx.violations.sort(key=lambda v: not v["found_input"])
    return ctx.finish()
