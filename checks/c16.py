"""C16 — node-types.json, symbol tables and look-ahead sets are sound for every tree.

Proof: TsVerif/C16/Props.lean — lookahead_enumerates & co. over ports of ts_language_lookup /
ts_language_lookaheads / ts_lookahead_iterator__next for every well-formed table layout; conforms_iff
for the node-types judge; name/field round trips.  Tie: table dumps of real generated languages
(zoo + random grammars), the ports compared with the real C functions for ALL states x symbols, and
the Lean judges evaluated on real node-types files, real trees, the real iterator and the real
symbol tables."""
import hashlib
import json
import os
from checklib import sh, parse_kv_line

LANG_KEYS = ["tablewf", "corr_la", "corr_lookup", "corr_names", "judge_la", "judge_names", "ntwf"]


def run(ctx):
    ctx.trusted += [
        "hand ports TsVerif/C16/Table.lean of ts_language_lookup / ts_language_lookaheads / ts_lookahead_iterator__next and "
        "TsVerif/C16/Names.lean of ts_language_symbol_for_name / field_id_for_name (tied by exhaustive correspondence per language)",
        "harness/csrc/cunit_c16.c: table dump, and the extraction of the visible tree with ALL field names per child "
        "(cross-checked per node against ts_node_child / ts_node_field_name_for_child / ts_node_child_by_field_id; mismatches are reported)",
        "the length of small_parse_table is the furthest group end over all small states (TSLanguage does not store it), so the bounds clause of tableWF is self-derived",
        "Lean.Data.Json parser for node-types.json; reading of the documentation for the conventions listed in Props.lean",
    ]
    ctx.assumptions += ["tableWF (decidable, evaluated on every dumped language) for the look-ahead theorems",
                        "only error-free trees are judged against node-types.json; exact-id acceptance pairs only from single-version parses"]
    ctx.regen()
    ctx.prove(["TsVerif.C16.Props"], "TsVerif/C16/Audit.lean")
    driver = ctx.build_driver("tsv-c16")
    explorer = ctx.cargo_bin("c16")
    cunit = ctx.cunit("cunit_c16")
    if not (explorer and cunit and os.path.exists(driver)):
        return ctx.finish()
    ops = os.path.join(ctx.workdir, "ops.txt")
    lst = os.path.join(ctx.workdir, "list.txt")
    cout = os.path.join(ctx.workdir, "c.txt")
    cmd = [explorer, ops, lst]
    if ctx.replay:
        rp = json.load(open(ctx.replay))
        spec = os.path.join(ctx.workdir, "spec.txt")
        open(spec, "w").write(rp["case"].get("spec", "") + "\n")
        cmd += ["--spec", spec]
    rc, out = sh(cmd, env=ctx.env, timeout=3000)
    ctx.log(out.strip().split("\n")[-1] if out.strip() else "explorer silent")
    def last_lang(path):
        last = "?"
        if os.path.exists(path):
            for line in open(path, errors="replace"):
                if line.startswith("lang "):
                    last = line.split()[1]
        return last
    if rc != 0:
        # the real code crashed inside the explorer (Rust API calls); keep going with what was written
        ctx.oblige("run:explorer", False, "exit %d while working on language %s: %s" % (rc, last_lang(lst), out[-400:]))
    rc, out = sh("%s %s > %s" % (cunit, lst, cout), env=ctx.env, timeout=3000)
    if rc != 0:
        ctx.oblige("run:cunit_c16", False, "exit %d after language %s: %s" % (rc, last_lang(cout), out[-400:]))
    specs, feats, tokens, skips = {}, {}, {}, []
    for line in open(ops):
        if line.startswith("spec "):
            _, cid, rest = line.rstrip("\n").split(" ", 2)
            specs[cid] = rest
        elif line.startswith("feat "):
            _, lid, f = line.rstrip("\n").split(" ", 2)
            feats[lid] = sorted(set(f.split(",")))
        elif line.startswith("doc "):
            p = line.split()
            tokens[p[1]] = int(p[3].split("=")[1])
        elif line.startswith("skip "):
            skips.append(line.rstrip("\n")[5:200])
    # the comparison with "ERROR" in ts_language_symbol_for_name is observed behaviourally by the driver
    # (probe names E, ER, …); nothing is read off the source text
    cfg = os.path.join(ctx.workdir, "cfg.txt")
    open(cfg, "w").write("cfg errormode prefix\n")
    rc, out = sh("cat %s %s %s | %s" % (cfg, ops, cout, driver), timeout=3000)
    langs = trees = tree_ok = tree_err = 0
    model_ok = model_skip = model_bad = model_shapevars = model_inlined = act_cells = spurious = 0
    corr_cmp = corr_bad = judge_eval = judge_bad = 0
    distinct = set()
    samples = []
    tot = {"nodes": 0, "withfield": 0, "multifield": 0, "aliased": 0, "viasuper": 0, "accpairs": 0, "states": 0, "listed": 0, "xmismatch": 0}
    sizes = {"<=10": 0, "<=100": 0, "<=1000": 0, ">1000": 0}
    for line in out.split("\n"):
        if not line.strip():
            continue
        cid, kv = parse_kv_line(line)
        spec = specs.get(cid, "")
        if cid.startswith("L-"):
            lid = cid[2:]
            langs += 1
            tot["states"] += int(kv.get("states", 0))
            tot["listed"] += int(kv.get("listed", 0))
            for k in ("tablewf", "corr_la", "corr_lookup", "corr_names", "corr_symtype"):
                corr_cmp += 1
                if kv.get(k) != "ok":
                    corr_bad += 1
                    ctx.violation("corr", "C16 %s: model and implementation disagree on language %s: %s" % (k, lid, kv.get(k)),
                                  {"case": cid, "spec": spec, "result": kv, "correspondence": k},
                                  fingerprint={"lang": lid, "corr": k}, found_input=False)
            if kv.get("ntwf") != "ok":
                corr_bad += 1
                ctx.violation("corr", "node-types.json of %s unreadable or not saturating: %s" % (lid, kv.get("ntwf")),
                              {"case": cid, "spec": spec, "result": kv}, fingerprint={"lang": lid, "corr": "ntwf"}, found_input=False)
            act_cells += int(kv.get("actcells", "0") or 0)
            spurious += int(kv.get("spurious_entries", "0") or 0)
            mc = kv.get("model_closed", "")
            if mc.startswith("ok"):
                model_ok += 1
                model_shapevars += int(kv.get("shapevars", "0") or 0)
                model_inlined += 1 if int(kv.get("inlined", "0") or 0) > 0 else 0
            elif mc.startswith("SKIP"):
                model_skip += 1
            else:
                fp = {"lang": lid, "clause": "model-closed", "var": kv.get("var", "")}
                from checklib import match_fp
                if not any(k.get("status") == "known" and match_fp(k.get("match", {}), fp) for k in ctx.known):
                    model_bad += 1
                judge_bad += 1
                ctx.violation("judge", "the real node-types.json is not closed under the productions of grammar %s: rule %s, production %s "
                              "(a derivable child kind / field / required / multiple flag is not admitted)" % (lid, kv.get("var"), kv.get("prod")),
                              {"case": cid, "spec": spec, "result": kv}, fingerprint=fp)
            for k in ("judge_la", "judge_names", "judge_sup", "judge_acts", "judge_listed"):
                judge_eval += 1
                if kv.get(k) != "ok":
                    judge_bad += 1
                    ctx.violation("judge", "C16 %s failed on language %s: %s %s" % (k, lid, kv.get(k), {x: kv[x] for x in ("kind", "got", "want") if x in kv}),
                                  {"case": cid, "spec": spec, "result": kv},
                                  fingerprint={"lang": lid, "clause": (kv.get(k) or "")[:60], "kind": kv.get("kind", "")})
            if len(samples) < 3 and langs % 23 == 1:
                samples.append({"case": cid, "features": feats.get(lid, ["zoo"]), "result": kv})
            continue
        if "skipped" in kv:
            tree_err += 1
            continue
        if "judge" not in kv:
            continue
        trees += 1
        for k in tot:
            if k in kv:
                tot[k] += int(kv.get(k, "0") or 0)
        n = tokens.get(cid, 0)
        sizes["<=10" if n <= 10 else "<=100" if n <= 100 else "<=1000" if n <= 1000 else ">1000"] += 1
        if int(kv.get("withfield", 0)) + int(kv.get("aliased", 0)) + int(kv.get("viasuper", 0)) > 0:
            distinct.add(hashlib.sha1(spec.encode()).hexdigest())
        judge_eval += 2
        lang = spec.split(" ")[0][:40] if spec else cid
        zoo_lang = spec.split(" ")[0][4:] if spec.startswith("zoo:") else "generated"
        if kv.get("xmismatch", "0") != "0":
            corr_bad += 1
            ctx.violation("corr", "tree extraction of cunit_c16 disagrees with the node API on %s (%s mismatches)" % (cid, kv.get("xmismatch")),
                          {"case": cid, "spec": spec, "result": kv}, fingerprint={"lang": zoo_lang, "corr": "tree-extraction"}, found_input=False)
        corr_cmp += 1
        if kv["judge"] != "ok":
            judge_bad += 1
            ctx.violation("judge", "tree does not conform to node-types.json: %s type=%s path=%s" % (kv.get("reason"), kv.get("type"), kv.get("path")),
                          {"case": cid, "spec": spec, "result": kv},
                          fingerprint={"lang": zoo_lang, "clause": "node-types", "reason": kv.get("reason", ""), "type": kv.get("type", "")})
        else:
            tree_ok += 1
        if kv.get("kindbad", "0") != "0":
            judge_bad += 1
            ctx.violation("judge", "node kind ids do not round-trip on %s nodes of %s (kind_id -> kind -> id, node_kind_is_named(kind_id) vs is_named)" % (kv.get("kindbad"), cid),
                          {"case": cid, "spec": spec, "result": kv}, fingerprint={"lang": zoo_lang, "clause": "kind-id-roundtrip"})
        if kv.get("acc") != "ok":
            judge_bad += 1
            ctx.violation("judge", "accepted look-ahead not listed by the iterator: %s" % kv.get("acc"),
                          {"case": cid, "spec": spec, "result": kv}, fingerprint={"lang": zoo_lang, "clause": "acc"})
        if len(samples) < 6 and trees % 97 == 1:
            samples.append({"case": cid, "spec": spec[:200], "result": kv})
    ctx.oblige("corr:ports=real-functions(all states x symbols), tree-extraction=node-API", corr_bad == 0, "%d disagreements" % corr_bad)
    ctx.oblige("model:real-node-types-are-closed", model_bad == 0, "%d grammars not closed (%d closed, %d outside the model's scope)" % (model_bad, model_ok, model_skip))
    feat_hist = {}
    for f in feats.values():
        for x in f:
            feat_hist[x] = feat_hist.get(x, 0) + 1
    ctx.coverage.update({
        "evaluations": langs + trees, "distinct_nontrivial": len(distinct),
        "rule": "one evaluation = one language (ALL parse states x ALL symbols: port vs real lookup/iterator, real iterator vs real table, "
                "ALL symbol/field ids round-tripped through C and Rust APIs) or one error-free real tree (node-types conformance + every "
                "(state, look-ahead) the parser acted on must be listed by the real iterator); non-trivial tree := contains a field, an alias "
                "or a child allowed only through a supertype; distinct by hash of (grammar, document)",
        "samples": samples, "languages": langs, "trees_judged": trees, "trees_conforming": tree_ok, "trees_with_errors_skipped": tree_err,
        "grammars_rejected_or_skipped": skips[:10], "random_grammar_features": feat_hist, "document_tokens": sizes, "totals": tot,
        "driver_table_cells_agreeing_with_raw_layout": act_cells,
        "node_types_entries_no_symbol_carries(informational)": spurious,
        "model_closed": {"rules_with_productions_compared_to_real_reduce_actions": model_shapevars, "grammars_with_inlined_rules": model_inlined, "closed": model_ok, "out_of_scope": model_skip, "not_closed_unexpected": model_bad},
        "correspondence": {"compared": corr_cmp, "equal": corr_cmp - corr_bad},
        "judge": {"evaluated": judge_eval, "passed": judge_eval - judge_bad},
        "impl_vs_judge_failures": judge_bad, "model_vs_impl_disagreements": corr_bad,
    })
    if langs == 0:
        ctx.oblige("run:driver-produced-results", False, out[-500:])
    return ctx.finish()
