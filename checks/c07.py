"""C07 — No memory-unsafe behaviour, assertion failure or leak for any conforming use (PARTIAL).

Memory safety / absence of UB of the C execution is not provable in this technique; see
notes/C07.md.  Proved (TsVerif/C07/Props.lean): the bounds logic of array.h, of
stack_node_add_link and of the inline subtree representation; ownership logic: TsVerif/C08.
Tie: generated ts_subtree_can_inline / MAX_LINK_COUNT (translator); bit-field widths, link-array
slots and inline conditions MEASURED on the real headers through the unity build (`bits`);
correspondence of the array / pool / link / range-cursor models with the real static functions
through the unity build (range cursors under a guard-page allocator).  Judge on real executions: allocator balance
= 0 after every adversarial history; inline nodes of real trees fit; flags that only an external
scanner can set are clear (allocations are poisoned, so an uninitialised flag is visible).
Thorough tier only, as a SEARCH aid: ASan+UBSan unity build running adversarial API use."""
import hashlib
import json
import os
import re
from checklib import sh, parse_kv_line, REPO, CACHE


def measured_ties(ctx, kinds, bits_ok):
    """The facts of the headers the theorems rest on (bit widths of the inline size fields, slot count
    of StackNode.links, which leaves may be inlined) are MEASURED on the real code through the unity
    build (`bits` protocol of cunit_c07: an all-ones Subtree read back through the runtime's accessors,
    sizeof of the link array, new_leaf with a 9-bit symbol / with external tokens) and compared in the
    Lean driver with `TsVerif.C07.widths` and the generated MAX_LINK_COUNT.  Spelling of the headers
    (macro names, `: 4` vs `: (8 / 2)`, field order) is irrelevant.  The guard of stack_node_add_link and
    the inline decisions of new_leaf / edit are tied behaviourally (al / inl protocols, dump judge)."""
    ctx.oblige("tie:inline-field-widths+link-slots+inline-conditions-measured=model", kinds.get("bits", 0) >= 1 and bits_ok,
               "bits probe: %d results, ok=%s" % (kinds.get("bits", 0), bits_ok))
    for k in ("al", "inl"):
        ctx.oblige("tie:%s-protocol-exercised" % k, kinds.get(k, 0) >= 1, "no %s correspondence results" % k)


def _sanitizer_fingerprint(out, lang):
    """A report is identified by WHAT the sanitizer saw, not by the language it ran on: for leaks the
    library function that allocated the leaked object (first frame inside /repo) and the object size;
    for memory errors the kind and the faulting library function."""
    if "LeakSanitizer" in out and "ERROR: AddressSanitizer:" not in out.replace("ERROR: LeakSanitizer", ""):
        sites, sizes = set(), set()
        for blk in re.split(r"\n(?=(?:Direct|Indirect) leak of )", out):
            m = re.match(r"(?:Direct|Indirect) leak of (\d+) byte\(s\) in (\d+) object", blk)
            if not m:
                continue
            f = re.search(r"in (\w+) /repo/", blk)
            sites.add(f.group(1) if f else "?")
            sizes.add(str(int(m.group(1)) // max(1, int(m.group(2)))))
        return {"clause": "sanitizer", "report": "leak", "alloc_site": "+".join(sorted(sites)), "object_bytes": "+".join(sorted(sizes))}
    k = re.search(r"AddressSanitizer: ([\w-]+)", out)
    f = re.search(r"#\d+ 0x[0-9a-f]+ in (\w+) /repo/", out)
    return {"clause": "sanitizer", "report": k.group(1) if k else "other", "site": f.group(1) if f else "?", "lang": lang}


def sanitizer_search(ctx, langdirs):
    """SEARCH aid (never the claim): ASan+UBSan unity build with a generated parser compiled in."""
    rc, _ = sh("command -v clang")
    if rc != 0 or not langdirs:
        ctx.notes.append("sanitizer search skipped (no clang or no generated parser available)")
        return
    reports = 0
    runs = 0
    for lang, d in sorted(langdirs.items())[:3]:
        exe = os.path.join(ctx.workdir, "cunit_asan_" + lang)
        rc, out = sh(["clang", "-std=c11", "-O1", "-g", "-w", "-fsanitize=address,undefined", "-fno-sanitize-recover=undefined",
                      "-D_POSIX_C_SOURCE=200112L", "-D_DEFAULT_SOURCE", "-DTSV_REPO_LIB_C=\"%s/lib/src/lib.c\"" % REPO,
                      "-DTSV_PARSER_C=\"%s/parser.c\"" % d, "-DTSV_LANG_FN=tree_sitter_%s" % lang,
                      "-I", REPO + "/lib/src", "-I", REPO + "/lib/src/wasm", "-I", REPO + "/lib/include", "-I", d,
                      os.path.join(os.path.dirname(os.path.dirname(os.path.abspath(__file__))), "harness", "csrc", "cunit_c07.c"), "-o", exe], timeout=900)
        if rc != 0:
            ctx.notes.append("sanitizer build failed for %s: %s" % (lang, out[-200:]))
            continue
        for k in range(4):
            seed = ctx.seed * 31 + k
            rc, out = sh([exe], input_text="fuzz %d 1500\n" % seed, env={"ASAN_OPTIONS": "detect_leaks=1:abort_on_error=0", "UBSAN_OPTIONS": "print_stacktrace=1"}, timeout=900)
            runs += 1
            if rc != 0 or "ERROR: AddressSanitizer" in out or "runtime error:" in out or "LeakSanitizer" in out:
                reports += 1
                ctx.violation("judge", "sanitizer report (search aid) in the unity build for %s, `fuzz %d 1500`: %s" % (lang, seed, out[-600:]),
                              {"case": "asan-%s-%d" % (lang, seed), "spec": "fuzz %s %d 1500" % (lang, seed), "report": out[-3000:]},
                              fingerprint=_sanitizer_fingerprint(out, lang))
    # the deterministic range-cursor inputs of the corpus (cr / lx protocols) under ASan: the guard
    # allocator of the unity driver is compiled out there, the sanitizer itself reports the access
    exe = next((os.path.join(ctx.workdir, "cunit_asan_" + l) for l in sorted(langdirs) if os.path.exists(os.path.join(ctx.workdir, "cunit_asan_" + l))), None)
    corpus = os.path.join(os.path.dirname(os.path.dirname(os.path.abspath(__file__))), "corpus", "c07.txt")
    det = 0
    if exe and os.path.exists(corpus):
        for line in open(corpus):
            w = line.split()
            if not w or w[0] not in ("crx", "lxx"):
                continue
            proto = "cr" if w[0] == "crx" else "lx"
            rc, out = sh([exe], input_text="%s %s\n" % (proto, " ".join(w[1:])), env={"ASAN_OPTIONS": "detect_leaks=1:abort_on_error=0:redzone=128", "UBSAN_OPTIONS": "print_stacktrace=1"}, timeout=300)
            runs += 1
            det += 1
            if rc != 0 or "ERROR: AddressSanitizer" in out or "runtime error:" in out:
                reports += 1
                m = re.search(r"#0 0x[0-9a-f]+ in (\w+)", out)
                kind = re.search(r"AddressSanitizer: ([\w-]+)", out)
                ctx.violation("judge", "sanitizer report (search aid) in the unity build, `%s`: %s" % (line.strip(), out[-700:]),
                              {"case": "asan-" + line.strip(), "spec": line.strip(), "report": out[-3000:]},
                              fingerprint={"clause": "out-of-bounds-read", "kind": proto, "site": m.group(1) if m else "?",
                                           "access": "oob" if (kind and "overflow" in kind.group(1)) else (kind.group(1) if kind else "?"), "via": "asan"})
    ctx.coverage["sanitizer_search"] = {"role": "search aid only, not part of the claim", "runs": runs, "reports": reports}


class _JudgeFirst:
    """Buffers violations and hands the ones with a concrete failing input to ctx first
    (ctx.finish writes replay files for the first few only)."""
    def __init__(self, ctx):
        self.ctx, self.buf = ctx, []

    def violation(self, kind, what, payload, fingerprint=None, found_input=True):
        self.buf.append((0 if (found_input and kind == "judge") else 1, len(self.buf), kind, what, payload, fingerprint, found_input))

    def flush(self):
        for _, _, kind, what, payload, fp, fi in sorted(self.buf, key=lambda x: (x[0], x[1])):
            self.ctx.violation(kind, what, payload, fingerprint=fp, found_input=fi)
        self.buf = []


def run(ctx):
    jf = _JudgeFirst(ctx)
    ctx.trusted += [
        "hand models TsVerif/C07/Model.lean (array.h, stack_node_add_link) and Pools.lean (subtree/node pools, capture-list pool, external scanner state), each tied by correspondence with the real static functions through the unity build",
        "the counting/poisoning allocator installed through ts_set_allocator sees every allocation of the runtime (external scanners and the Rust side allocate elsewhere)",
        "sizes < 2^32",
    ]
    ctx.assumptions += [
        "PARTIAL: out-of-bounds pointer arithmetic, use-after-free through stale TSNodes, alignment, signed overflow and other undefined behaviour exist only in the C execution; "
        "no theorem covers them — they are searched for with ASan+UBSan in the thorough tier and that search is not part of the claim",
        "API histories respect the documented contracts (edits with start <= old_end, ranges accepted by the setter)",
    ]
    ctx.regen()
    ctx.prove(["TsVerif.C07.Props"], "TsVerif/C07/Audit.lean")
    driver = ctx.build_driver("tsv-c07")
    explorer = ctx.cargo_bin("c07")
    cunit = ctx.cunit("cunit_c07")
    langdump = ctx.cunit("cunit_c02")  # language tables for the Lean port of the S-expression writer (C06)
    if langdump:
        ctx.env = dict(ctx.env, C07_LANGDUMP=langdump)
    if not (explorer and cunit and os.path.exists(driver)):
        jf.flush()
        return ctx.finish()
    ops = os.path.join(ctx.workdir, "ops.txt")
    if ctx.replay:
        rp = json.load(open(ctx.replay))
        spec = os.path.join(ctx.workdir, "spec.txt")
        open(spec, "w").write(rp["case"].get("spec", "") + "\n")
        rc, out = sh([explorer, ops, cunit, "--spec", spec], env=ctx.env, timeout=3000)
    else:
        import subprocess
        try:
            rc, out = sh([explorer, ops, cunit], env=ctx.env, timeout=900 if ctx.tier == "thorough" else 240)
        except subprocess.TimeoutExpired:
            rc, out = 124, "explorer timed out (a history does not terminate)"
            sh("pkill -9 -f '%s'" % ops)
    ctx.log(out.strip().split("\n")[-1] if out.strip() else "explorer silent")
    if rc != 0:
        # a crash of the explorer IS the property failing (segfault / abort / assertion): find the history
        last = ""
        if os.path.exists(ops):
            for line in open(ops, errors="replace"):
                if line.startswith("spec "):
                    last = line.rstrip("\n").split(" ", 2)[2]
        ctx.oblige("run:explorer", False, out[-800:])
        jf.violation("judge", "the explorer process died or hung (signal/abort/timeout) in history `%s`" % last,
                      {"case": "crash", "spec": last, "output": out[-2000:]}, fingerprint={"clause": "crash"})
        jf.flush()
        return ctx.finish()
    specs = {}
    qkinds = {}
    for line in open(ops, errors="replace"):
        if line.startswith("spec "):
            _, cid, rest = line.rstrip("\n").split(" ", 2)
            specs[cid] = rest
        elif line.startswith("hist ") and " qkinds=" in line:
            for kvp in line.split(" qkinds=", 1)[1].split()[0].split(","):
                k, _, v = kvp.partition(":")
                qkinds[k] = qkinds.get(k, 0) + int(v or 0)
    rc, out = sh("%s < %s" % (driver, ops), timeout=3000)
    evals = 0
    distinct = set()
    samples = []
    kinds = {}
    hk = {}
    corr_cmp = corr_bad = judge_bad = 0
    allocs = 0
    bits_ok = True
    for line in out.split("\n"):
        if not line.strip():
            continue
        sid, kv = parse_kv_line(line)
        if "judge" not in kv:
            continue
        evals += 1
        cid = sid.split(".")[0]
        kinds[kv["kind"]] = kinds.get(kv["kind"], 0) + 1
        if kv["kind"] == "hist":
            hk[kv.get("hkind", "?")] = hk.get(kv.get("hkind", "?"), 0) + 1
            allocs += int(kv.get("allocs", "0") or 0)
            if int(kv.get("allocs", "0") or 0) >= 50:
                distinct.add(hashlib.sha1(specs.get(cid, cid).encode()).hexdigest())
        elif kv["kind"] in ("arr", "dump"):
            distinct.add(hashlib.sha1((specs.get(cid, cid) + kv["kind"]).encode()).hexdigest())
        if len(samples) < 6 and evals % 211 == 1:
            samples.append({"case": sid, "spec": specs.get(cid, ""), "result": kv})
        payload = {"case": sid, "spec": specs.get(cid, ""), "result": kv}
        if kv["judge"] != "ok":
            judge_bad += 1
            parts = kv["judge"].split(":")
            fp = {"clause": parts[1] if len(parts) > 1 else kv["judge"], "kind": kv["kind"]}
            if fp["clause"] == "allocator-balance" and len(parts) > 4 and parts[2] == "detail":
                # a leak attributed to one Query::new call: its outcome (ok / Syntax / Field / …) and the history kind
                fp["leak_in"] = "Query::new:" + parts[4]
                fp["hkind"] = kv.get("hkind", "?")
            if fp["clause"] == "assertion-or-crash":
                # only queries of ONE shape are compiled in a child process (a group of nothing but predicates that
                # takes a quantifier / capture / field); site = the function named by the assertion message
                fp["site"] = parts[-2] if len(parts) > 3 else "?"
                fp["shape"] = "empty-pattern-with-suffix"
            if fp["clause"] == "out-of-bounds-read":
                # site = the function whose read is out of bounds; access = oob | uaf (guard page of a live / freed block)
                fp["site"] = parts[2] if len(parts) > 2 else "?"
                if kv["kind"] == "cr":
                    fp["access"] = parts[3] if len(parts) > 3 else "?"
            if fp["clause"] == "uninitialised-flag":
                fp["field"] = parts[2] if len(parts) > 2 else "?"
                for p in parts:
                    if p.startswith("heapleaf=") or p.startswith("changed="):
                        k, v = p.split("=")
                        fp[k] = v
            jf.violation("judge", "C07 judge failed on the real library's output: %s (%s)" % (kv["judge"], specs.get(cid, "")), payload, fingerprint=fp)
        if kv["corr"] != "na":
            corr_cmp += 1
            if kv["corr"] != "ok":
                corr_bad += 1
                if kv["kind"] == "bits":
                    bits_ok = False
                jf.violation("corr", "model and real code disagree (%s): %s" % (kv["kind"], kv["corr"]),
                              dict(payload, correspondence="TsVerif.C07.Arr / generated ts_subtree_can_inline vs lib/src/array.h, subtree.c"),
                              fingerprint={"corr": "diff", "kind": kv["kind"]}, found_input=False)
    ctx.oblige("corr:array-model+can_inline=real", corr_bad == 0, "%d disagreements" % corr_bad)
    if not ctx.replay:
        measured_ties(ctx, kinds, bits_ok)
    if ctx.tier == "thorough" and not ctx.replay:
        langdirs = {}
        for lang in ("arith", "jsonish", "lst"):
            ds = sorted([d for d in os.listdir(os.path.join(CACHE, "langs")) if d.startswith(lang + "-") and os.path.exists(os.path.join(CACHE, "langs", d, "parser.c"))],
                        key=lambda d: -os.path.getmtime(os.path.join(CACHE, "langs", d)))
            if ds:
                langdirs[lang] = os.path.join(CACHE, "langs", ds[0])
        sanitizer_search(ctx, langdirs)
    ctx.coverage.update({
        "evaluations": evals, "distinct_nontrivial": len(distinct),
        "rule": "one evaluation = one adversarial API history with all handles released afterwards (allocator balance), or one dumped real tree "
                "(inline nodes fit, scanner-only flags clear), or one random sequence of array.h operations run on the real macros, or one "
                "ts_subtree_can_inline/new_leaf probe; non-trivial := a history with >= 50 allocations, every array sequence and dump; distinct by hash of the spec",
        "samples": samples, "kinds": kinds, "history_kinds": hk, "allocations_observed": allocs,
        "near_valid_queries": {"outcomes_of_Query_new": qkinds, "rule": "each compiled (or rejected) query is followed by an allocator-balance check"},
        "correspondence": {"compared": corr_cmp, "equal": corr_cmp - corr_bad},
        "judge": {"evaluated": evals, "passed": evals - judge_bad},
        "impl_vs_judge_failures": judge_bad, "model_vs_impl_disagreements": corr_bad,
        "partial": "memory safety / UB of the C execution is NOT proved; sanitizers are a search aid (thorough tier)",
    })
    if evals == 0:
        ctx.oblige("run:driver-produced-results", False, out[-500:])
    jf.flush()
    return ctx.finish()
