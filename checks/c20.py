"""C20 — Updating a test corpus preserves its inputs and converges.

Proof: TsVerif/C20/Props.lean over hand ports (TsVerif/C20/Model.lean) of the corpus reader/writer
of crates/cli/src/test.rs and of format_sexp.  Tie: T-corr — the REAL parse_tests and
run_tests_at_path(update=true) run in-process on generated corpus files (twice); the Lean model,
given the original bytes and the table input -> rendering of the real parser, must predict the parsed
entries and the rewritten bytes.  Judge: the property's clauses decided on the real files/entries."""
import hashlib
import json
import os
from checklib import sh, parse_kv_line

PRIMARY = ["skip-dropped", "platform-dropped", "language-dup", "suffix-lost", "preamble-deleted", "filtered-expectation-changed",
           "passing-changed-same-quote"]
WHAT = {
    "skip-dropped": "--update drops a :skip test from the rewritten corpus file",
    "platform-dropped": "--update drops a test whose :platform(..) does not match this OS",
    "language-dup": "--update writes a test once per :language(..) line (duplicates it)",
    "suffix-lost": "--update rewrites delimiters without the file's suffix",
    "preamble-deleted": "--update deletes the text in front of the first test header",
    "read-differs": "the tests returned by the real reader (names, attributes, inputs) are not the ones delimited in the file: a "
                    "delimiter line is a run of >= 3 '=' / '-' followed by EXACTLY the file's suffix and the line ending",
    "key-changed": "a test's name/attributes/input differ after --update",
    "missing-tests": "tests are missing after --update",
    "extra-tests": "additional tests appear after --update",
    "passing-changed": "a test that passed as written (expectation = the parser's rendering, with or without error nodes) has a "
                       "different expectation after --update (the rewrite must only re-format it)",
    "passing-changed-same-quote": "a test that passed as written has a different (broken) expectation after --update, and every such "
                                  "expectation contains a quoted quote character of the same kind ((MISSING \"\"\") / (UNEXPECTED ''')): "
                                  "format_sexp closes the token at the inner quote",
    "passes": "an updated error-free test does not pass afterwards",
    "idempotent": "a second --update changes the file again",
    "delims-changed": "header/divider delimiter lengths of a test differ after --update",
    "filtered-expectation-changed": "a test excluded by the --include/--exclude filter had its well-formed expectation changed by --update",
    "format-normalize": "normalize_sexp_output(format_sexp(s)) != s for an S-expression printed by the runtime",
}


def run(ctx):
    ctx.trusted += [
        "hand ports TsVerif/C20/Model.lean of parse_delimiter_line, suffix_matches, parse_header, parse_test_content, "
        "build_test_entry, normalize_sexp_output, write_tests_to_buffer, the update branches of run_tests and format_sexp "
        "(tied by correspondence with the real functions on generated corpus files)",
        "the parser is a parameter of the model: the table (language, input) -> (to_sexp, strip_sexp_fields, CST rendering, has_error) "
        "is produced by the real parser in the same run",
        "char::is_whitespace is ported as the Unicode White_Space table of Rust 1.95",
    ]
    ctx.assumptions += [
        "well-formed corpus file: valid UTF-8; its tests (with the expectations a correct update writes), written in the writer's "
        "canonical form, read back by the specification of a delimiter line as the same names / attributes / inputs / delimiter "
        "lengths (judge guard canonB; implied by SimpleS, the hypothesis of the theorems; measured: holds on > 99 % of the explored "
        "files); that the real reader returns the tests delimited in the file is itself judged (read-differs); "
        "the idempotence clause is judged only when every S-expression expectation is empty or one parenthesised group",
        "a run stopped by :fail-fast or an unknown :language(..) writes nothing: such a file counts as not updated "
        "(update_passes is judged only on files that were written)",
        "the --file-name filter, --show-fields and directory traversal are not exercised (file-level update, with and without --include/--exclude)",
    ]
    ctx.regen()
    ctx.prove(["TsVerif.C20.Props", "TsVerif.C20.Idempotent", "TsVerif.C20.Round11", "TsVerif.C20.Round11b"], "TsVerif/C20/Audit.lean")
    driver = ctx.build_driver("tsv-c20")
    explorer = ctx.cargo_bin("c20", features="cli")
    if not (explorer and os.path.exists(driver)):
        return ctx.finish()
    ops = os.path.join(ctx.workdir, "ops.txt")
    scratch = os.path.join(ctx.workdir, "scratch")
    env = dict(ctx.env)
    env["XDG_CACHE_HOME"] = os.path.join(ctx.workdir, "xdg-cache")
    env["XDG_CONFIG_HOME"] = os.path.join(ctx.workdir, "xdg-config")
    if ctx.replay:
        rp = json.load(open(ctx.replay))
        spec = os.path.join(ctx.workdir, "spec.txt")
        open(spec, "w").write(rp["case"].get("spec", "") + "\n")
        rc, out = sh([explorer, ops, scratch, "--spec", spec], env=env, timeout=3000)
    else:
        rc, out = sh([explorer, ops, scratch], env=env, timeout=3000)
    ctx.log(out.strip().split("\n")[-1] if out.strip() else "explorer silent")
    if rc != 0:
        ctx.oblige("run:explorer", False, out[-800:])
        return ctx.finish()
    specs = {}
    for line in open(ops):
        if line.startswith("spec "):
            _, cid, rest = line.rstrip("\n").split(" ", 2)
            specs[cid] = rest
    # Which repairs the model follows is decided by the explorer, behaviourally: it probes the real code on one
    # distinguishing input per repaired defect and writes a `fixes …` line at the top of the ops file.  (The status of
    # a finding plays no role: a reverted fix makes the model follow the old behaviour and the judge report the old
    # violation; a harmless rewrite of the code changes nothing.)
    fixes = {}
    for line in open(ops):
        if line.startswith("fixes "):
            bits = line.split()[1:]
            fixes = dict(zip(("keepUnrun", "oneCorrection", "keepSuffixPreamble", "quoteReset", "keepCstFiltered", "sameQuote"),
                             [b == "1" for b in bits]))
            break
    ctx.coverage["model_follows_repairs (probed on the real code)"] = fixes
    rc, out = sh("%s < %s" % (driver, ops), timeout=3000)
    evals = 0
    distinct = set()
    samples = []
    corr = {"parse0": 0, "parse1": 0, "upd1": 0, "upd2": 0, "res1": 0, "res2": 0, "bupd1": 0, "bupd2": 0}
    compared = 0
    judge_bad = 0
    dist = {"tests": {}, "suffixed": 0, "crlf": 0, "with_attrs": 0, "with_delimlike_inputs": 0, "with_wrong_expectations": 0,
            "written": 0, "not_written": 0, "update_filter": {"n": 0, "i": 0, "x": 0, "b": 0}, "files_with_carried_over_tests": 0, "wellformed_expectations": 0, "bytes_total": 0, "clauses_failed": {}}
    corr_viol = []
    sx_total = sx_class = 0
    strip_total = strip_ok = strip_real_ok = 0
    acts_total = acts_ok = ent_total = ent_canon = ent_shape = ent_expect = 0
    odd_acts = odd_plain = 0
    wf_canon = wf_simples = simples_not_canon = near_all = near_ws = near_ws_canon_files = 0
    for line in out.split("\n"):
        if not line.strip():
            continue
        cid, kv = parse_kv_line(line)
        if cid == "strip":
            strip_total += 1
            strip_ok += kv.get("strip") == "ok"
            if kv.get("strip") != "ok" and len(corr_viol) < 10:
                corr_viol.append(("corr", "TsVerif.C20.stripSexpFields and strip_sexp_fields disagree on a synthetic rendering",
                                  {"input_hex": kv.get("strip", "")[5:]}, {"corr": "strip"}, False))
            continue
        if "judge" not in kv:
            continue
        evals += 1
        n0 = int(kv.get("n0", "0"))
        b = "0" if n0 == 0 else "1" if n0 == 1 else "2-6" if n0 <= 6 else "7-12" if n0 <= 12 else "13-20" if n0 <= 20 else ">20"
        dist["tests"][b] = dist["tests"].get(b, 0) + 1
        for k, f in (("suffixed", "suffixed"), ("crlf", "crlf"), ("wellformed_expectations", "wf")):
            dist[k] += int(kv.get(f, "0"))
        dist["with_attrs"] += int(kv.get("attrs", "0")) > 0
        dist["with_delimlike_inputs"] += int(kv.get("delimlike", "0")) > 0
        dist["with_wrong_expectations"] += int(kv.get("wrong", "0")) > 0
        dist["written" if kv.get("wrote") == "1" else "not_written"] += 1
        dist["bytes_total"] += int(kv.get("bytes", "0"))
        dist["update_filter"][kv.get("filter", "n")] = dist["update_filter"].get(kv.get("filter", "n"), 0) + 1
        dist["files_with_carried_over_tests"] += int(kv.get("carried", "0")) > 0
        sx_total += int(kv.get("sx", "0"))
        sx_class += int(kv.get("sxclass", "0"))
        acts_total += int(kv.get("acts", "0"))
        acts_ok += int(kv.get("actok", "0"))
        strip_real_ok += int(kv.get("stripok", "0"))
        ent_total += n0
        ent_canon += int(kv.get("canon", "0"))
        ent_shape += int(kv.get("shape", "0"))
        ent_expect += int(kv.get("expectok", "0"))
        wf_canon += kv.get("canonf") == "1"
        odd_acts += int(kv.get("oddacts", "0"))
        odd_plain += int(kv.get("oddplain", "0"))
        wf_simples += kv.get("simples") == "1"
        simples_not_canon += kv.get("simples") == "1" and kv.get("canonf") != "1"
        near_all += int(kv.get("nearall", "0"))
        near_ws += int(kv.get("nearws", "0"))
        near_ws_canon_files += kv.get("canonf") == "1" and int(kv.get("nearws", "0")) > 0
        if kv.get("acts") != kv.get("actok"):
            corr_viol.append(("corr", "an answer of the real parser violates ActOK (hypothesis of update_idempotent_partial: plain rendering "
                              "without fields, equal renderings when there are no fields, error-free renderings in the format class)",
                              {"case": cid, "spec": specs.get(cid, ""), "result": {k: v for k, v in kv.items() if k != "model1"}},
                              {"corr": "actok"}, False))
        if kv.get("sx") != kv.get("sxclass"):
            corr_viol.append(("corr", "an S-expression printed by the runtime for an error-free tree is not a balanced token "
                              "sequence (hypothesis class of format_normalize)",
                              {"case": cid, "spec": specs.get(cid, ""), "result": {k: v for k, v in kv.items() if k != "model1"}},
                              {"corr": "format-class"}, False))
        if n0 >= 2 and (int(kv.get("attrs", "0")) or int(kv.get("delimlike", "0")) or int(kv.get("wrong", "0"))):
            distinct.add(hashlib.sha1(specs.get(cid, cid).encode()).hexdigest())
        if len(samples) < 5 and evals % 101 == 7:
            samples.append({"case": cid, "spec": specs.get(cid, "")[:400], "result": {k: v for k, v in kv.items() if k != "model1"}})
        for k in corr:
            compared += 1
            if kv.get(k) != "ok":
                corr[k] += 1
                corr_viol.append(("corr", "Lean model and crates/cli/src/test.rs disagree (%s): %s" % (k, kv.get(k)),
                              {"case": cid, "spec": specs.get(cid, ""), "result": kv,
                               "correspondence": {"parse0": "TsVerif.C20.parseFile vs parse_tests (original file)",
                                                  "parse1": "TsVerif.C20.parseFile vs parse_tests (file after update)",
                                                  "upd1": "TsVerif.C20.updateFile vs run_tests_at_path(update) (first run)",
                                                  "upd2": "TsVerif.C20.updateFile vs run_tests_at_path(update) (second run)",
                                                  "bupd1": "second file of a directory update, first run (model: untouched iff the run stopped in the first file)",
                                                  "bupd2": "second file of a directory update, second run",
                                                  "res1": "TsVerif.C20.updateStatus vs Ok/Err of run_tests_at_path(update) (first run)",
                                                  "res2": "TsVerif.C20.updateStatus vs Ok/Err of run_tests_at_path(update) (second run)"}[k]},
                              {"corr": k}, False))
        dist["directory_runs"] = dist.get("directory_runs", 0) + int(kv.get("dir", "0"))
        if kv.get("bjudge", "ok") != "ok":
            judge_bad += 1
            c = kv["bjudge"].split(":", 1)[1]
            ctx.violation("judge", "C20 judge failed on the second file of a directory update: " + c,
                          {"case": cid, "spec": specs.get(cid, ""), "clause": c, "result": {k: v for k, v in kv.items() if k != "model1"}},
                          fingerprint={"clause": c})
        if kv["judge"] != "ok":
            judge_bad += 1
            clauses = kv["judge"].split(":", 1)[1].split(",")
            flags = {("with_" + p.replace("-", "_")): ("1" if p in clauses else "0") for p in PRIMARY}
            for c in clauses:
                dist["clauses_failed"][c] = dist["clauses_failed"].get(c, 0) + 1
                fp = {"clause": c}
                if c == "filtered-expectation-changed":
                    fp["carried_cst"] = "1" if int(kv.get("carriedcst", "0")) > 0 else "0"
                if c not in PRIMARY:
                    fp["carried_cst"] = "1" if int(kv.get("carriedcst", "0")) > 0 else "0"
                    fp.update(flags)
                    fp["quoted"] = kv.get("quoted", "0")
                ctx.violation("judge", "C20 judge failed on the real files: %s — %s" % (c, WHAT.get(c, c)),
                              {"case": cid, "spec": specs.get(cid, ""), "clause": c, "all_failed_clauses": clauses,
                               "result": {k: v for k, v in kv.items() if k != "model1"}},
                              fingerprint=fp)
    # concrete judge failures were registered first (they carry a failing input); then the disagreements
    for kind, what, payload, fp, found in corr_viol[:10]:
        ctx.violation(kind, what, payload, fingerprint=fp, found_input=found)
    total_bad = sum(corr.values())
    ctx.oblige("corr:parseFile=parse_tests", corr["parse0"] + corr["parse1"] == 0, "%d disagreements" % (corr["parse0"] + corr["parse1"]))
    ctx.oblige("tie:printed-sexps-in-format_normalize-class", sx_total == sx_class,
               "%d of %d S-expressions printed for error-free trees are balanced token sequences" % (sx_class, sx_total))
    ctx.oblige("corr:stripSexpFields=strip_sexp_fields", strip_total == strip_ok and strip_real_ok == acts_total,
               "synthetic %d/%d, real renderings %d/%d" % (strip_ok, strip_total, strip_real_ok, acts_total))
    ctx.coverage["strip_sexp_fields"] = {"synthetic": strip_total, "synthetic_equal": strip_ok,
                                         "real_renderings": acts_total, "real_equal": strip_real_ok}
    ctx.oblige("tie:parser-answers-satisfy-ActOK", acts_total == acts_ok, "%d of %d" % (acts_ok, acts_total))
    ctx.coverage["idempotence_hypotheses_measured"] = {
        "parser_answers": acts_total, "satisfying_ActOK": acts_ok,
        "real_entries": ent_total, "with_canonical_flags (attrs = flagsOf name attrsStr)": ent_canon,
        "with_EntryOKG_shape (languages, has_fields, trimmed CST text)": ent_shape,
        "with_expectation_empty_or_balanced_or_cst": ent_expect}
    ctx.oblige("tie:real-entries-have-EntryOKG-shape-and-canonical-flags", ent_shape == ent_total and ent_canon == ent_total,
               "shape %d, canonical %d of %d" % (ent_shape, ent_canon, ent_total))
    # well-formedness guard of the preservation / idempotence clauses and its relation to the theorems' hypothesis
    ctx.oblige("tie:SimpleS-implies-canonical-form-reads-back (roundtrip_built)", simples_not_canon == 0,
               "%d files satisfy SimpleS but their canonical form does not read back" % simples_not_canon)
    need_files = 150 if ctx.tier == "quick" else 1500
    ctx.oblige("inputs:judged-files-are-mostly-well-formed", ctx.replay or wf_canon * 10 >= evals * 6,
               "canonical-form guard holds on %d of %d files (SimpleS on %d)" % (wf_canon, evals, wf_simples))
    ctx.oblige("inputs:near-delimiter-body-lines", ctx.replay or (near_ws >= need_files // 3 and near_ws_canon_files >= need_files // 5),
               "%d input lines that are a dash run followed by white space / the suffix with white space (not delimiters), in %d "
               "well-formed files; %d delimiter-like input lines in all" % (near_ws, near_ws_canon_files, near_all))
    ctx.oblige("inputs:field-names-with-digits-or-upper-case", ctx.replay or (odd_acts >= need_files // 5 and odd_plain >= need_files // 10),
               "%d error-free renderings with a field name that is not snake_case (zoo/fldx: arg1, argB, x_2, _rest9, Ret); %d tests "
               "whose expectation for such a rendering is written without field names" % (odd_acts, odd_plain))
    ctx.coverage["non_snake_case_field_names"] = {"renderings": odd_acts, "tests_with_fieldless_expectation": odd_plain}
    ctx.coverage["well_formedness_guard"] = {
        "files": evals, "canonical_form_reads_back": wf_canon, "SimpleS": wf_simples, "SimpleS_but_not_canonical": simples_not_canon,
        "delimiter_like_input_lines": near_all, "near_delimiter_whitespace_suffix_lines": near_ws,
        "well_formed_files_with_such_lines": near_ws_canon_files}
    ctx.coverage["format_class"] = {"printed_error_free_sexps": sx_total, "in_theorem_class": sx_class}
    ctx.oblige("corr:directory-update-second-file", corr["bupd1"] + corr["bupd2"] == 0,
               "%d disagreements" % (corr["bupd1"] + corr["bupd2"]))
    ctx.oblige("corr:updateStatus=Ok/Err-of-run_tests_at_path", corr["res1"] + corr["res2"] == 0,
               "%d disagreements" % (corr["res1"] + corr["res2"]))
    ctx.oblige("corr:updateFile=run_tests_at_path(update)", corr["upd1"] + corr["upd2"] == 0, "%d disagreements" % (corr["upd1"] + corr["upd2"]))
    ctx.coverage.update({
        "evaluations": evals, "distinct_nontrivial": len(distinct),
        "rule": "one evaluation = one corpus file (committed corpus first, then generated: 1-20 tests, names with punctuation/"
                "newlines/non-ASCII, attribute lines :skip/:error/:fail-fast/:language/:cst/:platform + malformed ones, delimiter "
                "lengths 3-12 (closing may differ), 40% with a suffix, inputs for zoo languages stmt/lst/fldx (fldx: field names arg1, argB, x_2, _rest9, Ret) incl. delimiter-like lines and near-delimiter lines (dash/equals runs of length "
                "divider-1/=/+1.. followed by blanks, tabs, CR, Unicode white space, the suffix with white space around it, prefixes/"
                "extensions of the suffix, leading white space; also inside expectations) and "
                "erroneous inputs, expectations right/wrong/missing/badly indented/commented/junk, CRLF; 40% of the files updated through a "
                "name filter, TestOptions.include or .exclude, so that some tests are carried over unprocessed) run through the real "
                "parse_tests, run_tests_at_path(update=true), parse_tests, run_tests_at_path(update=true); non-trivial := >= 2 tests and "
                "(an attribute or a delimiter-like input line or a test that does not pass as written); distinct by hash of the file bytes",
        "samples": samples, "input_distribution": dist,
        "correspondence": {"compared": compared, "equal": compared - total_bad, "by_kind_disagreements": corr},
        "judge": {"evaluated": evals, "passed": evals - judge_bad},
        "impl_vs_judge_failures": judge_bad, "model_vs_impl_disagreements": total_bad,
    })
    if evals == 0:
        ctx.oblige("run:driver-produced-results", False, out[-500:])
    return ctx.finish()
