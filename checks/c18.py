"""C18 — Tags describe the source consistently (ranges, lines, columns, docs).

Proof: TsVerif/C18/Props.lean over hand ports (Model.lean) of from_utf8 / LossyUtf8 / utf16_len /
line_range / the prev_line_info cache / the tag queue / the match loop of TagsIter::next.
Tie: T-corr — real TagsContext::generate_tags vs the port fed with the query matches obtained
through the public API (every field of every tag, emission order), LossyUtf8 on byte strings, and
(when hooks/C18-reexport.diff is applied) the real private line_range / utf16_len.
Judge: Lean judgeTag / judgeOrder / judgeDocs on every real tag."""
import hashlib
import json
import os
import re
from checklib import sh, parse_kv_line, REPO, HARNESS

FLAGS = ["drain-skips-ignored", "lossy-fixed", "cache-multirow-fixed"]
VARIANTS = ["+".join(f for b, f in enumerate(FLAGS) if i >> b & 1) or "as-is" for i in range(8)]
NV = len(VARIANTS)


def run(ctx):
    ctx.trusted += [
        "hand ports in TsVerif/C18/Model.lean of core::str::from_utf8 error semantics, tree_sitter::LossyUtf8, "
        "tags.rs utf16_len / line_range / prev_line_info cache / tag_queue / TagsIter::next (tied by correspondence "
        "on every explored source: all fields of all tags and their order)",
        "the configuration (capture indices, pattern infos) is re-derived by the harness from the public Query API; "
        "query matching itself (QueryCursor::matches) is an input of the model, not modelled (C05/C11)",
        "doc strip regexes are a parameter: the one regex used by the check's queries (^//[ \\t]*) is modelled as a function",
    ]
    ctx.assumptions += [
        "line_range_spec: the name starts with a non-whitespace byte on its row (names of real tags are tokens)",
        "cache_correct / utf16_len_append: the line prefix and the names are well-formed UTF-8 (LossyUtf8 loses "
        "replacement characters otherwise: C17 finding, reported here as KNOWN-FINDING utf16-lossy)",
        "queue_sorted_dedup: matches arrive so that a later name never ends before an earlier name starts",
    ]
    if ctx.replay:
        ctx.known = []   # a replay reports its case even when it is a listed known finding
    ctx.prove(["TsVerif.C18.Props"], "TsVerif/C18/Audit.lean")
    driver = ctx.build_driver("tsv-c18")
    explorer = ctx.cargo_bin("c18")
    if not (explorer and os.path.exists(driver)):
        return ctx.finish()
    ops = os.path.join(ctx.workdir, "ops.txt")
    if ctx.replay:
        rp = json.load(open(ctx.replay))
        spec = os.path.join(ctx.workdir, "spec.txt")
        open(spec, "w").write(rp["case"].get("spec", "") + "\n")
        rc, out = sh([explorer, ops, "--spec", spec], env=ctx.env, timeout=3000)
    else:
        rc, out = sh([explorer, ops], env=ctx.env, timeout=3000)
    summary = out.strip().split("\n")[-1] if out.strip() else "explorer silent"
    ctx.log(summary)
    if rc != 0:
        ctx.oblige("run:explorer", False, out[-800:])
        return ctx.finish()
    # function level through the hook.  Whether /repo carries the hook is decided by a BUILD PROBE (does the
    # bin that calls tree_sitter_tags::verif::{line_range, utf16_len} compile?), not by matching source text.
    hook_note = "hook hooks/C18-reexport.diff not present (c18fn does not build against tree_sitter_tags::verif): private line_range/utf16_len exercised only through generate_tags and LossyUtf8"
    if not ctx.replay:
        rc, o = sh(["cargo", "rustc", "--release", "--offline", "--bin", "c18fn", "--", "--cfg", "tsv_c18_hook"], cwd=HARNESS, timeout=3000)
        if rc == 0:
            ops2 = os.path.join(ctx.workdir, "ops_fn.txt")
            rc, o = sh([os.path.join(HARNESS, "target", "release", "c18fn"), ops2], env=ctx.env, timeout=3000)
            if rc == 0:
                with open(ops, "a") as f:
                    f.write(open(ops2).read())
                hook_note = "hook present: " + o.strip().split("\n")[-1]
            else:
                hook_note = "hook present but c18fn failed (optional step, skipped): " + o[-300:]
        elif "verif" not in o:
            hook_note = "c18fn does not build for a reason other than a missing hook (optional step, skipped): " + o[-300:]
    ctx.notes.append(hook_note)
    ctx.log(hook_note)
    specs = {}
    for line in open(ops):
        if line.startswith("spec "):
            _, cid, rest = line.rstrip("\n").split(" ", 2)
            specs[cid] = rest
    rc, out = sh("%s < %s" % (driver, ops), timeout=3000)
    evals = tags = 0
    fn_evals = {"u16": 0, "lr": 0}
    fn_spec_differs = 0
    distinct = set()
    samples = []
    var_ok = [True] * NV
    first_diff = None
    corr_cases = 0
    corr_bad_asis = 0
    judge_bad = lossy_cases = lossy_tags = skipped = ign_cases = 0
    multi = nonascii = 0
    capi_cmp = capi_bad = late_cases = 0
    docs_by_set = {}
    mrdocs = 0
    row_start = {"form-feed": 0, "stray-CR": 0, "VT": 0, "unicode-blank": 0}
    perm_counts = {}
    ties = 0
    touch_repl = 0
    placement = {"inside": 0, "equal": 0, "front": 0, "behind": 0}
    names_total = arr_bad = arr_bad_cases = 0
    arr_bad_ids = []
    for line in out.split("\n"):
        if not line.strip():
            continue
        cid, kv = parse_kv_line(line)
        if "corr" not in kv:
            continue
        corr_cases += 1
        vs = kv.get("vars", "0" * NV)
        for i in range(NV):
            var_ok[i] = var_ok[i] and vs[i:i + 1] == "1"
        if kv["corr"] != "ok":
            corr_bad_asis += 1
            if first_diff is None or (vs == "0" * NV and first_diff[2] != "0" * NV):
                first_diff = (cid, kv, vs)
        if "kind" in kv:
            fn_evals[kv["kind"]] = fn_evals.get(kv["kind"], 0) + 1
            if kv.get("spec") == "differs":
                fn_spec_differs += 1
            continue
        evals += 1
        tags += int(kv.get("tags", 0))
        multi += int(kv.get("multi", 0))
        nonascii += int(kv.get("nonascii", 0))
        skipped += int(kv.get("skipped", 0))
        late_cases += int(kv.get("late", 0))
        qid = cid.split("-", 1)[0]
        names_total += int(kv.get("names", 0))
        if int(kv.get("arrbad", 0)) > 0:
            arr_bad += int(kv["arrbad"])
            arr_bad_cases += 1
            arr_bad_ids.append(cid)
        qid = cid.split("-", 1)[0]
        if int(kv.get("multi", 0)) >= 2 or int(kv.get("nonascii", 0)) >= 1:
            distinct.add(hashlib.sha1(specs.get(cid, cid).encode()).hexdigest())
        if len(samples) < 5 and evals % 83 == 1:
            samples.append({"case": cid, "spec": specs.get(cid, "")[:200], "result": {k: kv[k] for k in ("corr", "judge", "tags", "matches", "multi", "nonascii")}})
        if kv["judge"] != "ok":
            clause = kv["judge"].split(":")[1] if ":" in kv["judge"] else kv["judge"]
            judge_bad += 1
            if clause == "ignored-emitted":
                ign_cases += 1
            ctx.violation("judge", "C18 judge failed on a real tag: " + kv["judge"][:300],
                          {"case": cid, "spec": specs.get(cid, ""), "result": kv},
                          fingerprint={"queryset": qid, "clause": clause})
        if int(kv.get("lossy", 0)) > 0:
            lossy_cases += 1
            lossy_tags += int(kv["lossy"])
            ctx.violation("judge", "C18 UTF-16 column differs from the lossy decoding of the line prefix (LossyUtf8 drops "
                          "replacement characters on ill-formed UTF-8): " + kv.get("lossymsg", ""),
                          {"case": cid, "spec": specs.get(cid, ""), "result": kv},
                          fingerprint={"queryset": qid, "clause": "utf16-lossy"})
        if kv.get("capi", "skipped") != "skipped":
            capi_cmp += 1
            if kv["capi"] != "ok":
                capi_bad += 1
                ctx.violation("judge", "C18 C API (c_lib.rs ts_tagger_tag) disagrees with the Rust API on the same input: " + kv["capi"][:200],
                              {"case": cid, "spec": specs.get(cid, ""), "result": kv},
                              fingerprint={"queryset": qid, "clause": "capi"})
        for cls, key in (("form-feed", "rsff"), ("stray-CR", "rscr"), ("VT", "rsvt"), ("unicode-blank", "rsuni")):
            row_start[cls] += int(kv.get(key, 0))
        ties += int(kv.get("ties", 0))
        touch_repl += int(kv.get("touchrepl", 0))
        for pm in kv.get("perms", "-").split(","):
            if pm != "-" and pm:
                perm_counts[pm] = perm_counts.get(pm, 0) + 1
        mrdocs += int(kv.get("mrdocs", 0))
        for cls, key in (("inside", "plin"), ("equal", "pleq"), ("front", "plfront"), ("behind", "plbehind")):
            placement[cls] += int(kv.get(key, 0))
        docs_by_set[qid] = docs_by_set.get(qid, 0) + int(kv.get("withdocs", 0))
    matching = [VARIANTS[i] for i in range(NV) if var_ok[i]]
    if corr_cases and not matching:
        cid, kv, vs = first_diff
        what = ("API probe (error code / cancellation) of crates/tags does not answer as tags.h documents"
                if kv.get("kind") == "cerr" else "model (TsVerif.C18.runTags / utf16Len / lineRange) and implementation disagree")
        ctx.violation("corr", "%s: %s %s (no code variant matches all cases)" % (what, cid, kv["corr"]),
                      {"case": cid, "spec": specs.get(cid, ""), "result": kv,
                       "correspondence": "TsVerif.C18.Model vs crates/tags/src/tags.rs + lib/binding_rust/lib.rs:LossyUtf8"},
                      fingerprint={"corr": "diff"}, found_input=False)
    ctx.oblige("corr:runTags=generate_tags", bool(matching) or corr_cases == 0,
               "%d cases differ from the as-is port; variants matching all cases: %s" % (corr_bad_asis, matching))
    if matching and not ctx.replay:
        # the corpus holds a distinguishing input for every repaired defect (ignored placeholder at the drain,
        # multi-row name, ill-formed UTF-8), so the behaviour of the real code decides the variant uniquely
        ctx.oblige("variant:decided-by-probes", len(matching) == 1, "variants matching all cases: %s" % matching)
    if matching and matching[0] != "as-is":
        ctx.notes.append("the code matches the model variant '%s' (a proposed fix is applied), not the pinned as-is port" % matching[0])
        ctx.log("NOTE: code matches variant %s" % matching[0])
    ctx.coverage.update({
        "evaluations": evals + fn_evals["u16"] + fn_evals["lr"], "distinct_nontrivial": len(distinct),
        "rule": "one evaluation = one source run through the real TagsContext::generate_tags (query sets stmt, stmt0 = no locals, lst), "
                "all tags compared with the Lean port and judged, or one byte string through LossyUtf8/utf16_len/line_range; "
                "non-trivial := >= 2 tags on one row or a non-ASCII byte on the line before/inside a name; distinct by hash of (query set, source)",
        "samples": samples,
        "sources": evals, "tags_judged": tags, "tags_sharing_a_row": multi, "tags_with_non_ascii_line_prefix_or_name": nonascii,
        "tags_skipped_precondition": skipped, "function_level": fn_evals,
        "lossy_utf8_differs_from_from_utf8_lossy_in_fn_cases": fn_spec_differs,
        "arrival_order": {"match_names": names_total,
                          "names_ending_before_an_earlier_name_starts": arr_bad,
                          "sources_violating_the_hypothesis": arr_bad_cases, "which": arr_bad_ids[:10],
                          "sources_with_a_late_arrival(noLate=false)": late_cases,
                          "meaning": "hypothesis of queue_sorted_dedup_partial / queue_lowest_pattern_run_partial measured on the real "
                                     "QueryCursor::matches streams of all explored sources"},
        "c_api": {"compared": capi_cmp, "equal": capi_cmp - capi_bad,
                  "what": "ts_tagger_new/add_language/tag + ts_tags_buffer_* read through the C struct layout of tags.h vs the Rust iterator"},
        "tags_with_docs_by_query_set": docs_by_set,
        "doc_captures_spanning_several_rows": mrdocs,
        "tags_by_placement_of_name_vs_tagged_node": placement,
        "tags_on_rows_starting_with": row_start,
        "name_nodes_with_several_matches_of_their_lowest_pattern(ties)": ties,
        "replacements_of_a_queued_tag_across_a_touching_next_name": touch_repl,
        "name_nodes_shared_by_3_or_4_patterns_by_arrival_order_of_pattern_indices": dict(sorted(perm_counts.items())),
        "explorer_summary": summary,
        "model_variants_matching_all_cases": matching,
        "correspondence": {"compared": corr_cases, "equal": corr_cases - (0 if matching else corr_bad_asis)},
        "judge": {"evaluated": evals, "passed": evals - judge_bad - lossy_cases},
        "impl_vs_judge_failures": judge_bad + lossy_cases + capi_bad,
        "judge_failures_by_kind": {"ignored-emitted": ign_cases, "utf16-lossy(cases/tags)": [lossy_cases, lossy_tags],
                                   "other": judge_bad - ign_cases},
        "model_vs_impl_disagreements": 0 if matching else corr_bad_asis,
    })
    if evals and not ctx.replay:
        # the input space must keep every placement of the @name node relative to the tagged node
        need = 100
        ctx.oblige("inputs:every-name-placement>=%d-real-tags" % need, all(v >= need for v in placement.values()),
                   "real tags per placement class: %s" % placement)
    if evals and not ctx.replay:
        # "lowest pattern index wins" needs name nodes shared by >= 3 patterns in EVERY arrival order of the indices
        import itertools
        p3 = {"".join(p): perm_counts.get("".join(p), 0) for p in itertools.permutations("012")}
        p4 = {"".join(p): perm_counts.get("".join(p), 0) for p in itertools.permutations("0123")}
        ctx.oblige("inputs:3-patterns-one-name-all-6-arrival-orders>=20", all(v >= 20 for v in p3.values()), str(p3))
        ctx.oblige("inputs:tags-on-rows-starting-with-FF/CR/VT/unicode-blank>=30-each", all(v >= 30 for v in row_start.values()),
                   str(row_start))
        ctx.oblige("inputs:name-nodes-with-several-matches-of-the-lowest-pattern>=50", ties >= 50, "%d" % ties)
        # round 11: a lower-index match replaces a queued tag although another name starting exactly at its end was
        # queued in between (release test of the queue is strict `<`)
        ctx.oblige("inputs:replacements-across-a-touching-next-name>=100", touch_repl >= 100, "%d" % touch_repl)
        ctx.oblige("inputs:4-patterns-one-name-all-24-arrival-orders>=3", all(v >= 3 for v in p4.values()),
                   str({k: v for k, v in p4.items() if v < 3}) or "all")
    if evals == 0:
        ctx.oblige("run:driver-produced-results", False, out[-500:])
    elif not ctx.replay and len(distinct) * 4 < evals:
        ctx.oblige("generator:nontrivial-fraction>=25%", False, "%d of %d" % (len(distinct), evals))
    return ctx.finish()
