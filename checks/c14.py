"""C14 — The generated lexer implements the documented token disambiguation rules.

Proof: TsVerif/C14/Props.lean — deriv_correct (derivative matcher = denotational regex semantics),
refToken_spec / refToken_rules (the documented order), lexScan_sound (the cut-off scan the generated
DFA implements), refTokenize_progress, keyword_whole_word.  Tie: random token sets → token-soup grammar →
real generator + real parser; the leaf sequence of every string up to a length bound (plus random
longer ones) is compared with `lexScan` (correspondence) and judged against the documented order
`refToken`."""
import hashlib
import json
import os
from checklib import sh, parse_kv_line


def run(ctx):
    ctx.trusted += [
        "spec-level models TsVerif/C14/{Regex,Lex}.lean; the reading of docs/src/creating-parsers/3-writing-the-grammar.md "
        "(Conflicting Tokens, Keyword Extraction) written down in Props.lean incl. the DIFFERENCES list",
        "harness/src/bin/c14.rs renders each regex AST both as a tree-sitter pattern and as the serialisation the Lean driver reads",
        "the keyword set is read off the generated parser.c (ACCEPT_TOKEN in ts_lex / ts_lex_keywords); tokens accepted by neither "
        "function are assigned by consistency over the whole string set (one assignment per token set, reported as `unclassified`)",
    ]
    ctx.assumptions += ["tokens never match the empty string or white space; lexical precedence as token(prec(p, …)) around a whole rule, on the "
                        "alternatives of a top-level choice (lexScanP) or on an inner branch of a choice / optional / repeat (family N, lexScanN: "
                        "correspondence only, no theorem ties lexScanN to lexScan yet)",
                        "token-soup grammar: every token is valid in every parse state; only error-free parses are compared leaf by leaf, "
                        "and `has_error` must equal `the reference finds no token somewhere`"]
    ctx.regen()
    ctx.prove(["TsVerif.C14.Props", "TsVerif.C14.Round11"], "TsVerif/C14/Audit.lean")
    driver = ctx.build_driver("tsv-c14")
    explorer = ctx.cargo_bin("c14")
    if not (explorer and os.path.exists(driver)):
        return ctx.finish()
    ops = os.path.join(ctx.workdir, "ops.txt")
    cmd = [explorer, ops]
    if ctx.replay:
        rp = json.load(open(ctx.replay))
        spec = os.path.join(ctx.workdir, "spec.txt")
        open(spec, "w").write(rp["case"].get("spec", "") + "\n")
        cmd += ["--spec", spec]
    rc, out = sh(cmd, env=ctx.env, timeout=3000)
    ctx.log(out.strip().split("\n")[-1] if out.strip() else "explorer silent")
    if rc != 0:
        ctx.oblige("run:explorer", False, "exit %d: %s" % (rc, out[-600:]))
    sets, skips = {}, []
    rejected_sets = 0
    amap_states = amap_sets = 0
    if os.path.exists(ops):
        for line in open(ops):
            if line.startswith(("set ", "mset ")):
                _, sid, spec = line.rstrip("\n").split(" ", 2)
                sets[sid] = spec
            elif line.startswith("amap "):
                w = line.split()
                amap_states += int(w[2]); amap_sets += int(w[2]) > 0
            elif line.startswith("skip "):
                skips.append(line.rstrip("\n")[5:160])
                # every generated set is well-formed by construction (pairwise different token rules, no token
                # matches the empty string, twins only in different modes): the generator must accept it
                parts = line.rstrip("\n").split(" ", 3)
                if len(parts) >= 4 and parts[2][:1] in "wm" and ";" in parts[2]:
                    ctx.violation("judge", "the generator rejects a well-formed token set (%s): %s" % (parts[1], parts[3][:200]),
                                  {"case": "S-" + parts[1], "spec": parts[2] + " -", "result": {"rejected": parts[3][:400]}},
                                  fingerprint={"clause": "generator-rejects-wellformed-set"})
                    rejected_sets += 1
    rc, out = sh("%s < %s" % (driver, ops), timeout=3000)
    nsets = 0
    tot = {"strings": 0, "errors": 0, "nontrivial": 0, "corrbad": 0, "docdev": 0, "overtake": 0, "other": 0, "tokens": 0,
           "overlap": 0, "sepsame": 0, "sepeof": 0, "sepabsorb": 0}
    overlap_sets = 0
    samples = []
    word_sets = unclassified_sets = skipped_sets = 0
    distinct = set()
    for line in out.split("\n"):
        if not line.strip():
            continue
        cid, kv = parse_kv_line(line)
        if not cid.startswith("S-"):
            continue
        sid = cid[2:]
        spec = sets.get(sid, "")
        if "skipped" in kv:
            skipped_sets += 1
            continue
        nsets += 1
        for k in tot:
            tot[k] += int(kv.get(k, 0) or 0)
        word_sets += kv.get("word") == "true"
        overlap_sets += int(kv.get("overlap", 0) or 0) > 0
        unclassified_sets += int(kv.get("unclassified", 0) or 0) > 0
        if int(kv.get("nontrivial", 0) or 0) > 0:
            distinct.add(hashlib.sha1(spec.encode()).hexdigest())
        if kv.get("corr") != "ok":
            s = kv["corr"].split(" ")[-1]
            ctx.violation("corr", "lexScan model and the generated lexer disagree on token set %s, string %s (%s strings)" % (sid, s, kv.get("corrbad")),
                          {"case": cid, "spec": spec + " " + s, "result": kv, "correspondence": "TsVerif.C14.lexScan vs generated ts_lex/ts_lex_keywords"},
                          fingerprint={"set": spec, "corr": "lexScan"},
                          # round 11b: for a nested-precedence set (family N…, a `Z(` below the top of a token) the payload IS a
                          # concrete failing input: token set + string on which the generated lexer leaves the per-character
                          # precedence cut-off (lexScanN); `--replay` re-runs exactly that case
                          found_input=any(("Z(" in t.split(",", 2)[-1]) and not t.split(",", 2)[-1].startswith("Z(") for t in spec.split(";")[1:]))
        j = kv.get("judge", "")
        if j != "ok":
            parts = j.split(" ")
            kind, s = (parts[1], parts[2]) if len(parts) >= 3 else ("?", "-")
            ctx.violation("judge", "generated lexer deviates from the documented order (%s) on token set %s, string %s" % (kind, spec, s),
                          {"case": cid, "spec": spec + " " + s, "result": kv},
                          fingerprint={"clause": "doc-order-" + kind})
        if len(samples) < 5 and (nsets % 7 == 1):
            samples.append({"case": cid, "tokenset": spec[:200], "result": kv})
    ctx.oblige("corr:lexScan=generated-lexer", tot["corrbad"] == 0, "%d strings differ" % tot["corrbad"])
    if not ctx.replay:
        # structural measure (independent of names in parser.c): token-soup sets with >= 8 one-character tokens, all valid in
        # the one parse state, reach render.rs' threshold for the ADVANCE_MAP table; the textual count is reported next to it
        import re as _re
        def one_char(tok):
            ast = tok.split(",", 2)[-1]
            return bool(_re.fullmatch(r"L[0-9a-f]+", ast)) or bool(_re.fullmatch(r"C0:([0-9a-f]+)-\1", ast))
        big = sum(1 for sid, sp in sets.items() if sp.startswith("w") and sum(one_char(t) for t in sp.split(";")[1:]) >= 8)
        ctx.coverage["token_sets_with_8_or_more_one_character_tokens"] = big
        ctx.oblige("cover:some-generated-lexers-use-ADVANCE_MAP", big > 0,
                   "%d token sets with >= 8 one-character tokens; parser.c text: %d lex states in %d token sets use ADVANCE_MAP" % (big, amap_states, amap_sets))
    def nested_spec(sp):
        return any(("Z(" in t.split(",", 2)[-1]) and not t.split(",", 2)[-1].startswith("Z(") for t in sp.split(";")[1:])
    nested_sets = sum(1 for sid, sp in sets.items() if sp.startswith("w") and nested_spec(sp))
    ctx.coverage["token_sets_with_precedence_on_an_inner_branch"] = nested_sets
    if not ctx.replay:
        # round 11b: the family that exercises NfaCursor::group_transitions' precedence comparison must be present
        ctx.oblige("cover:token-sets-with-precedence-on-an-inner-rejoining-branch", nested_sets >= 10, "%d such token sets (lexScanN)" % nested_sets)
    ctx.oblige("gen:every-well-formed-token-set-is-accepted", rejected_sets == 0, "%d sets rejected" % rejected_sets)
    ctx.coverage.update({
        "evaluations": tot["strings"], "distinct_nontrivial": tot["nontrivial"],
        "rule": "one evaluation = one (token set, input string): leaf sequence (token, character range) of the real parse vs lexScan "
                "(correspondence) and vs the documented order refToken (judge); per token set: every string up to length 4 (quick) / 5 "
                "(thorough) over the 8-symbol alphabet, random strings one longer, random strings of 6-40 symbols with spaces; "
                "non-trivial := at least two different tokens match a prefix at the first token position (counted per string)",
        "samples": samples, "token_sets": nsets, "token_sets_with_nontrivial_strings": len(distinct), "token_sets_with_word": word_sets,
        "lex_states_using_ADVANCE_MAP": amap_states, "token_sets_whose_lexer_uses_ADVANCE_MAP": amap_sets,
        "token_sets_with_a_token_that_begins_with_an_extras_character": overlap_sets, "strings_on_such_sets": tot["overlap"],
        "strings_where_separator_aware_model_equals_skipExtras_lexScan": tot["sepsame"],
        "token_sets_with_unclassified_tokens": unclassified_sets, "token_sets_skipped": skipped_sets,
        "generator_rejected": skips[:10], "totals": tot,
        "correspondence": {"compared": tot["strings"], "equal": tot["strings"] - tot["corrbad"]},
        "judge": {"evaluated": tot["strings"], "passed": tot["strings"] - tot["docdev"]},
        "impl_vs_judge_failures": tot["docdev"], "model_vs_impl_disagreements": tot["corrbad"],
    })
    if nsets == 0:
        ctx.oblige("run:driver-produced-results", False, out[-500:])
    return ctx.finish()
