fn main() {
    println!("cargo:rerun-if-changed=csrc/shim.c");
    println!("cargo:rerun-if-changed=/repo/lib/src");
    cc::Build::new()
        .file("csrc/shim.c")
        .include("/repo/lib/src")
        .include("/repo/lib/include")
        .flag_if_supported("-std=c11")
        .flag_if_supported("-w")
        .define("_POSIX_C_SOURCE", "200112L")
        .define("_DEFAULT_SOURCE", None)
        .compile("tsvshim");
}
