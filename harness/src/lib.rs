//! tsv-harness: drives the *real* tree-sitter code of /repo (path dependencies) in-process.
//! Shared helpers: PRNG, language building with an on-disk cache, internal tree dumps
//! (through csrc/shim.c), grammar-directed document generation, edits.

pub mod gen;
pub mod zoo;

use std::ffi::CStr;
use std::os::raw::c_char;
use tree_sitter::{ffi, InputEdit, Language, Point, Tree};

extern "C" {
    fn tsv_dump_tree(tree: *const ffi::TSTree) -> *mut c_char;
    fn tsv_dump_symbols(lang: *const ffi::TSLanguage) -> *mut c_char;
    fn tsv_free(p: *mut c_char);
}

/// SplitMix64: every random choice of every explorer derives from one of these.
#[derive(Clone)]
pub struct Rng(pub u64);

impl Rng {
    pub fn new(seed: u64) -> Self {
        Rng(seed.wrapping_mul(0x9E3779B97F4A7C15) ^ 0xD1B54A32D192ED03)
    }
    pub fn next(&mut self) -> u64 {
        self.0 = self.0.wrapping_add(0x9E3779B97F4A7C15);
        let mut z = self.0;
        z = (z ^ (z >> 30)).wrapping_mul(0xBF58476D1CE4E5B9);
        z = (z ^ (z >> 27)).wrapping_mul(0x94D049BB133111EB);
        z ^ (z >> 31)
    }
    pub fn below(&mut self, n: usize) -> usize {
        if n == 0 {
            0
        } else {
            (self.next() % n as u64) as usize
        }
    }
    pub fn range(&mut self, lo: usize, hi: usize) -> usize {
        lo + self.below(hi - lo + 1)
    }
    pub fn chance(&mut self, num: usize, den: usize) -> bool {
        self.below(den) < num
    }
    pub fn pick<'a, T>(&mut self, xs: &'a [T]) -> &'a T {
        &xs[self.below(xs.len())]
    }
    pub fn fork(&mut self) -> Rng {
        Rng(self.next())
    }
}

pub fn seed_from_env() -> u64 {
    std::env::var("VERIF_SEED").ok().and_then(|s| s.parse().ok()).unwrap_or(20260925)
}

pub fn tier_is_thorough() -> bool {
    std::env::var("VERIF_TIER").map(|t| t == "thorough").unwrap_or(false)
}

/// Full internal dump of a tree (hidden nodes included), see csrc/shim.c for the format.
pub fn dump_tree(tree: &Tree) -> String {
    unsafe {
        // Tree is a newtype around NonNull<TSTree>
        let raw: *const ffi::TSTree = *(tree as *const Tree as *const *const ffi::TSTree);
        let p = tsv_dump_tree(raw);
        let s = CStr::from_ptr(p).to_string_lossy().into_owned();
        tsv_free(p);
        s
    }
}

pub fn dump_symbols(lang: &Language) -> String {
    unsafe {
        let raw: *const ffi::TSLanguage = *(lang as *const Language as *const *const ffi::TSLanguage);
        let p = tsv_dump_symbols(raw);
        let s = CStr::from_ptr(p).to_string_lossy().into_owned();
        tsv_free(p);
        s
    }
}

/// Replace raw addresses (field 23 of every `n` line) by first-seen ordinals.
pub fn canon_addrs(dump: &str, map: &mut std::collections::HashMap<String, usize>) -> String {
    let mut out = String::with_capacity(dump.len());
    for line in dump.lines() {
        if line.starts_with("n ") {
            let mut parts: Vec<&str> = line.split(' ').collect();
            let addr = parts[22].to_string();
            let ord;
            let s;
            if addr == "0" {
                s = "0".to_string();
            } else {
                let n = map.len() + 1;
                ord = *map.entry(addr).or_insert(n);
                s = format!("{}", ord);
            }
            parts[22] = &s;
            out.push_str(&parts.join(" "));
        } else {
            out.push_str(line);
        }
        out.push('\n');
    }
    out
}

/// Row/column (column in bytes) of byte offset `i` in `text`.
pub fn point_at(text: &[u8], i: usize) -> Point {
    let mut row = 0;
    let mut last_nl = 0usize;
    for (k, b) in text[..i].iter().enumerate() {
        if *b == b'\n' {
            row += 1;
            last_nl = k + 1;
        }
    }
    Point { row, column: i - last_nl }
}

/// A text edit: replace text[start..old_end] by `ins`.
#[derive(Clone, Debug)]
pub struct TextEdit {
    pub start: usize,
    pub old_end: usize,
    pub ins: Vec<u8>,
}

impl TextEdit {
    pub fn apply(&self, text: &[u8]) -> Vec<u8> {
        let mut out = Vec::with_capacity(text.len() + self.ins.len());
        out.extend_from_slice(&text[..self.start]);
        out.extend_from_slice(&self.ins);
        out.extend_from_slice(&text[self.old_end..]);
        out
    }
    pub fn input_edit(&self, old: &[u8], new: &[u8]) -> InputEdit {
        let new_end = self.start + self.ins.len();
        InputEdit {
            start_byte: self.start,
            old_end_byte: self.old_end,
            new_end_byte: new_end,
            start_position: point_at(old, self.start),
            old_end_position: point_at(old, self.old_end),
            new_end_position: point_at(new, new_end),
        }
    }
}

pub fn fmt_edit(e: &InputEdit) -> String {
    format!(
        "{} {} {} {} {} {} {} {} {}",
        e.start_byte,
        e.old_end_byte,
        e.new_end_byte,
        e.start_position.row,
        e.start_position.column,
        e.old_end_position.row,
        e.old_end_position.column,
        e.new_end_position.row,
        e.new_end_position.column
    )
}

pub fn hex(bytes: &[u8]) -> String {
    let mut s = String::with_capacity(bytes.len() * 2);
    for b in bytes {
        s.push_str(&format!("{:02x}", b));
    }
    s
}

pub fn unhex(s: &str) -> Vec<u8> {
    (0..s.len() / 2).map(|i| u8::from_str_radix(&s[2 * i..2 * i + 2], 16).unwrap()).collect()
}

/// Random edit biased towards interesting places: token boundaries, inside tokens, padding, BOF/EOF.
pub fn random_edit(rng: &mut Rng, text: &[u8], boundaries: &[usize], alphabet: &[&[u8]]) -> TextEdit {
    let n = text.len();
    let pos = |rng: &mut Rng| -> usize {
        match rng.below(6) {
            0 => 0,
            1 => n,
            2 | 3 if !boundaries.is_empty() => {
                let b = *rng.pick(boundaries);
                let d = rng.below(3);
                (b + d).saturating_sub(1).min(n)
            }
            _ => rng.below(n + 1),
        }
    };
    let start = pos(rng);
    let kind = rng.below(4);
    let old_end = match kind {
        0 => start, // insertion
        _ => {
            let len = match rng.below(4) {
                0 => 1,
                1 => rng.range(1, 4),
                2 => rng.range(1, 12),
                _ => rng.range(0, 40),
            };
            (start + len).min(n)
        }
    };
    let mut ins = Vec::new();
    if kind != 1 {
        // not a pure deletion
        let k = rng.range(if kind == 0 { 1 } else { 0 }, 3);
        for _ in 0..k {
            let a: &[u8] = alphabet[rng.below(alphabet.len())]; ins.extend_from_slice(a);
        }
    }
    TextEdit { start, old_end, ins }
}

/// Committed corpus of minimised past failures / boundary cases for an explorer
/// (/verif/corpus/<name>.txt), run before the generated cases.
pub fn zoo_corpus(name: &str) -> Option<String> {
    std::fs::read_to_string(zoo::verif_root().join("corpus").join(format!("{name}.txt"))).ok()
}

/// Cap the address space of this process (default 8 GiB) so a runaway parse cannot exhaust the machine.
pub fn limit_resources() {
    extern "C" {
        fn setrlimit(resource: i32, rlim: *const [u64; 2]) -> i32;
    }
    let gb: u64 = std::env::var("VERIF_MEM_GB").ok().and_then(|s| s.parse().ok()).unwrap_or(8);
    let lim = [gb << 30, gb << 30];
    unsafe {
        setrlimit(9 /* RLIMIT_AS */, &lim);
    }
}
