//! Grammar generators shared by the C03 and C15 explorers: random conflict-free CFGs
//! (terminal-led alternatives, repeats, optionals, hidden/inlined rules, aliases, fields, extras,
//! left/right recursion with associativity), random operator tables, and a few hand-written
//! grammars with declared conflicts.  Everything is driven by the caller's `Rng`.
use serde_json::{json, Value};
use tsv_harness::Rng;

pub fn s(v: &str) -> Value {
    json!({"type":"STRING","value":v})
}
pub fn sym(n: &str) -> Value {
    json!({"type":"SYMBOL","name":n})
}
pub fn seq(ms: Vec<Value>) -> Value {
    if ms.len() == 1 {
        ms.into_iter().next().unwrap()
    } else {
        json!({"type":"SEQ","members":ms})
    }
}
pub fn choice(ms: Vec<Value>) -> Value {
    if ms.len() == 1 {
        ms.into_iter().next().unwrap()
    } else {
        json!({"type":"CHOICE","members":ms})
    }
}
pub fn opt(v: Value) -> Value {
    json!({"type":"CHOICE","members":[v, {"type":"BLANK"}]})
}
pub fn rep(v: Value) -> Value {
    json!({"type":"REPEAT","content":v})
}
pub fn rep1(v: Value) -> Value {
    json!({"type":"REPEAT1","content":v})
}
pub fn field(n: &str, v: Value) -> Value {
    json!({"type":"FIELD","name":n,"content":v})
}
pub fn alias(v: Value, value: &str, named: bool) -> Value {
    json!({"type":"ALIAS","content":v,"named":named,"value":value})
}
pub fn prec(kind: &str, value: i64, v: Value) -> Value {
    json!({"type":kind,"value":value,"content":v})
}
pub fn pattern(p: &str) -> Value {
    json!({"type":"PATTERN","value":p})
}

pub fn grammar(name: &str, rules: Vec<(String, Value)>, extras: Vec<Value>, inline: Vec<String>, conflicts: Vec<Vec<String>>) -> Value {
    let mut m = serde_json::Map::new();
    for (k, v) in rules {
        m.insert(k, v);
    }
    json!({
        "name": name, "rules": Value::Object(m), "extras": extras, "conflicts": conflicts,
        "precedences": [], "externals": [], "inline": inline, "supertypes": [], "reserved": {}
    })
}

struct Cx<'a> {
    rng: &'a mut Rng,
    anon: Vec<&'static str>,
    tokens: Vec<String>,   // named token rules
    visible: Vec<String>,  // visible non-terminals (index 0 = start)
    hidden: Vec<String>,   // hidden non-terminals
    fields: Vec<&'static str>,
    start_nullable: bool,
    /// hidden rules with a single-symbol production (`_u0: $.x`): unit reductions the generator may remove
    units: Vec<String>,
    /// whether the unit rule's single symbol is a terminal (usable anywhere without creating a cycle)
    unit_is_terminal: Vec<bool>,
}

impl Cx<'_> {
    fn terminal(&mut self) -> Value {
        let n = self.anon.len() + self.tokens.len();
        let k = self.rng.below(n);
        if k < self.anon.len() {
            s(self.anon[k])
        } else {
            sym(&self.tokens[k - self.anon.len()])
        }
    }
    /// a symbol among the rules with order index > `after` (acyclic reference), or a terminal
    fn later_symbol(&mut self, after: usize) -> Value {
        let all: Vec<String> = self.visible.iter().chain(self.hidden.iter()).cloned().collect();
        if after + 1 < all.len() && self.rng.chance(2, 3) {
            let k = self.rng.range(after + 1, all.len() - 1);
            self.wrap_symbol(&all[k].clone())
        } else {
            self.terminal()
        }
    }
    fn any_symbol(&mut self, from: usize) -> Value {
        let all: Vec<String> = self.visible.iter().chain(self.hidden.iter()).cloned().collect();
        if all.len() == 1 && self.start_nullable {
            return self.terminal();
        }
        // a start rule that matches the empty string may not be referenced
        let lo = if self.start_nullable { 1 } else { 0 };
        let mut k = self.rng.range(lo, all.len() - 1);
        // hidden rules are expanded in place: recursion among hidden rules (e.g. `_h: seq(_h, x)`)
        // is kept out of the random grammars (a hidden rule only mentions LATER hidden rules);
        // recursion through visible rules is unrestricted
        if all[from].starts_with('_') && all[k].starts_with('_') && k <= from {
            if from + 1 < all.len() {
                k = self.rng.range(from + 1, all.len() - 1);
            } else {
                return self.terminal();
            }
        }
        self.wrap_symbol(&all[k].clone())
    }
    fn wrap_symbol(&mut self, name: &str) -> Value {
        let base = sym(name);
        match self.rng.below(10) {
            0 => alias(base, "renamed", true),
            1 => alias(base, "as", false),
            2 | 3 => {
                let f = *self.rng.pick(&self.fields);
                field(f, base)
            }
            _ => base,
        }
    }
    /// a hidden unit rule, plain or under an alias, alone or inside repeat / repeat1 / optional / a nested seq
    fn unit_use(&mut self, acyclic: bool) -> Value {
        let k = self.rng.below(self.units.len());
        if acyclic && !self.unit_is_terminal[k] {
            return self.terminal();
        }
        let u = self.units[k].clone();
        let base = if self.rng.chance(2, 3) {
            let names = ["thing", "wrapped", "item"];
            alias(sym(&u), names[self.rng.below(3)], self.rng.chance(3, 4))
        } else {
            sym(&u)
        };
        let t = self.terminal();
        match self.rng.below(6) {
            0 => base,
            1 => rep(seq(vec![t, base])),
            2 => rep1(seq(vec![base, t])),
            3 => opt(seq(vec![t, base])),
            4 => seq(vec![t.clone(), seq(vec![base, t])]),
            _ => rep1(seq(vec![t, field("f", base)])),
        }
    }
    fn elem(&mut self, idx: usize, acyclic: bool, depth: usize) -> Value {
        if !self.units.is_empty() && depth == 0 && self.rng.chance(1, 4) {
            return self.unit_use(acyclic);
        }
        let k = self.rng.below(if depth > 1 { 4 } else { 10 });
        match k {
            0 | 1 => self.terminal(),
            2 | 3 => {
                if acyclic {
                    self.later_symbol(idx)
                } else {
                    self.any_symbol(idx)
                }
            }
            4 => {
                let t = self.terminal();
                let e = self.elem(idx, acyclic, depth + 1);
                opt(seq(vec![t, e]))
            }
            5 => {
                let t = self.terminal();
                let e = self.elem(idx, acyclic, depth + 1);
                rep(seq(vec![t, e]))
            }
            6 => {
                let t = self.terminal();
                if self.rng.chance(1, 2) {
                    rep1(t)
                } else {
                    let e = self.elem(idx, acyclic, depth + 1);
                    rep1(seq(vec![t, e]))
                }
            }
            7 => {
                let f = *self.rng.pick(&self.fields);
                let e = self.elem(idx, acyclic, depth + 1);
                field(f, e)
            }
            8 => {
                let a = self.terminal();
                let b = self.terminal();
                choice(vec![a, b])
            }
            _ => {
                let t = self.terminal();
                if self.rng.chance(1, 2) {
                    alias(t, "tok", self.rng.chance(1, 2))
                } else {
                    opt(t)
                }
            }
        }
    }
    fn alt(&mut self, idx: usize, acyclic: bool) -> Value {
        let mut ms = Vec::new();
        // leading element: a terminal most of the time (LL(1)-style, so conflicts are rare)
        if self.rng.chance(4, 5) {
            ms.push(self.terminal());
        } else if acyclic {
            ms.push(self.later_symbol(idx));
        } else {
            ms.push(self.any_symbol(idx));
        }
        let n = self.rng.below(4);
        for _ in 0..n {
            ms.push(self.elem(idx, acyclic, 0));
        }
        if acyclic {
            // chain: rule idx mentions rule idx+1, so every non-terminal is reachable from the start
            let all: Vec<String> = self.visible.iter().chain(self.hidden.iter()).cloned().collect();
            if idx + 1 < all.len() {
                let r = self.wrap_symbol(&all[idx + 1].clone());
                let pos = self.rng.range(1, ms.len());
                ms.insert(pos, r);
            }
        }
        seq(ms)
    }
}

/// A random context-free grammar.  Many are conflict-free by construction; the ones the real
/// generator rejects are skipped (and counted) by the caller.
pub fn random_cfg(rng: &mut Rng, name: &str) -> Value {
    let pool: [&'static str; 14] = ["a", "b", "c", "d", "e", "(", ")", "[", "]", ";", ",", "if", "end", "=>"];
    let na = rng.range(2, 5);
    let mut anon: Vec<&'static str> = Vec::new();
    while anon.len() < na {
        let t = *rng.pick(&pool);
        if !anon.contains(&t) {
            anon.push(t);
        }
    }
    let mut tokens = Vec::new();
    let mut token_rules: Vec<(String, Value)> = Vec::new();
    if rng.chance(1, 2) {
        tokens.push("num".to_string());
        token_rules.push(("num".into(), pattern("[0-9]+")));
    }
    if rng.chance(1, 3) {
        tokens.push("id".to_string());
        token_rules.push(("id".into(), pattern("[x-z]+")));
    }
    if rng.chance(1, 4) {
        tokens.push("_ht".to_string());
        token_rules.push(("_ht".into(), s("~")));
    }
    let nv = rng.range(1, 4);
    let nh = rng.below(3);
    let mut visible = vec!["start".to_string()];
    for i in 1..nv {
        visible.push(format!("r{i}"));
    }
    let hidden: Vec<String> = (0..nh).map(|i| format!("_h{i}")).collect();
    let with_comment = rng.chance(1, 3);
    let start_nullable = rng.chance(1, 3);
    let n_units = if rng.chance(1, 2) { rng.range(1, 2) } else { 0 };
    let units: Vec<String> = (0..n_units).map(|i| format!("_u{i}")).collect();
    let unit_is_terminal: Vec<bool> = (0..n_units).map(|_| visible.len() <= 1 || rng.chance(2, 3)).collect();
    let mut cx = Cx { rng, anon, tokens, visible: visible.clone(), hidden: hidden.clone(), fields: vec!["f", "g", "body"], start_nullable, units: units.clone(), unit_is_terminal: unit_is_terminal.clone() };
    let all: Vec<String> = visible.iter().chain(hidden.iter()).cloned().collect();
    let mut rules: Vec<(String, Value)> = Vec::new();
    for (i, name) in all.iter().enumerate() {
        let is_hidden = name.starts_with('_');
        let mut alts = vec![cx.alt(i, true)];
        let extra_alts = cx.rng.below(3);
        for _ in 0..extra_alts {
            alts.push(cx.alt(i, false));
        }
        // list-like recursion with declared associativity
        if cx.rng.chance(1, 4) && !is_hidden && !(i == 0 && start_nullable) {
            let t = cx.terminal();
            let x = cx.later_symbol(i);
            if cx.rng.chance(1, 2) {
                alts.push(prec("PREC_LEFT", 0, seq(vec![sym(name), t, x])));
            } else {
                alts.push(prec("PREC_RIGHT", 0, seq(vec![x, t, sym(name)])));
            }
        }
        let body = if i == 0 && start_nullable {
            // a start rule that is a repeat (may match the empty string: allowed for the start rule)
            rep(choice(alts))
        } else {
            choice(alts)
        };
        rules.push((name.clone(), body));
    }
    // hidden unit rules: a single visible rule / named token / string
    for (i, u) in units.iter().enumerate() {
        let target = if unit_is_terminal[i] {
            // prefer a named token (a visible leaf under the hidden unit rule)
            if !cx.tokens.is_empty() && cx.rng.chance(2, 3) { sym(&cx.tokens[0].clone()) } else { cx.terminal() }
        } else {
            sym(&visible[cx.rng.range(1, visible.len() - 1)])
        };
        rules.push((u.clone(), target));
    }
    rules.extend(token_rules);
    let mut extras = vec![pattern("\\s")];
    if with_comment {
        rules.push(("comment".into(), s("#")));
        extras.push(sym("comment"));
    }
    let mut inline = Vec::new();
    if !hidden.is_empty() && cx.rng.chance(1, 2) {
        let h = hidden[cx.rng.below(hidden.len())].clone();
        let body = rules.iter().find(|(n, _)| *n == h).map(|(_, b)| b.to_string()).unwrap_or_default();
        if !body.contains(&format!("\"name\":\"{h}\"")) {
            inline.push(h);
        }
    }
    grammar(name, rules, extras, inline, vec![])
}

#[derive(Clone, Debug)]
pub struct OpTable {
    /// binary operators: (operator text, level, right-assoc, rule name); always declared with prec.left/right(level)
    pub bin: Vec<(String, i64, bool, String)>,
    /// prefix operators: (text, level, rule name, annotated); not annotated = no PREC wrapper at all (default precedence 0)
    pub un: Vec<(String, i64, String, bool)>,
    /// postfix operators: (text, level, rule name, annotated)
    pub post: Vec<(String, i64, String, bool)>,
}

impl OpTable {
    pub fn encode(&self) -> String {
        let mut v = Vec::new();
        for (t, l, r, n) in &self.bin {
            v.push(format!("b:{}:{}:{}:{}", tsv_harness::hex(t.as_bytes()), l, if *r { "R" } else { "L" }, n));
        }
        for (t, l, n, a) in &self.un {
            v.push(format!("u:{}:{}:{}:{}", tsv_harness::hex(t.as_bytes()), l, n, if *a { "A" } else { "N" }));
        }
        for (t, l, n, a) in &self.post {
            v.push(format!("p:{}:{}:{}:{}", tsv_harness::hex(t.as_bytes()), l, n, if *a { "A" } else { "N" }));
        }
        v.join(",")
    }
    pub fn decode(sx: &str) -> OpTable {
        let mut t = OpTable { bin: vec![], un: vec![], post: vec![] };
        for part in sx.split(',') {
            let f: Vec<&str> = part.split(':').collect();
            let text = String::from_utf8(tsv_harness::unhex(f[1])).unwrap();
            match f[0] {
                "b" => t.bin.push((text, f[2].parse().unwrap(), f[3] == "R", f[4].to_string())),
                "u" => t.un.push((text, f[2].parse().unwrap(), f[3].to_string(), f.get(4).map(|x| *x != "N").unwrap_or(true))),
                _ => t.post.push((text, f[2].parse().unwrap(), f[3].to_string(), f.get(4).map(|x| *x != "N").unwrap_or(true))),
            }
        }
        t
    }
}

/// Random operator table: binary operators with left/right associativity on integer levels
/// (negative, zero and positive), prefix and postfix operators that are either annotated with an
/// integer precedence or not annotated at all (default precedence).  Tables whose conflicts the
/// declared precedences do not resolve are rejected by the generator and skipped by the caller.
pub fn random_optable(rng: &mut Rng) -> OpTable {
    let ops = ["+", "-", "*", "/", "^", "<", "&", "|"];
    let nb = rng.range(1, 5);
    let nlev = rng.range(1, nb.min(4));
    let base = rng.range(0, 6) as i64 - 4; // lowest binary level: -4 ..= 2
    let step = rng.range(1, 2) as i64;
    let mut bin = Vec::new();
    let mut level_assoc: Vec<bool> = Vec::new();
    for _ in 0..nlev {
        level_assoc.push(rng.chance(1, 3));
    }
    for i in 0..nb {
        let lv = if i < nlev { i } else { rng.below(nlev) };
        // mostly one associativity per level, sometimes mixed within a level
        let right = if rng.chance(1, 6) { rng.chance(1, 2) } else { level_assoc[lv] };
        bin.push((ops[i].to_string(), base + step * lv as i64, right, format!("b{i}")));
    }
    let bin_levels: Vec<i64> = bin.iter().map(|b| b.1).collect();
    // a level for a prefix/postfix operator: anywhere around the binary levels; prefer one that no
    // binary operator uses (an equal level without associativity is an unresolved conflict)
    let mut pick_level = |rng: &mut Rng, avoid: &[i64]| -> i64 {
        for _ in 0..6 {
            let l = base - 1 + rng.below((step as usize) * nlev + 3) as i64;
            if !avoid.contains(&l) {
                return l;
            }
        }
        base - 2
    };
    let mut un: Vec<(String, i64, String, bool)> = Vec::new();
    let mut used: Vec<i64> = bin_levels.clone();
    let nu = rng.below(3);
    let uops = ["!", "~"];
    for i in 0..nu {
        if rng.chance(1, 3) && !used.contains(&0) {
            un.push((uops[i].to_string(), 0, format!("u{i}"), false));
            used.push(0);
        } else {
            let lv = pick_level(rng, &used);
            used.push(lv);
            un.push((uops[i].to_string(), lv, format!("u{i}"), true));
        }
    }
    let mut post: Vec<(String, i64, String, bool)> = Vec::new();
    let np = rng.below(3);
    let pops = ["?", "++"];
    for i in 0..np {
        if rng.chance(1, 2) {
            // un-annotated postfix operator (like a call): default precedence
            post.push((pops[i].to_string(), 0, format!("p{i}"), false));
        } else {
            let avoid: Vec<i64> = un.iter().map(|u| u.1).collect();
            let lv = pick_level(rng, &avoid);
            post.push((pops[i].to_string(), lv, format!("p{i}"), true));
        }
    }
    OpTable { bin, un, post }
}

/// Give one binary operator of the table a second rule with the same operator text but another level
/// (a reduce/reduce conflict resolved by precedence; the lower rule's readings still take part in the
/// shift/reduce decisions).  `variant` cycles through: twin declared before/after the original,
/// twin level above/below, twin associativity equal/opposite.
#[allow(dead_code)]
pub fn add_twin(t: &mut OpTable, variant: usize, rng: &mut Rng) {
    if t.bin.is_empty() {
        return;
    }
    let i = rng.below(t.bin.len());
    let (text, lv, right, _) = t.bin[i].clone();
    let before = variant & 1 == 1;
    let above = variant & 2 == 2;
    let opposite = variant & 4 == 4;
    let d = 1 + rng.below(2) as i64;
    let twin = (text, if above { lv + d } else { lv - d }, if opposite { !right } else { right }, format!("b{}", t.bin.len()));
    if before {
        t.bin.insert(i, twin);
    } else {
        t.bin.push(twin);
    }
}

/// LR(1)-but-not-LALR(1) behind a GLR entry: `start → ctx_i n_j t_(i+j)`, `n_j → 'q' e_j`, `e_j → 'x'`, and one
/// more alternative `n_0 → w e2` with `w → 'q'`, `e2 → 'x' 'y'`; declared conflict `[n_0 … n_(k-1), w]`.  After
/// `ctx_i q` the cell on `x` holds [REDUCE w, SHIFT]; the shift targets (`e_j → x •` with look-aheads that
/// depend on the context) must stay split, hence so must the states that hold the GLR entry.
#[allow(dead_code)]
pub fn lalr_glr_grammar(rng: &mut Rng, name: &str) -> Value {
    let k = rng.range(2, 3);
    let ctx = ["a", "b", "g"];
    let term = ["c", "d", "f"];
    let shift = rng.below(k);
    let mut alts = Vec::new();
    for i in 0..k {
        for j in 0..k {
            let t = term[(i + j + shift) % k];
            let mut ms = vec![s(ctx[i]), sym(&format!("n{j}")), s(t)];
            if rng.chance(1, 4) {
                ms.push(s("z"));
            }
            alts.push(seq(ms));
        }
    }
    let mut rules: Vec<(String, Value)> = vec![("start".into(), if rng.chance(1, 3) { rep1(choice(alts)) } else { choice(alts) })];
    let extra_in = rng.below(k);
    let mut conflict: Vec<String> = Vec::new();
    for j in 0..k {
        let main = seq(vec![s("q"), sym(&format!("e{j}"))]);
        rules.push((format!("n{j}"), if j == extra_in { choice(vec![main, seq(vec![sym("w"), sym("e2x")])]) } else { main }));
        conflict.push(format!("n{j}"));
    }
    conflict.push("w".into());
    for j in 0..k {
        rules.push((format!("e{j}"), s("x")));
    }
    rules.push(("w".into(), s("q")));
    rules.push(("e2x".into(), seq(vec![s("x"), s("y")])));
    grammar(name, rules, vec![pattern("\\s")], vec![], vec![conflict])
}

/// Wide operator sets next to EXTERNAL tokens: `source → statement+`, `statement → expr (';' | ext_bang [| ext_at])`,
/// `expr → name | expr OP expr` with 8–11 left-associative operators.  After a name, `reduce expr` is shared
/// by ≥ 10 look-aheads, among them the external tokens (which sort first in the generator's symbol order but
/// carry the largest… the smallest ids after `end`): a small-state group the runtime has to find them in.
/// Returns (grammar, scanner.c, samples for the sentence generator).
#[allow(dead_code)]
pub fn wide_op_external_grammar(rng: &mut Rng, name: &str) -> (Value, String, String) {
    let ops = ["+", "-", "*", "/", "%", "^", "<", ">", "&", "|", "="];
    let n_ops = rng.range(8, ops.len());
    let two_ext = rng.chance(1, 2);
    let mut alts = vec![sym("name")];
    for op in ops.iter().take(n_ops) {
        alts.push(prec("PREC_LEFT", rng.range(1, 4) as i64, seq(vec![sym("expr"), s(op), sym("expr")])));
    }
    let mut enders = vec![s(";"), sym("ext_bang")];
    if two_ext {
        enders.push(sym("ext_at"));
    }
    let rules: Vec<(String, Value)> = vec![
        ("source".into(), rep1(sym("statement"))),
        // the keyword statements only add symbols, so that the state after a name (one reduce shared by
        // all operators and enders) has at most half as many entries as there are symbols: a SMALL state
        ("statement".into(), {
            let mut forms = vec![seq(vec![sym("expr"), choice(enders)])];
            let kws = ["let", "var", "del", "run", "try", "end", "use", "put", "get", "set", "new", "old", "box", "fix", "mix", "zip"];
            for kw in kws.iter().take(n_ops + 4 + rng.below(4)) {
                forms.push(seq(vec![s(kw), sym("name"), s(":")]));
            }
            choice(forms)
        }),
        ("expr".into(), choice(alts)),
        ("name".into(), pattern("[x-z]+")),
    ];
    let mut g = grammar(name, rules, vec![pattern("\\s")], vec![], vec![]);
    let mut ext = vec![sym("ext_bang")];
    if two_ext {
        ext.push(sym("ext_at"));
    }
    g["externals"] = Value::Array(ext);
    let scanner = format!(
        "#include \"tree_sitter/parser.h\"\nenum {{ EXT_BANG, EXT_AT }};\nvoid *tree_sitter_{n}_external_scanner_create(void) {{ return 0; }}\nvoid tree_sitter_{n}_external_scanner_destroy(void *p) {{ (void)p; }}\nunsigned tree_sitter_{n}_external_scanner_serialize(void *p, char *b) {{ (void)p; (void)b; return 0; }}\nvoid tree_sitter_{n}_external_scanner_deserialize(void *p, const char *b, unsigned n) {{ (void)p; (void)b; (void)n; }}\nbool tree_sitter_{n}_external_scanner_scan(void *p, TSLexer *l, const bool *v) {{\n  (void)p;\n  while (l->lookahead == ' ' || l->lookahead == '\\n' || l->lookahead == '\\t') l->advance(l, true);\n  if (v[EXT_BANG] && l->lookahead == '!') {{ l->advance(l, false); l->result_symbol = EXT_BANG; return true; }}\n  if ({two} && v[EXT_AT] && l->lookahead == '@') {{ l->advance(l, false); l->result_symbol = EXT_AT; return true; }}\n  return false;\n}}\n",
        n = name,
        two = if two_ext { 1 } else { 0 }
    );
    let samples = "{\"externals\": {\"ext_bang\": [\"!\"], \"ext_at\": [\"@\"]}}".to_string();
    (g, scanner, samples)
}

/// The same operator grammar with NAMED precedence levels: level `n` is the name `L<n>` / `Lm<n>`, and the
/// grammar's `precedences` list orders the names by descending level.  (Every prefix/postfix operator must
/// be annotated: an un-annotated rule does not compare with a named level.)
#[allow(dead_code)]
pub fn op_grammar_named(name: &str, t: &OpTable) -> Value {
    fn lname(l: i64) -> String {
        if l < 0 { format!("Lm{}", -l) } else { format!("L{l}") }
    }
    fn rename(v: &mut Value) {
        if let Some(ty) = v.get("type").and_then(|x| x.as_str()).map(|x| x.to_string()) {
            if ty.starts_with("PREC") {
                if let Some(l) = v["value"].as_i64() {
                    v["value"] = Value::String(lname(l));
                }
            }
        }
        if let Some(ms) = v.get_mut("members").and_then(|m| m.as_array_mut()) {
            for m in ms {
                rename(m);
            }
        }
        if let Some(c) = v.get_mut("content") {
            rename(c);
        }
    }
    let mut g = op_grammar(name, t);
    if let Some(rules) = g["rules"].as_object_mut() {
        for (_, body) in rules.iter_mut() {
            rename(body);
        }
    }
    let mut levels: Vec<i64> = t.bin.iter().map(|b| b.1).chain(t.un.iter().map(|u| u.1)).chain(t.post.iter().map(|u| u.1)).collect();
    levels.sort();
    levels.dedup();
    levels.reverse();
    g["precedences"] = Value::Array(vec![Value::Array(levels.iter().map(|l| s(&lname(*l))).collect())]);
    g
}

/// Two same-core states whose look-ahead tokens conflict LEXICALLY: after `x val` a short token (`a`) may
/// come, which may be followed directly by `b` — but only through a wrapper rule (`wrap → inner`, adjacency
/// known through LAST(wrap)); after `y val` the long token `ab`.  Merging the two states would let the lexer
/// read `ab` in the first context.  Texts of this family must be written WITHOUT separators.
#[allow(dead_code)]
pub fn lex_split_grammar(rng: &mut Rng, name: &str) -> Value {
    let shorts = ["a", "i", "k", "p"];
    let followers = ["b", "f", "n", "q"];
    let short = *rng.pick(&shorts);
    let follower = *rng.pick(&followers);
    let long = format!("{short}{follower}");
    let depth = rng.range(1, 2);
    let mut rules: Vec<(String, Value)> = Vec::new();
    let mut alts = vec![
        seq(vec![s("x"), sym("val"), sym("wrap"), s(follower)]),
        seq(vec![s("y"), sym("val"), s(&long)]),
    ];
    if rng.chance(1, 2) {
        alts.push(seq(vec![s("z"), sym("val"), s("e")]));
    }
    rules.push(("source".into(), if rng.chance(1, 3) { rep1(choice(alts)) } else { choice(alts) }));
    rules.push(("val".into(), if rng.chance(1, 2) { seq(vec![s("c"), s("d")]) } else { seq(vec![s("c"), s("d"), s("g")]) }));
    let wrap_body = |inner: &str, rng: &mut Rng| -> Value {
        if rng.chance(1, 3) { choice(vec![sym(inner), seq(vec![sym(inner), s("w"), sym(inner)])]) } else { sym(inner) }
    };
    if depth == 1 {
        rules.push(("wrap".into(), wrap_body("inner", rng)));
    } else {
        rules.push(("wrap".into(), wrap_body("mid", rng)));
        rules.push(("mid".into(), sym("inner")));
    }
    rules.push(("inner".into(), choice(vec![s(short), seq(vec![s("e"), s(short)])])));
    grammar(name, rules, vec![pattern("\\s")], vec![], vec![])
}

/// Make binary operators alternatives of ONE rule (`binary: choice(prec.left(1, e + e), prec.right(1, e ^ e))`).
/// `mixed`: additionally put two operators with different texts on the same level with opposite
/// associativity inside one rule (the yacc-style "same level, mixed associativity" table).
#[allow(dead_code)]
pub fn group_rules(t: &mut OpTable, mixed: bool, rng: &mut Rng) {
    let n = t.bin.len();
    if n < 2 {
        return;
    }
    if mixed {
        let i = rng.below(n);
        let mut j = rng.below(n);
        let mut tries = 0;
        while (j == i || t.bin[j].0 == t.bin[i].0) && tries < 8 {
            j = rng.below(n);
            tries += 1;
        }
        if j != i && t.bin[j].0 != t.bin[i].0 {
            t.bin[j].1 = t.bin[i].1;
            t.bin[j].2 = !t.bin[i].2;
            let name = t.bin[i].3.clone();
            t.bin[j].3 = name;
        }
    }
    // random further grouping: each operator joins the rule of an earlier one with probability 1/2
    for k in 1..n {
        if rng.chance(1, 2) {
            let e = rng.below(k);
            let name = t.bin[e].3.clone();
            t.bin[k].3 = name;
        }
    }
}

/// The tree-sitter grammar of an operator table (mirrored by `TsVerif.C03.opGrammarRules` in Lean).
pub fn op_grammar(name: &str, t: &OpTable) -> Value {
    let mut alts = vec![sym("num"), sym("paren")];
    let mut rules: Vec<(String, Value)> = Vec::new();
    // binary operators that carry the same rule name are alternatives of ONE rule
    let mut bin_names: Vec<String> = Vec::new();
    for (_, _, _, n) in &t.bin {
        if !bin_names.contains(n) {
            bin_names.push(n.clone());
        }
    }
    for n in &bin_names {
        alts.push(sym(n));
    }
    for (_, _, n, _) in &t.un {
        alts.push(sym(n));
    }
    for (_, _, n, _) in &t.post {
        alts.push(sym(n));
    }
    rules.push(("program".into(), sym("_e")));
    rules.push(("_e".into(), choice(alts)));
    for n in &bin_names {
        let mut members: Vec<Value> = t
            .bin
            .iter()
            .filter(|b| &b.3 == n)
            .map(|(text, lv, right, _)| prec(if *right { "PREC_RIGHT" } else { "PREC_LEFT" }, *lv, seq(vec![sym("_e"), s(text), sym("_e")])))
            .collect();
        let body = if members.len() == 1 { members.pop().unwrap() } else { choice(members) };
        rules.push((n.clone(), body));
    }
    for (text, lv, n, annotated) in &t.un {
        let body = seq(vec![s(text), sym("_e")]);
        rules.push((n.clone(), if *annotated { prec("PREC", *lv, body) } else { body }));
    }
    for (text, lv, n, annotated) in &t.post {
        let body = seq(vec![sym("_e"), s(text)]);
        rules.push((n.clone(), if *annotated { prec("PREC", *lv, body) } else { body }));
    }
    rules.push(("paren".into(), seq(vec![s("("), sym("_e"), s(")")])));
    rules.push(("num".into(), pattern("[0-9]+")));
    grammar(name, rules, vec![pattern("\\s")], vec![], vec![])
}

/// Hand-written grammars with declared conflicts / dynamic precedence.
pub fn glr_grammars() -> Vec<(String, Value)> {
    let mut v = Vec::new();
    // 1. C-like declaration/expression ambiguity resolved by dynamic precedence (as fx_dynamic_precedence)
    v.push((
        "c03glr_decl".to_string(),
        grammar(
            "c03glr_decl",
            vec![
                ("program".into(), choice(vec![sym("declaration"), sym("expression")])),
                ("expression".into(), choice(vec![prec("PREC_LEFT", 0, seq(vec![sym("expression"), s("*"), sym("expression")])), sym("identifier")])),
                ("declaration".into(), seq(vec![sym("type"), sym("declarator")])),
                ("declarator".into(), choice(vec![prec("PREC_DYNAMIC", 1, seq(vec![s("*"), sym("identifier")])), sym("identifier")])),
                ("type".into(), sym("identifier")),
                ("identifier".into(), pattern("[x-z]+")),
            ],
            vec![pattern("\\s")],
            vec![],
            vec![vec!["expression".into(), "type".into()]],
        ),
    ));
    // 2. the same with the dynamic precedence on the other side (expression wins)
    v.push((
        "c03glr_expr".to_string(),
        grammar(
            "c03glr_expr",
            vec![
                ("program".into(), choice(vec![sym("declaration"), sym("expression")])),
                ("expression".into(), choice(vec![prec("PREC_DYNAMIC", 2, prec("PREC_LEFT", 0, seq(vec![sym("expression"), s("*"), sym("expression")]))), sym("identifier")])),
                ("declaration".into(), seq(vec![sym("type"), sym("declarator")])),
                ("declarator".into(), choice(vec![seq(vec![s("*"), sym("identifier")]), sym("identifier")])),
                ("type".into(), sym("identifier")),
                ("identifier".into(), pattern("[x-z]+")),
            ],
            vec![pattern("\\s")],
            vec![],
            vec![vec!["expression".into(), "type".into()]],
        ),
    ));
    // 2b. the declaration/expression ambiguity with dynamic precedences on BOTH readings, one of them
    // coming from an INLINED rule nested in a production that has its own dynamic precedence
    // (the generator keeps, per production, the first value of greatest magnitude)
    for (k, (outer, inner, expr_dyn)) in [(1i64, -2i64, 0i64), (-1, 3, 1), (2, -1, 1), (-3, 2, -1), (1, 2, 2), (-2, -3, -1)].iter().enumerate() {
        let name = format!("c03glr_inl{k}");
        let expr_body = prec("PREC_LEFT", 0, seq(vec![sym("expression"), s("*"), sym("expression")]));
        v.push((
            name.clone(),
            grammar(
                &name,
                vec![
                    ("program".into(), choice(vec![sym("declaration"), sym("expression")])),
                    ("expression".into(), choice(vec![if *expr_dyn != 0 { prec("PREC_DYNAMIC", *expr_dyn, expr_body) } else { expr_body }, sym("identifier")])),
                    ("declaration".into(), seq(vec![sym("type"), sym("declarator")])),
                    ("declarator".into(), choice(vec![prec("PREC_DYNAMIC", *outer, sym("_pointer_declarator")), sym("identifier")])),
                    ("_pointer_declarator".into(), prec("PREC_DYNAMIC", *inner, seq(vec![s("*"), sym("identifier")]))),
                    ("type".into(), sym("identifier")),
                    ("identifier".into(), pattern("[x-z]+")),
                ],
                vec![pattern("\\s")],
                if k % 3 == 2 { vec![] } else { vec!["_pointer_declarator".to_string()] },
                vec![vec!["expression".into(), "type".into()]],
            ),
        ));
    }
    // 2c. dynamic precedence declared on the START rule's own alternatives
    for (k, (root_dyn, decl_dyn)) in [(-2i64, 1i64), (2, -1)].iter().enumerate() {
        let name = format!("c03glr_root{k}");
        v.push((
            name.clone(),
            grammar(
                &name,
                vec![
                    ("program".into(), choice(vec![prec("PREC_DYNAMIC", *root_dyn, sym("declaration")), sym("expression")])),
                    ("expression".into(), choice(vec![prec("PREC_LEFT", 0, seq(vec![sym("expression"), s("*"), sym("expression")])), sym("identifier")])),
                    ("declaration".into(), seq(vec![sym("type"), sym("declarator")])),
                    ("declarator".into(), choice(vec![prec("PREC_DYNAMIC", *decl_dyn, seq(vec![s("*"), sym("identifier")])), sym("identifier")])),
                    ("type".into(), sym("identifier")),
                    ("identifier".into(), pattern("[x-z]+")),
                ],
                vec![pattern("\\s")],
                vec![],
                vec![vec!["expression".into(), "type".into()]],
            ),
        ));
    }
    // 3. an LR(2) grammar that needs a declared conflict but is unambiguous
    v.push((
        "c03glr_lr2".to_string(),
        grammar(
            "c03glr_lr2",
            vec![
                ("program".into(), rep(choice(vec![sym("pair"), sym("single")]))),
                ("pair".into(), seq(vec![sym("key"), s("a"), s("b")])),
                ("single".into(), seq(vec![sym("name"), s("a"), s("c")])),
                ("key".into(), sym("identifier")),
                ("name".into(), sym("identifier")),
                ("identifier".into(), pattern("[x-z]+")),
            ],
            vec![pattern("\\s")],
            vec![],
            vec![vec!["key".into(), "name".into()]],
        ),
    ));
    v
}

/// Round 11 (C03 only; kept apart from `glr_grammars`, which the C15 bin also walks): declared-conflict
/// grammars whose competing readings are merged AT ONE REDUCE inside a rule with its own dynamic precedence.
#[allow(dead_code)]
pub fn glr_same_reduce_grammars() -> Vec<(String, Value)> {
    let mut v = Vec::new();
    // competing readings MERGED AT ONE REDUCE: the same symbol over the same span with
    // different child lists (`x → a a` vs `x → y`, `y → a a`, …), so both survive as two links of one
    // stack node until the ENCLOSING statement is reduced; that statement carries its own dynamic
    // precedence `p` (both signs / zero), the readings carry `q` (via y) and `r` (direct); ties (q = r) included.
    // shapes: 0 = x → a a | y            (y → a a)
    //         1 = x → a a | y a          (y → a: different child counts, the nested rule is a prefix)
    //         2 = x → a a | y | z        (three readings, y and z with their own values)
    //         3 = shape 0 with the statement nested once more: stmt → w ';', w → x (w carries p)
    let dynw = |v: i64, body: Value| if v != 0 { prec("PREC_DYNAMIC", v, body) } else { body };
    for (k, (shape, p, q, r)) in [
        (0usize, 2i64, 1i64, 0i64), (0, -2, 1, 0), (0, 3, -1, 0), (0, -1, -2, 0), (0, 2, 1, 1), (0, 1, 0, 2), (0, -2, 3, 2),
        (1, 2, 1, 0), (1, -2, 1, 0), (1, 3, 0, 1), (1, -1, 2, 2),
        (2, 2, 1, 0), (2, -2, 1, 3), (2, 3, -1, -2),
        (3, 2, 1, 0), (3, -2, 1, 0), (3, 1, -1, -2),
    ].iter().enumerate() {
        let name = format!("c03glr_same{k}");
        let aa = || seq(vec![sym("a"), sym("a")]);
        let mut rules: Vec<(String, Value)> = vec![("program".into(), rep(sym("stmt")))];
        let mut conflicts = vec!["x".to_string(), "y".to_string()];
        if *shape == 3 {
            rules.push(("stmt".into(), seq(vec![sym("w"), s(";")])));
            rules.push(("w".into(), dynw(*p, sym("x"))));
        } else {
            rules.push(("stmt".into(), dynw(*p, seq(vec![sym("x"), s(";")]))));
        }
        match *shape {
            1 => {
                rules.push(("x".into(), choice(vec![dynw(*r, aa()), seq(vec![sym("y"), sym("a")])])));
                rules.push(("y".into(), dynw(*q, sym("a"))));
            }
            2 => {
                rules.push(("x".into(), choice(vec![aa(), sym("y"), sym("z")])));
                rules.push(("y".into(), dynw(*q, aa())));
                rules.push(("z".into(), dynw(*r, aa())));
                conflicts.push("z".into());
            }
            _ => {
                rules.push(("x".into(), choice(vec![dynw(*r, aa()), sym("y")])));
                rules.push(("y".into(), dynw(*q, aa())));
            }
        }
        rules.push(("a".into(), s("a")));
        v.push((name.clone(), grammar(&name, rules, vec![pattern("\\s")], vec![], vec![conflicts])));
    }
    v
}

/// every hand-written declared-conflict grammar of the C03 explorer (`glr:<name>` specs)
#[allow(dead_code)]
pub fn glr_grammars_c03() -> Vec<(String, Value)> {
    let mut v = glr_grammars();
    v.extend(glr_same_reduce_grammars());
    v
}

/// A "rich" statement/expression grammar for the determinism and merge-equivalence runs of C15:
/// every table of the generated parser whose order could come from a map is made non-trivial —
/// several different aliases per non-terminal and per token, many fields, supertypes, a word token
/// with keywords, named and integer precedences, hidden/inlined rules, token and non-terminal
/// extras, external tokens (with a stub scanner that never matches).  Each statement form starts
/// with its own keyword, so the grammars are accepted by the generator by construction.
/// Returns (grammar json, scanner.c if the grammar has externals).
pub fn random_rich_grammar(rng: &mut Rng, name: &str) -> (Value, Option<String>) {
    let alias_pool = ["binding", "target", "label", "scope", "suite", "body_block", "callee", "operand", "item", "entry", "slot", "ref"];
    let field_pool = ["name", "value", "cond", "then", "else", "body", "fn", "args", "left", "right", "op", "init", "step", "key"];
    let kw_pool = ["let", "var", "const", "for", "while", "return", "yield", "with", "case", "goto", "emit", "bind"];
    let mut rules: Vec<(String, Value)> = Vec::new();
    let n_ext = rng.below(4);
    let externals: Vec<String> = (0..n_ext).map(|i| format!("_ext{i}")).collect();
    let use_word = rng.chance(2, 3);
    let pick = |rng: &mut Rng, pool: &[&str]| -> String { pool[rng.below(pool.len())].to_string() };

    // expressions
    let bin_ops = ["+", "-", "*", "/", "<", "==", "&&", "||"];
    let nb = rng.range(2, 6);
    let named_prec = rng.chance(1, 2);
    let prec_names = ["p_or", "p_and", "p_cmp", "p_add", "p_mul", "p_neg", "p_top"];
    let mut expr_alts = vec![sym("num"), sym("id"), sym("paren"), sym("call")];
    for i in 0..nb {
        let rname = format!("bin{i}");
        let lv = rng.below(5);
        let body = seq(vec![
            field("left", sym("_expression")),
            field("op", if rng.chance(1, 3) { alias(s(bin_ops[i]), &pick(rng, &alias_pool), rng.chance(1, 2)) } else { s(bin_ops[i]) }),
            field("right", sym("_expression")),
        ]);
        let kind = if rng.chance(1, 4) { "PREC_RIGHT" } else { "PREC_LEFT" };
        let v = if named_prec {
            json!({"type": kind, "value": prec_names[lv], "content": body})
        } else {
            json!({"type": kind, "value": (lv as i64) - 1, "content": body})
        };
        rules.push((rname.clone(), v));
        expr_alts.push(sym(&rname));
    }
    if rng.chance(1, 2) {
        rules.push(("neg".into(), if named_prec { json!({"type":"PREC","value":"p_neg","content": seq(vec![s("-"), field("operand", sym("_expression"))])}) } else { prec("PREC", 6, seq(vec![s("-"), field("operand", sym("_expression"))])) }));
        expr_alts.push(sym("neg"));
    }
    if rng.chance(1, 2) {
        rules.push(("str".into(), pattern("\"[a-z]*\"")));
        expr_alts.push(sym("str"));
    }
    let call_prec = |v: Value| -> Value { if named_prec { json!({"type":"PREC","value":"p_top","content": v}) } else { prec("PREC", 8, v) } };
    rules.push((
        "call".into(),
        call_prec(seq(vec![
            field("fn", if rng.chance(1, 2) { alias(sym("_expression"), "callee", true) } else { sym("_expression") }),
            s("("),
            opt(field("args", sym("args"))),
            s(")"),
        ])),
    ));
    // member access with a context-specific reserved-word set for the property name
    let with_reserved = use_word && rng.chance(2, 3);
    if rng.chance(2, 3) {
        let prop = if with_reserved { json!({"type":"RESERVED","context_name":"prop","content": sym("id")}) } else { sym("id") };
        rules.push(("member".into(), call_prec(seq(vec![field("left", sym("_expression")), s("."), field("key", prop)]))));
        expr_alts.push(sym("member"));
    }
    rules.push(("args".into(), seq(vec![sym("_expression"), rep(seq(vec![s(","), sym("_expression")]))])));
    rules.push(("paren".into(), seq(vec![s("("), sym("_expression"), s(")")])));

    // statements: each starts with its own keyword
    let mut stmt_alts = vec![sym("block"), sym("expr_stmt"), sym("if_stmt")];
    let n_stmt = rng.range(3, 8);
    let mut kws: Vec<&str> = kw_pool.to_vec();
    let mut used_kws: Vec<String> = vec!["if".to_string(), "else".to_string()];
    for i in 0..n_stmt {
        let kw = kws.remove(rng.below(kws.len()));
        let rname = format!("{kw}_stmt");
        used_kws.push(kw.to_string());
        let mut ms = vec![s(kw)];
        if !externals.is_empty() && rng.chance(1, 3) {
            ms.push(opt(sym(&externals[rng.below(externals.len())])));
        }
        let parts = rng.range(1, 4);
        for j in 0..parts {
            let base = match rng.below(6) {
                0 => sym("id"),
                1 => sym("num"),
                2 => sym("_expression"),
                3 => sym("block"),
                4 => sym("args"),
                _ => sym("_name"),
            };
            let mut e = base;
            // different aliases for the same symbol in different statements
            if rng.chance(1, 2) {
                e = alias(e, &pick(cx_rng(rng), &alias_pool), rng.chance(2, 3));
            }
            if rng.chance(2, 3) {
                e = field(&pick(cx_rng(rng), &field_pool), e);
            }
            if j > 0 && j + 1 == parts && rng.chance(1, 3) {
                e = opt(e);
            }
            ms.push(e);
            if j + 1 < parts {
                ms.push(s(["to", "=", ":", "=>"][rng.below(4)]));
            }
        }
        ms.push(s(";"));
        rules.push((rname.clone(), seq(ms)));
        stmt_alts.push(sym(&rname));
        let _ = i;
    }
    rules.push(("block".into(), seq(vec![s("{"), rep(sym("_statement")), s("}")])));
    rules.push(("expr_stmt".into(), seq(vec![sym("_expression"), s(";")])));
    rules.push((
        "if_stmt".into(),
        prec("PREC_RIGHT", 0, seq(vec![
            s("if"),
            s("("),
            field("cond", sym("_expression")),
            s(")"),
            field("then", sym("_statement")),
            opt(seq(vec![s("else"), field("else", sym("_statement"))])),
        ])),
    ));
    rules.push(("_name".into(), choice(vec![sym("id"), alias(sym("num"), "index", true)])));
    rules.push(("num".into(), pattern("[0-9]+")));
    rules.push(("id".into(), pattern("[a-z_]+")));
    rules.push(("comment".into(), pattern("#[^\\n]*")));
    let mut all: Vec<(String, Value)> = vec![
        ("program".into(), rep(sym("_statement"))),
        ("_statement".into(), choice(stmt_alts)),
        ("_expression".into(), choice(expr_alts)),
    ];
    all.extend(rules);
    let mut g = grammar(name, all, vec![pattern("\\s"), sym("comment")], vec!["_name".to_string()], vec![]);
    g["supertypes"] = json!(["_statement", "_expression"]);
    if use_word {
        g["word"] = json!("id");
    }
    if named_prec {
        g["precedences"] = json!([prec_names.iter().rev().map(|p| json!({"type":"STRING","value":p})).collect::<Vec<_>>()]);
    }
    if with_reserved {
        // a global reserved-word set and a smaller one for property names
        let nglob = rng.range(1, used_kws.len());
        let glob: Vec<Value> = used_kws[..nglob].iter().map(|k| s(k)).collect();
        let nprop = rng.below(nglob + 1);
        let prop: Vec<Value> = used_kws[..nprop].iter().map(|k| s(k)).collect();
        g["reserved"] = json!({"global": glob, "prop": prop});
    }
    let scanner = if externals.is_empty() {
        None
    } else {
        let mut ext: Vec<Value> = externals.iter().map(|e| sym(e)).collect();
        if rng.chance(1, 3) {
            // a token that is both internal and external (the stub scanner never produces it)
            ext.push(s(";"));
        }
        g["externals"] = Value::Array(ext);
        Some(format!(
            "#include \"tree_sitter/parser.h\"\nvoid *tree_sitter_{n}_external_scanner_create(void) {{ return 0; }}\nvoid tree_sitter_{n}_external_scanner_destroy(void *p) {{ (void)p; }}\nunsigned tree_sitter_{n}_external_scanner_serialize(void *p, char *b) {{ (void)p; (void)b; return 0; }}\nvoid tree_sitter_{n}_external_scanner_deserialize(void *p, const char *b, unsigned n) {{ (void)p; (void)b; (void)n; }}\nbool tree_sitter_{n}_external_scanner_scan(void *p, TSLexer *l, const bool *v) {{ (void)p; (void)l; (void)v; return false; }}\n",
            n = name
        ))
    };
    (g, scanner)
}

fn cx_rng(rng: &mut Rng) -> &mut Rng {
    rng
}

/// LR(1)-but-not-LALR(1) grammars with a k-way split: k context tokens, k single-token rules with
/// the same body, k terminator tokens arranged as a (partial) Latin square — after `ctx_i 'c'` the
/// k states share the item-set core {n_0 -> 'c' . , … , n_{k-1} -> 'c' .} and are pairwise
/// incompatible (the same look-ahead reduces to different rules), so state merging must keep all
/// of them apart.  `drop` removes some cells of the square so that some pairs become compatible.
pub fn lalr_split_grammar(rng: &mut Rng, name: &str) -> Value {
    let k = rng.range(2, 4);
    let ctx = ["a", "b", "g", "h"];
    let term = ["d", "e", "f", "i"];
    let shift = rng.below(k);
    let mut alts = Vec::new();
    for i in 0..k {
        for j in 0..k {
            if rng.chance(1, 6) && !(i == j) {
                continue; // partial square: some contexts do not allow every rule
            }
            let t = term[(i + j + shift) % k];
            let mut ms = vec![s(ctx[i]), sym(&format!("n{j}")), s(t)];
            if rng.chance(1, 4) {
                ms.push(s("z"));
            }
            alts.push(seq(ms));
        }
    }
    let mut rules: Vec<(String, Value)> = vec![("start".into(), if rng.chance(1, 2) { rep1(choice(alts)) } else { choice(alts) })];
    let body_opt = rng.chance(1, 3);
    for j in 0..k {
        // (same body for all k rules; two tokens, so that the rules stay non-terminals and `c`/`k` stay terminals)
        rules.push((format!("n{j}"), if body_opt { seq(vec![s("c"), opt(s("k"))]) } else { seq(vec![s("c"), s("k")]) }));
    }
    grammar(name, rules, vec![pattern("\\s")], vec![], vec![])
}

/// Chains of unit / near-unit productions: `c_i -> c_{i+1} | c_{i+1} y_i | p_i? c_{i+1}` in random
/// order, the same non-terminal reached several times in one LR closure (once with explicit
/// look-aheads, once with the look-aheads propagated from the parent item), used both in the middle
/// and at the end of productions, some links hidden (unit reductions removed by the generator).
/// Few terminals, so that every token string up to length 4–5 is explored against the oracle.
pub fn unit_chain_grammar(rng: &mut Rng, name: &str) -> Value {
    let d = rng.range(2, 4);
    let names: Vec<String> = (0..=d).map(|i| if i > 0 && i < d && rng.chance(1, 3) { format!("_c{i}") } else { format!("c{i}") }).collect();
    let suffix = ["y", "z", "v", "k"];
    let prefix = ["p", "q", "r", "n"];
    let mut rules: Vec<(String, Value)> = Vec::new();
    // start: the chain head in the middle and (sometimes) at the end of a production
    let mut forms = vec![seq(vec![s("("), sym(&names[0]), s("w")])];
    if rng.chance(1, 2) {
        forms.push(seq(vec![s("["), sym(&names[0])]));
    }
    if rng.chance(1, 3) {
        forms.push(seq(vec![sym(&names[0]), s("w")]));
    }
    let body = choice(forms);
    rules.push(("start".into(), if rng.chance(1, 2) { rep1(body) } else { body }));
    for i in 0..d {
        let next = sym(&names[i + 1]);
        let mut alts = vec![next.clone()];
        if rng.chance(3, 4) {
            alts.push(seq(vec![next.clone(), s(suffix[i])]));
        }
        if rng.chance(1, 3) {
            alts.push(seq(vec![opt(s(prefix[i])), next.clone(), s(suffix[(i + 1) % 4])]));
        }
        if rng.chance(1, 4) && i + 2 <= d {
            // skip a level: the deeper rule is reached along two routes
            alts.push(seq(vec![sym(&names[i + 2]), s(prefix[(i + 2) % 4])]));
        }
        // random order: which alternative the closure worklist meets first matters
        for k in (1..alts.len()).rev() {
            let j = rng.below(k + 1);
            alts.swap(k, j);
        }
        rules.push((names[i].clone(), choice(alts)));
    }
    let leaf = match rng.below(3) {
        0 => choice(vec![seq(vec![s("t"), s("u")]), s("t")]),
        1 => seq(vec![s("t"), s("u")]),
        _ => seq(vec![s("t"), opt(s("u"))]),
    };
    rules.push((names[d].clone(), leaf));
    grammar(name, rules, vec![pattern("\\s")], vec![], vec![])
}

/// Grammars in the style of the `lexical_conflicts_due_to_state_merging` fixture, scaled so that
/// every bitset of the generator that is indexed by terminals crosses its 64-bit word boundaries:
/// a word token, `m` keywords that each head a conditional form, `m` operator tokens defined as
/// PATTERNs that spell the same words (so keyword j and operator j conflict lexically and are
/// valid in two parse states with the same item-set core), and `fill` further string tokens.
/// Returns the grammar and sentences that put every operator after every kind of operand and every
/// keyword in front of a conditional.
pub fn word_operator_grammar(rng: &mut Rng, name: &str, big: bool, sweep: Option<usize>) -> (Value, Vec<String>) {
    // `sweep = Some(i)`: one or two keyword/operator pairs and a filler count that walks through every
    // offset modulo 64 (and beyond 64 / 128 terminals), so that each single pair is, for some i, the
    // only thing that keeps two states apart AND sits at any given bit position of a bitset word
    let m = match sweep {
        Some(_) => 1,
        None => if big { rng.range(64, 72) } else { rng.range(3, 40) },
    };
    let fill = match sweep {
        Some(i) => [0usize, 64, 128][rng.below(3)] + i,
        None => [0usize, 20, 55, 61, 62, 63, 64, 100, 126, 130][rng.below(10)],
    };
    let word = |j: usize| -> String { format!("{}{}", (b'a' + (j / 26) as u8) as char, (b'a' + (j % 26) as u8) as char) + "q" };
    let mut rules: Vec<(String, Value)> = Vec::new();
    let mut expr_alts = vec![sym("binary"), sym("number"), sym("parenthesized")];
    if fill > 0 {
        expr_alts.push(sym("filler"));
    }
    for j in 0..m {
        let rname = format!("cond{j}");
        rules.push((rname.clone(), prec("PREC_LEFT", 1, seq(vec![s(&word(j)), sym("parenthesized"), sym("expression")]))));
        expr_alts.push(sym(&rname));
    }
    let mut all: Vec<(String, Value)> = vec![
        ("program".into(), choice(vec![sym("expression"), seq(vec![s("let"), sym("identifier")])])),
        ("expression".into(), choice(expr_alts)),
    ];
    all.extend(rules);
    all.push(("binary".into(), prec("PREC_LEFT", 0, seq(vec![sym("expression"), sym("_op"), sym("expression")]))));
    all.push(("parenthesized".into(), seq(vec![s("("), sym("expression"), s(")")])));
    all.push(("identifier".into(), pattern("[a-z]+")));
    all.push(("number".into(), pattern("[0-9]+")));
    if fill > 0 {
        all.push(("filler".into(), choice((0..fill).map(|i| s(&format!("F{i}"))).collect())));
    }
    all.push(("_op".into(), choice((0..m).map(|j| sym(&format!("op{j}"))).collect())));
    for j in 0..m {
        all.push((format!("op{j}"), pattern(&word(j))));
    }
    let mut g = grammar(name, all, vec![pattern("\\s")], vec![], vec![]);
    g["word"] = json!("identifier");
    let mut docs = vec!["1".to_string(), "(1)".to_string(), "let x".to_string()];
    for j in 0..m {
        let w = word(j);
        let k = word((j + 1) % m);
        docs.push(format!("(1) {w} 2"));
        docs.push(format!("1 {w} 2"));
        docs.push(format!("{w} (1) 2"));
        docs.push(format!("{w} (1) {k} (2) 3"));
        docs.push(format!("(({w} (1) 2) {k} (3))"));
        docs.push(format!("{w} ((1) {k} 2) 3 {w} 4"));
        if fill > 0 {
            docs.push(format!("{w} (1) F{}", j % fill));
        }
    }
    (g, docs)
}
