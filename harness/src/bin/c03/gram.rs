//! Grammar generators shared by the C03 and C15 explorers: random conflict-free CFGs
//! (terminal-led alternatives, repeats, optionals, hidden/inlined rules, aliases, fields, extras,
//! left/right recursion with associativity), random operator tables, and a few hand-written
//! grammars with declared conflicts.  Everything is driven by the caller's `Rng`.
use serde_json::{json, Value};
use tsv_harness::Rng;

pub fn s(v: &str) -> Value {
    json!({"type":"STRING","value":v})
}
pub fn sym(n: &str) -> Value {
    json!({"type":"SYMBOL","name":n})
}
pub fn seq(ms: Vec<Value>) -> Value {
    if ms.len() == 1 {
        ms.into_iter().next().unwrap()
    } else {
        json!({"type":"SEQ","members":ms})
    }
}
pub fn choice(ms: Vec<Value>) -> Value {
    if ms.len() == 1 {
        ms.into_iter().next().unwrap()
    } else {
        json!({"type":"CHOICE","members":ms})
    }
}
pub fn opt(v: Value) -> Value {
    json!({"type":"CHOICE","members":[v, {"type":"BLANK"}]})
}
pub fn rep(v: Value) -> Value {
    json!({"type":"REPEAT","content":v})
}
pub fn rep1(v: Value) -> Value {
    json!({"type":"REPEAT1","content":v})
}
pub fn field(n: &str, v: Value) -> Value {
    json!({"type":"FIELD","name":n,"content":v})
}
pub fn alias(v: Value, value: &str, named: bool) -> Value {
    json!({"type":"ALIAS","content":v,"named":named,"value":value})
}
pub fn prec(kind: &str, value: i64, v: Value) -> Value {
    json!({"type":kind,"value":value,"content":v})
}
pub fn pattern(p: &str) -> Value {
    json!({"type":"PATTERN","value":p})
}

pub fn grammar(name: &str, rules: Vec<(String, Value)>, extras: Vec<Value>, inline: Vec<String>, conflicts: Vec<Vec<String>>) -> Value {
    let mut m = serde_json::Map::new();
    for (k, v) in rules {
        m.insert(k, v);
    }
    json!({
        "name": name, "rules": Value::Object(m), "extras": extras, "conflicts": conflicts,
        "precedences": [], "externals": [], "inline": inline, "supertypes": [], "reserved": {}
    })
}

struct Cx<'a> {
    rng: &'a mut Rng,
    anon: Vec<&'static str>,
    tokens: Vec<String>,   // named token rules
    visible: Vec<String>,  // visible non-terminals (index 0 = start)
    hidden: Vec<String>,   // hidden non-terminals
    fields: Vec<&'static str>,
    start_nullable: bool,
}

impl Cx<'_> {
    fn terminal(&mut self) -> Value {
        let n = self.anon.len() + self.tokens.len();
        let k = self.rng.below(n);
        if k < self.anon.len() {
            s(self.anon[k])
        } else {
            sym(&self.tokens[k - self.anon.len()])
        }
    }
    /// a symbol among the rules with order index > `after` (acyclic reference), or a terminal
    fn later_symbol(&mut self, after: usize) -> Value {
        let all: Vec<String> = self.visible.iter().chain(self.hidden.iter()).cloned().collect();
        if after + 1 < all.len() && self.rng.chance(2, 3) {
            let k = self.rng.range(after + 1, all.len() - 1);
            self.wrap_symbol(&all[k].clone())
        } else {
            self.terminal()
        }
    }
    fn any_symbol(&mut self, from: usize) -> Value {
        let all: Vec<String> = self.visible.iter().chain(self.hidden.iter()).cloned().collect();
        if all.len() == 1 && self.start_nullable {
            return self.terminal();
        }
        // a start rule that matches the empty string may not be referenced
        let lo = if self.start_nullable { 1 } else { 0 };
        let mut k = self.rng.range(lo, all.len() - 1);
        // hidden rules are expanded in place: recursion among hidden rules (e.g. `_h: seq(_h, x)`)
        // is kept out of the random grammars (a hidden rule only mentions LATER hidden rules);
        // recursion through visible rules is unrestricted
        if all[from].starts_with('_') && all[k].starts_with('_') && k <= from {
            if from + 1 < all.len() {
                k = self.rng.range(from + 1, all.len() - 1);
            } else {
                return self.terminal();
            }
        }
        self.wrap_symbol(&all[k].clone())
    }
    fn wrap_symbol(&mut self, name: &str) -> Value {
        let base = sym(name);
        match self.rng.below(10) {
            0 => alias(base, "renamed", true),
            1 => alias(base, "as", false),
            2 | 3 => {
                let f = *self.rng.pick(&self.fields);
                field(f, base)
            }
            _ => base,
        }
    }
    fn elem(&mut self, idx: usize, acyclic: bool, depth: usize) -> Value {
        let k = self.rng.below(if depth > 1 { 4 } else { 10 });
        match k {
            0 | 1 => self.terminal(),
            2 | 3 => {
                if acyclic {
                    self.later_symbol(idx)
                } else {
                    self.any_symbol(idx)
                }
            }
            4 => {
                let t = self.terminal();
                let e = self.elem(idx, acyclic, depth + 1);
                opt(seq(vec![t, e]))
            }
            5 => {
                let t = self.terminal();
                let e = self.elem(idx, acyclic, depth + 1);
                rep(seq(vec![t, e]))
            }
            6 => {
                let t = self.terminal();
                if self.rng.chance(1, 2) {
                    rep1(t)
                } else {
                    let e = self.elem(idx, acyclic, depth + 1);
                    rep1(seq(vec![t, e]))
                }
            }
            7 => {
                let f = *self.rng.pick(&self.fields);
                let e = self.elem(idx, acyclic, depth + 1);
                field(f, e)
            }
            8 => {
                let a = self.terminal();
                let b = self.terminal();
                choice(vec![a, b])
            }
            _ => {
                let t = self.terminal();
                if self.rng.chance(1, 2) {
                    alias(t, "tok", self.rng.chance(1, 2))
                } else {
                    opt(t)
                }
            }
        }
    }
    fn alt(&mut self, idx: usize, acyclic: bool) -> Value {
        let mut ms = Vec::new();
        // leading element: a terminal most of the time (LL(1)-style, so conflicts are rare)
        if self.rng.chance(4, 5) {
            ms.push(self.terminal());
        } else if acyclic {
            ms.push(self.later_symbol(idx));
        } else {
            ms.push(self.any_symbol(idx));
        }
        let n = self.rng.below(4);
        for _ in 0..n {
            ms.push(self.elem(idx, acyclic, 0));
        }
        if acyclic {
            // chain: rule idx mentions rule idx+1, so every non-terminal is reachable from the start
            let all: Vec<String> = self.visible.iter().chain(self.hidden.iter()).cloned().collect();
            if idx + 1 < all.len() {
                let r = self.wrap_symbol(&all[idx + 1].clone());
                let pos = self.rng.range(1, ms.len());
                ms.insert(pos, r);
            }
        }
        seq(ms)
    }
}

/// A random context-free grammar.  Many are conflict-free by construction; the ones the real
/// generator rejects are skipped (and counted) by the caller.
pub fn random_cfg(rng: &mut Rng, name: &str) -> Value {
    let pool: [&'static str; 14] = ["a", "b", "c", "d", "e", "(", ")", "[", "]", ";", ",", "if", "end", "=>"];
    let na = rng.range(2, 5);
    let mut anon: Vec<&'static str> = Vec::new();
    while anon.len() < na {
        let t = *rng.pick(&pool);
        if !anon.contains(&t) {
            anon.push(t);
        }
    }
    let mut tokens = Vec::new();
    let mut token_rules: Vec<(String, Value)> = Vec::new();
    if rng.chance(1, 2) {
        tokens.push("num".to_string());
        token_rules.push(("num".into(), pattern("[0-9]+")));
    }
    if rng.chance(1, 3) {
        tokens.push("id".to_string());
        token_rules.push(("id".into(), pattern("[x-z]+")));
    }
    if rng.chance(1, 4) {
        tokens.push("_ht".to_string());
        token_rules.push(("_ht".into(), s("~")));
    }
    let nv = rng.range(1, 4);
    let nh = rng.below(3);
    let mut visible = vec!["start".to_string()];
    for i in 1..nv {
        visible.push(format!("r{i}"));
    }
    let hidden: Vec<String> = (0..nh).map(|i| format!("_h{i}")).collect();
    let with_comment = rng.chance(1, 3);
    let start_nullable = rng.chance(1, 3);
    let mut cx = Cx { rng, anon, tokens, visible: visible.clone(), hidden: hidden.clone(), fields: vec!["f", "g", "body"], start_nullable };
    let all: Vec<String> = visible.iter().chain(hidden.iter()).cloned().collect();
    let mut rules: Vec<(String, Value)> = Vec::new();
    for (i, name) in all.iter().enumerate() {
        let is_hidden = name.starts_with('_');
        let mut alts = vec![cx.alt(i, true)];
        let extra_alts = cx.rng.below(3);
        for _ in 0..extra_alts {
            alts.push(cx.alt(i, false));
        }
        // list-like recursion with declared associativity
        if cx.rng.chance(1, 4) && !is_hidden && !(i == 0 && start_nullable) {
            let t = cx.terminal();
            let x = cx.later_symbol(i);
            if cx.rng.chance(1, 2) {
                alts.push(prec("PREC_LEFT", 0, seq(vec![sym(name), t, x])));
            } else {
                alts.push(prec("PREC_RIGHT", 0, seq(vec![x, t, sym(name)])));
            }
        }
        let body = if i == 0 && start_nullable {
            // a start rule that is a repeat (may match the empty string: allowed for the start rule)
            rep(choice(alts))
        } else {
            choice(alts)
        };
        rules.push((name.clone(), body));
    }
    rules.extend(token_rules);
    let mut extras = vec![pattern("\\s")];
    if with_comment {
        rules.push(("comment".into(), s("#")));
        extras.push(sym("comment"));
    }
    let mut inline = Vec::new();
    if !hidden.is_empty() && cx.rng.chance(1, 2) {
        let h = hidden[cx.rng.below(hidden.len())].clone();
        let body = rules.iter().find(|(n, _)| *n == h).map(|(_, b)| b.to_string()).unwrap_or_default();
        if !body.contains(&format!("\"name\":\"{h}\"")) {
            inline.push(h);
        }
    }
    grammar(name, rules, extras, inline, vec![])
}

#[derive(Clone, Debug)]
pub struct OpTable {
    /// (operator text, level, right-assoc, rule name)
    pub bin: Vec<(String, i64, bool, String)>,
    /// prefix operators (text, level, rule name)
    pub un: Vec<(String, i64, String)>,
}

impl OpTable {
    pub fn encode(&self) -> String {
        let mut v = Vec::new();
        for (t, l, r, n) in &self.bin {
            v.push(format!("b:{}:{}:{}:{}", tsv_harness::hex(t.as_bytes()), l, if *r { "R" } else { "L" }, n));
        }
        for (t, l, n) in &self.un {
            v.push(format!("u:{}:{}:{}", tsv_harness::hex(t.as_bytes()), l, n));
        }
        v.join(",")
    }
    pub fn decode(sx: &str) -> OpTable {
        let mut t = OpTable { bin: vec![], un: vec![] };
        for part in sx.split(',') {
            let f: Vec<&str> = part.split(':').collect();
            let text = String::from_utf8(tsv_harness::unhex(f[1])).unwrap();
            if f[0] == "b" {
                t.bin.push((text, f[2].parse().unwrap(), f[3] == "R", f[4].to_string()));
            } else {
                t.un.push((text, f[2].parse().unwrap(), f[3].to_string()));
            }
        }
        t
    }
}

pub fn random_optable(rng: &mut Rng) -> OpTable {
    let ops = ["+", "-", "*", "/", "^", "<", "&", "|"];
    let nb = rng.range(1, 5);
    let nlev = rng.range(1, nb.min(4));
    let mut bin = Vec::new();
    // binary levels are even numbers, unary levels odd: never equal (equal levels without
    // associativity are an unresolved conflict, which the generator rejects)
    let mut level_assoc: Vec<bool> = Vec::new();
    for _ in 0..nlev {
        level_assoc.push(rng.chance(1, 3));
    }
    for i in 0..nb {
        let lv = if i < nlev { i } else { rng.below(nlev) };
        // mostly one associativity per level, sometimes mixed within a level
        let right = if rng.chance(1, 6) { rng.chance(1, 2) } else { level_assoc[lv] };
        bin.push((ops[i].to_string(), 2 * (lv as i64) + 2, right, format!("b{i}")));
    }
    let mut un = Vec::new();
    let nu = rng.below(3);
    let uops = ["!", "~"];
    for i in 0..nu {
        let lv = 2 * (rng.below(nlev + 1) as i64) + 1;
        un.push((uops[i].to_string(), lv, format!("u{i}")));
    }
    OpTable { bin, un }
}

/// The tree-sitter grammar of an operator table (mirrored by `TsVerif.C03.opGrammar` in Lean).
pub fn op_grammar(name: &str, t: &OpTable) -> Value {
    let mut alts = vec![sym("num"), sym("paren")];
    let mut rules: Vec<(String, Value)> = Vec::new();
    for (_, _, _, n) in &t.bin {
        alts.push(sym(n));
    }
    for (_, _, n) in &t.un {
        alts.push(sym(n));
    }
    rules.push(("program".into(), sym("_e")));
    rules.push(("_e".into(), choice(alts)));
    for (text, lv, right, n) in &t.bin {
        rules.push((n.clone(), prec(if *right { "PREC_RIGHT" } else { "PREC_LEFT" }, *lv, seq(vec![sym("_e"), s(text), sym("_e")]))));
    }
    for (text, lv, n) in &t.un {
        rules.push((n.clone(), prec("PREC", *lv, seq(vec![s(text), sym("_e")]))));
    }
    rules.push(("paren".into(), seq(vec![s("("), sym("_e"), s(")")])));
    rules.push(("num".into(), pattern("[0-9]+")));
    grammar(name, rules, vec![pattern("\\s")], vec![], vec![])
}

/// Hand-written grammars with declared conflicts / dynamic precedence.
pub fn glr_grammars() -> Vec<(String, Value)> {
    let mut v = Vec::new();
    // 1. C-like declaration/expression ambiguity resolved by dynamic precedence (as fx_dynamic_precedence)
    v.push((
        "c03glr_decl".to_string(),
        grammar(
            "c03glr_decl",
            vec![
                ("program".into(), choice(vec![sym("declaration"), sym("expression")])),
                ("expression".into(), choice(vec![prec("PREC_LEFT", 0, seq(vec![sym("expression"), s("*"), sym("expression")])), sym("identifier")])),
                ("declaration".into(), seq(vec![sym("type"), sym("declarator")])),
                ("declarator".into(), choice(vec![prec("PREC_DYNAMIC", 1, seq(vec![s("*"), sym("identifier")])), sym("identifier")])),
                ("type".into(), sym("identifier")),
                ("identifier".into(), pattern("[x-z]+")),
            ],
            vec![pattern("\\s")],
            vec![],
            vec![vec!["expression".into(), "type".into()]],
        ),
    ));
    // 2. the same with the dynamic precedence on the other side (expression wins)
    v.push((
        "c03glr_expr".to_string(),
        grammar(
            "c03glr_expr",
            vec![
                ("program".into(), choice(vec![sym("declaration"), sym("expression")])),
                ("expression".into(), choice(vec![prec("PREC_DYNAMIC", 2, prec("PREC_LEFT", 0, seq(vec![sym("expression"), s("*"), sym("expression")]))), sym("identifier")])),
                ("declaration".into(), seq(vec![sym("type"), sym("declarator")])),
                ("declarator".into(), choice(vec![seq(vec![s("*"), sym("identifier")]), sym("identifier")])),
                ("type".into(), sym("identifier")),
                ("identifier".into(), pattern("[x-z]+")),
            ],
            vec![pattern("\\s")],
            vec![],
            vec![vec!["expression".into(), "type".into()]],
        ),
    ));
    // 3. an LR(2) grammar that needs a declared conflict but is unambiguous
    v.push((
        "c03glr_lr2".to_string(),
        grammar(
            "c03glr_lr2",
            vec![
                ("program".into(), rep(choice(vec![sym("pair"), sym("single")]))),
                ("pair".into(), seq(vec![sym("key"), s("a"), s("b")])),
                ("single".into(), seq(vec![sym("name"), s("a"), s("c")])),
                ("key".into(), sym("identifier")),
                ("name".into(), sym("identifier")),
                ("identifier".into(), pattern("[x-z]+")),
            ],
            vec![pattern("\\s")],
            vec![],
            vec![vec!["key".into(), "name".into()]],
        ),
    ));
    v
}
