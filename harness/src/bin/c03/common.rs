//! Helpers shared by the C03 and C15 explorers (included by both bins through `#[path]`).
#![allow(dead_code)]
use serde_json::Value;
use std::collections::HashSet;
use std::io::{BufRead, BufReader, Write};
use std::process::{Child, ChildStdin, ChildStdout, Command, Stdio};
use tree_sitter::Tree;
use tree_sitter_generate::OptLevel;
use tsv_harness::*;

pub struct CUnit {
    _child: Child,
    stdin: ChildStdin,
    stdout: BufReader<ChildStdout>,
}

impl CUnit {
    pub fn start() -> CUnit {
        let exe = std::env::var("TSV_CUNIT_C03").expect("TSV_CUNIT_C03 not set");
        let mut child = Command::new(exe).stdin(Stdio::piped()).stdout(Stdio::piped()).spawn().expect("spawn cunit_c03");
        let stdin = child.stdin.take().unwrap();
        let stdout = BufReader::new(child.stdout.take().unwrap());
        CUnit { _child: child, stdin, stdout }
    }
    pub fn dump(&mut self, so: &std::path::Path, name: &str) -> String {
        writeln!(self.stdin, "dump {} tree_sitter_{}", so.display(), name).unwrap();
        self.stdin.flush().unwrap();
        let mut out = String::new();
        loop {
            let mut line = String::new();
            if self.stdout.read_line(&mut line).unwrap() == 0 {
                break;
            }
            if line.trim_end() == "end" {
                break;
            }
            out.push_str(&line);
        }
        out
    }
}

#[derive(Clone, Debug)]
pub struct Term {
    pub named: bool,
    pub name: String,
    pub text: String,
    pub sym: usize,
    pub extra: bool,
}

pub struct Lang {
    pub built: zoo::Built,
    pub table: String,
    /// (visible, named, name) by internal symbol id
    pub syms: Vec<(bool, bool, String)>,
    pub token_count: usize,
}

pub fn load_lang(cu: &mut CUnit, json: &str, scanner: Option<&str>, opt: OptLevel) -> Result<Lang, String> {
    let built = zoo::build_from_json(json, scanner, opt)?;
    let table = cu.dump(&built.dir.join("lang.so"), &built.name);
    let mut syms = Vec::new();
    let mut token_count = 0;
    for line in table.lines() {
        let f: Vec<&str> = line.split(' ').collect();
        if f[0] == "lang" {
            token_count = f[4].parse().unwrap();
        } else if f[0] == "sym" {
            let name = if f[6] == "-" { String::new() } else { String::from_utf8_lossy(&unhex(f[6])).into_owned() };
            syms.push((f[2] == "1", f[3] == "1", name));
        } else if f[0] == "error" {
            return Err(format!("dump failed: {line}"));
        }
    }
    Ok(Lang { built, table, syms, token_count })
}

fn is_single_terminal(v: &Value) -> bool {
    match v["type"].as_str().unwrap_or("") {
        "STRING" | "PATTERN" | "TOKEN" | "IMMEDIATE_TOKEN" => true,
        _ => false,
    }
}

fn count_strings(v: &Value, out: &mut Vec<String>) {
    match v["type"].as_str().unwrap_or("") {
        "STRING" => out.push(v["value"].as_str().unwrap().to_string()),
        "TOKEN" | "IMMEDIATE_TOKEN" | "PATTERN" => {}
        _ => {
            if let Some(ms) = v.get("members").and_then(|m| m.as_array()) {
                for m in ms {
                    count_strings(m, out);
                }
            }
            if let Some(c) = v.get("content") {
                count_strings(c, out);
            }
        }
    }
}

fn collect_strings(v: &Value, out: &mut Vec<String>) {
    match v["type"].as_str().unwrap_or("") {
        "STRING" => {
            let s = v["value"].as_str().unwrap().to_string();
            if !out.contains(&s) {
                out.push(s);
            }
        }
        "TOKEN" | "IMMEDIATE_TOKEN" | "PATTERN" => {}
        _ => {
            if let Some(ms) = v.get("members").and_then(|m| m.as_array()) {
                for m in ms {
                    collect_strings(m, out);
                }
            }
            if let Some(c) = v.get("content") {
                collect_strings(c, out);
            }
        }
    }
}

/// The terminals of a grammar whose tokens are all anonymous strings or whole named token rules.
/// `None` when the grammar has inline patterns / tokens (their symbol names are generator-internal).
pub fn terminals(lang: &Lang) -> Option<Vec<Term>> {
    let g: Value = serde_json::from_str(&lang.built.grammar_json).unwrap();
    let rules = g["rules"].as_object().unwrap();
    let mut strings = Vec::new();
    let mut named = Vec::new();
    // how often every string occurs as a token of its own in the whole grammar
    let mut uses: Vec<String> = Vec::new();
    for (_, body) in rules {
        count_strings(body, &mut uses);
    }
    for (idx, (name, body)) in rules.iter().enumerate() {
        // `extract_tokens` does not turn the start rule or a hidden rule into the token of its string, nor
        // a rule whose string is used elsewhere too: the rule stays a non-terminal over the anonymous
        // string (TsVerif.C03.tokenView)
        if body["type"] == "STRING"
            && (idx == 0 || name.starts_with('_') || uses.iter().filter(|u| Some(u.as_str()) == body["value"].as_str()).count() > 1)
        {
            collect_strings(body, &mut strings);
            continue;
        }
        if is_single_terminal(body) {
            let text = match body["type"].as_str().unwrap() {
                "STRING" => body["value"].as_str().unwrap().to_string(),
                "PATTERN" => gen::sample_regex(body["value"].as_str().unwrap(), &mut Rng::new(7)),
                _ => return None,
            };
            named.push((name.clone(), text));
        } else {
            if has_inline_pattern(body) {
                return None;
            }
            collect_strings(body, &mut strings);
        }
    }
    let extras: Vec<String> = g["extras"].as_array().map(|a| a.iter().filter_map(|e| if e["type"] == "SYMBOL" { e["name"].as_str().map(|s| s.to_string()) } else { None }).collect()).unwrap_or_default();
    let mut out = Vec::new();
    let find = |name: &str, anon: bool| -> Option<usize> {
        (0..lang.token_count.min(lang.syms.len())).find(|&i| lang.syms[i].2 == name && (if anon { lang.syms[i].0 && !lang.syms[i].1 } else { lang.syms[i].1 }))
    };
    for s in strings {
        // a string that is also the whole body of a named token rule lexes as that rule's token
        if named.iter().any(|(_, t)| *t == s) {
            return None;
        }
        // a string that only occurs in unreachable rules has no symbol: not a terminal of the language
        let sym = match find(&s, true) {
            Some(x) => x,
            None => continue,
        };
        out.push(Term { named: false, name: s.clone(), text: s, sym, extra: false });
    }
    for (n, t) in named {
        if let Some(sym) = find(&n, false) {
            out.push(Term { named: true, name: n.clone(), text: t, sym, extra: extras.contains(&n) });
        }
        // a token rule that is never used has no symbol of its own: not a terminal of the language
    }
    // external tokens of the generated families (their stub scanner recognises one fixed character)
    if let Some(exts) = g["externals"].as_array() {
        for e in exts {
            if e["type"] == "SYMBOL" {
                let n = e["name"].as_str().unwrap_or("");
                let text = match n {
                    "ext_bang" => "!",
                    "ext_at" => "@",
                    _ => continue,
                };
                if rules.contains_key(n) {
                    continue;
                }
                if let Some(sym) = find(n, false) {
                    out.push(Term { named: true, name: n.to_string(), text: text.to_string(), sym, extra: false });
                }
            }
        }
    }
    let mut texts = HashSet::new();
    for t in &out {
        if !texts.insert(t.text.clone()) {
            return None;
        }
    }
    Some(out)
}

fn has_inline_pattern(v: &Value) -> bool {
    match v["type"].as_str().unwrap_or("") {
        "PATTERN" | "TOKEN" | "IMMEDIATE_TOKEN" => true,
        _ => {
            v.get("members").and_then(|m| m.as_array()).map(|ms| ms.iter().any(has_inline_pattern)).unwrap_or(false)
                || v.get("content").map(has_inline_pattern).unwrap_or(false)
        }
    }
}

/// The visible tree through the public API (kinds after aliasing, fields, extras), preorder.
pub fn vtree_lines(tree: &Tree) -> (String, bool) {
    let mut out = String::new();
    let mut bad = false;
    let mut cur = tree.walk();
    let mut depth_done = false;
    loop {
        if !depth_done {
            let n = cur.node();
            let flags = (n.is_missing() as u32) | ((n.is_error() as u32) << 1);
            if flags != 0 {
                bad = true;
            }
            let f = cur.field_name().map(|s| hex(s.as_bytes())).unwrap_or_else(|| "-".to_string());
            let k = n.kind();
            out.push_str(&format!(
                "v {} {} {} {} {} {}\n",
                if k.is_empty() { "-".to_string() } else { hex(k.as_bytes()) },
                n.is_named() as u32,
                n.is_extra() as u32,
                f,
                n.child_count(),
                flags
            ));
            if cur.goto_first_child() {
                continue;
            }
        }
        if cur.goto_next_sibling() {
            depth_done = false;
            continue;
        }
        if !cur.goto_parent() {
            break;
        }
        depth_done = true;
    }
    (out, bad)
}

pub fn render(terms: &[Term], toks: &[usize]) -> Vec<u8> {
    let mut s = String::new();
    for (i, t) in toks.iter().enumerate() {
        if i > 0 {
            s.push(' ');
        }
        s.push_str(&terms[*t].text);
    }
    s.into_bytes()
}

/// Exhaustive bound: the largest L with sum_{k<=L} t^k <= budget (at least 2, at most 7).
pub fn exh_len(t: usize, budget: usize) -> usize {
    let mut l = 0;
    let mut total = 1usize;
    let mut pow = 1usize;
    while l < 7 {
        pow = pow.saturating_mul(t.max(1));
        if total + pow > budget {
            break;
        }
        total += pow;
        l += 1;
    }
    l.max(2)
}

pub fn all_strings(t: usize, l: usize, f: &mut dyn FnMut(&[usize])) {
    let mut cur: Vec<usize> = Vec::new();
    fn rec(t: usize, l: usize, cur: &mut Vec<usize>, f: &mut dyn FnMut(&[usize])) {
        f(cur);
        if cur.len() == l {
            return;
        }
        for i in 0..t {
            cur.push(i);
            rec(t, l, cur, f);
            cur.pop();
        }
    }
    rec(t, l, &mut cur, f);
}

pub fn mutate_toks(rng: &mut Rng, toks: &[usize], nterm: usize) -> Vec<usize> {
    let mut v = toks.to_vec();
    let k = rng.range(1, 2);
    for _ in 0..k {
        let n = v.len();
        match rng.below(4) {
            0 if n > 0 => {
                v.remove(rng.below(n));
            }
            1 if n > 0 => {
                let i = rng.below(n);
                let x = v[i];
                v.insert(i, x);
            }
            2 if n > 1 => {
                let i = rng.below(n - 1);
                v.swap(i, i + 1);
            }
            _ => {
                let i = rng.below(n + 1);
                v.insert(i, rng.below(nterm));
            }
        }
    }
    v
}

pub fn same_class(a: &str, b: &str) -> bool {
    let cls = |s: &str| -> u8 {
        if s.chars().all(|c| c.is_ascii_digit()) {
            1
        } else if s.chars().all(|c| ('x'..='z').contains(&c)) {
            2
        } else {
            0
        }
    };
    cls(a) != 0 && cls(a) == cls(b)
}

