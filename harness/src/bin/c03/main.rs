//! C03 explorer: freshly generated parsers (random conflict-free CFGs, operator tables, declared-
//! conflict grammars, zoo) driven through the REAL generator + runtime; writes the case stream for
//! the Lean driver `tsv-c03` (table dump, token strings, real trees).
//!
//! usage: c03 <ops-file> [--spec <file>]      env: TSV_CUNIT_C03=<path of the unity dumper>
//! spec line: `<src> <string>` with src = cfg:<seed>:<k> | op:<name>:<optable> | glr:<name> | zoo:<id> | json:<hex>
//!            string = t:<i,j,…> (terminal indices; `t:` = empty) | x:<texthex>
mod common;
mod gram;
use common::*;
use gram::*;
use serde_json::Value;
use std::collections::HashMap;
use std::io::Write;
use tree_sitter::Parser;
use tree_sitter_generate::OptLevel;
use tsv_harness::*;

pub struct Emit<'a> {
    pub out: &'a mut dyn Write,
    pub cases: usize,
    pub accepted: usize,
    /// source spec of the current grammar
    pub src: String,
}

/// A crash of the real code (the parser runs in-process) is reported with the input it happened on:
/// every case notes its spec in a static buffer, a handler for SIGSEGV/SIGBUS/SIGABRT/SIGFPE/SIGILL writes
/// the buffer to `<ops-file>.crash` and exits.
mod crash {
    extern "C" {
        fn signal(sig: i32, handler: extern "C" fn(i32)) -> usize;
        fn open(path: *const u8, flags: i32, mode: u32) -> i32;
        fn write(fd: i32, buf: *const u8, n: usize) -> isize;
        fn _exit(code: i32) -> !;
    }
    static mut BUF: [u8; 8192] = [0; 8192];
    static mut LEN: usize = 0;
    static mut PATH: [u8; 1024] = [0; 1024];

    extern "C" fn on_crash(sig: i32) {
        unsafe {
            let fd = open(core::ptr::addr_of!(PATH) as *const u8, 0o1101 /* O_WRONLY|O_CREAT|O_TRUNC */, 0o644);
            if fd >= 0 {
                let head = [b's', b'i', b'g', b'0' + (sig / 10) as u8, b'0' + (sig % 10) as u8, b' '];
                write(fd, head.as_ptr(), head.len());
                write(fd, core::ptr::addr_of!(BUF) as *const u8, LEN);
            }
            _exit(139);
        }
    }

    pub fn install(ops_path: &str) {
        let p = format!("{ops_path}.crash");
        let _ = std::fs::remove_file(&p);
        unsafe {
            let n = p.len().min(1023);
            core::ptr::copy_nonoverlapping(p.as_ptr(), core::ptr::addr_of_mut!(PATH) as *mut u8, n);
            for sig in [11, 7, 6, 8, 4] {
                signal(sig, on_crash);
            }
        }
    }

    pub fn note(s: &str) {
        unsafe {
            let n = s.len().min(8191);
            core::ptr::copy_nonoverlapping(s.as_ptr(), core::ptr::addr_of_mut!(BUF) as *mut u8, n);
            LEN = n;
        }
    }
}

fn toks_str(toks: &[usize]) -> String {
    if toks.is_empty() {
        "-".to_string()
    } else {
        toks.iter().map(|t| t.to_string()).collect::<Vec<_>>().join(",")
    }
}

impl Emit<'_> {
    pub fn line(&mut self, l: &str) {
        writeln!(self.out, "{l}").unwrap();
    }

    pub fn grammar_header(&mut self, gid: &str, kind: &str, src: &str, lang: &Lang, terms: Option<&[Term]>, optable: Option<&OpTable>, exh: usize) {
        let g: Value = serde_json::from_str(&lang.built.grammar_json).unwrap();
        self.src = src.to_string();
        writeln!(self.out, "grammar {gid} {kind}").unwrap();
        writeln!(self.out, "src {src}").unwrap();
        writeln!(self.out, "gjson {}", serde_json::to_string(&g).unwrap()).unwrap();
        // Lean's JSON objects are sorted maps: pass the rule order (the first rule is the start rule) separately
        let order: Vec<String> = g["rules"].as_object().unwrap().keys().map(|k| hex(k.as_bytes())).collect();
        writeln!(self.out, "ruleorder {}", order.join(" ")).unwrap();
        if let Some(t) = optable {
            writeln!(self.out, "optable {}", t.encode()).unwrap();
        }
        writeln!(self.out, "table\n{}end", lang.table).unwrap();
        if let Some(ts) = terms {
            for (i, t) in ts.iter().enumerate() {
                writeln!(self.out, "term {i} {} {} {} {} {}", t.named as u32, t.sym, hex(t.name.as_bytes()), hex(t.text.as_bytes()), t.extra as u32).unwrap();
            }
            writeln!(self.out, "exh {exh}").unwrap();
        }
        writeln!(self.out, "ready").unwrap();
        // (should the real parser crash later, everything up to here is on disk)
        self.out.flush().unwrap();
    }

    /// Parse `text` with the real parser and emit one case.
    pub fn case(&mut self, cid: &str, parser: &mut Parser, text: &[u8], toks: Option<&[usize]>) -> bool {
        // should the real parser crash on this input, the signal handler reports it as the failing case
        crash::note(&format!(
            "{cid} {} {}",
            self.src,
            match toks {
                Some(t) => format!("t:{}", t.iter().map(|i| i.to_string()).collect::<Vec<_>>().join(",")),
                None => format!("x:{}", if text.is_empty() { "-".to_string() } else { hex(text) }),
            }
        ));
        let tree = match parser.parse(text, None) {
            Some(t) => t,
            None => return false,
        };
        let (vt, bad) = vtree_lines(&tree);
        let err = tree.root_node().has_error() || bad;
        self.cases += 1;
        let tstr = match toks {
            Some(t) => format!("T {}", toks_str(t)),
            None => format!("X {}", if text.is_empty() { "-".to_string() } else { hex(text) }),
        };
        writeln!(self.out, "case {cid} {} {tstr}", err as u32).unwrap();
        if !err {
            self.accepted += 1;
            write!(self.out, "itree\n{}", dump_tree(&tree)).unwrap(); // the dump ends with its own `end` line
            write!(self.out, "vtree\n{vt}end\n").unwrap();
        }
        writeln!(self.out, "run").unwrap();
        !err
    }
}





/// All cases of one token-level grammar (random CFG, operator table, GLR).
fn explore_token_grammar(em: &mut Emit, cu: &mut CUnit, rng: &mut Rng, gid: &str, kind: &str, src: &str, json: &str, optable: Option<&OpTable>, budget: usize, nrandom: usize, stats: &mut Stats) -> bool {
    explore_token_grammar_x(em, cu, rng, gid, kind, src, json, optable, budget, nrandom, stats, None, None)
}

#[allow(clippy::too_many_arguments)]
fn explore_token_grammar_x(em: &mut Emit, cu: &mut CUnit, rng: &mut Rng, gid: &str, kind: &str, src: &str, json: &str, optable: Option<&OpTable>, budget: usize, nrandom: usize, stats: &mut Stats, scanner: Option<&str>, samples: Option<&str>) -> bool {
    let lang = match load_lang(cu, json, scanner, OptLevel::default()) {
        Ok(l) => l,
        Err(e) => {
            stats.rejected_by_generator += 1;
            if let Some(t) = optable {
                // the Lean driver decides whether the table's conflicts are all resolved by its precedences
                em.line(&format!("rejected {gid} {}", t.encode()));
                em.line(&format!("src {src}"));
            }
            if std::env::var("C03_VERBOSE").is_ok() {
                eprintln!("{gid}: generator/cc rejected: {}", e.lines().next().unwrap_or(""));
            }
            return false;
        }
    };
    let terms = match terminals(&lang) {
        Some(t) if !t.is_empty() => t,
        _ => {
            stats.no_terminals += 1;
            return false;
        }
    };
    let l = exh_len(terms.len(), budget);
    em.grammar_header(gid, kind, src, &lang, Some(&terms), optable, l);
    let mut parser = Parser::new();
    parser.set_language(&lang.built.language).unwrap();
    let mut n = 0usize;
    all_strings(terms.len(), l, &mut |toks| {
        let text = render(&terms, toks);
        em.case(&format!("{gid}-e{n}"), &mut parser, &text, Some(toks));
        n += 1;
    });
    // operator tables: every chain of two and three binary operators and every operator next to a
    // prefix / postfix operator (the strings on which precedence and associativity decide the tree),
    // whatever the exhaustive bound is
    if let Some(t) = optable {
        let idx = |text: &str| terms.iter().position(|x| x.text == text && !x.named);
        if let Some(num) = terms.iter().position(|x| x.named && x.name == "num") {
            let mut bins: Vec<usize> = Vec::new();
            for b in &t.bin {
                if let Some(i) = idx(&b.0) {
                    if !bins.contains(&i) {
                        bins.push(i);
                    }
                }
            }
            let uns: Vec<usize> = t.un.iter().filter_map(|u| idx(&u.0)).collect();
            let posts: Vec<usize> = t.post.iter().filter_map(|u| idx(&u.0)).collect();
            let mut combos: Vec<Vec<usize>> = Vec::new();
            for &a in &bins {
                for &b in &bins {
                    combos.push(vec![num, a, num, b, num]);
                    if bins.len() <= 5 {
                        for &c in &bins {
                            combos.push(vec![num, a, num, b, num, c, num]);
                        }
                    }
                }
                for &u in &uns {
                    combos.push(vec![u, num, a, num]);
                    combos.push(vec![num, a, u, num, a, num]);
                }
                for &q in &posts {
                    combos.push(vec![num, a, num, q]);
                    combos.push(vec![num, q, a, num]);
                    for &u in &uns {
                        combos.push(vec![u, num, a, num, q]);
                    }
                }
            }
            for &u in &uns {
                for &q in &posts {
                    combos.push(vec![u, num, q]);
                }
            }
            for (k, toks) in combos.iter().enumerate() {
                let text = render(&terms, toks);
                em.case(&format!("{gid}-o{k}"), &mut parser, &text, Some(toks));
            }
        }
    }
    // random derivations and their mutations
    let gg = gen::GrammarGen::new(json, samples);
    let by_text: HashMap<String, usize> = terms.iter().enumerate().map(|(i, t)| (t.text.clone(), i)).collect();
    let extras: Vec<usize> = terms.iter().enumerate().filter(|(_, t)| t.extra).map(|(i, _)| i).collect();
    for r in 0..nrandom {
        let budget_t = [6, 12, 30, 100, 300, 1000][r % 6];
        let sent = gg.sentence(rng, budget_t);
        let mut toks: Vec<usize> = Vec::new();
        let mut ok = true;
        for t in &sent {
            // named pattern tokens are sampled by the generator: map every sample of a pattern to the terminal
            match by_text.get(&t.text) {
                Some(i) => toks.push(*i),
                None => {
                    // pattern token sampled differently from the terminal's canonical text: find by pattern class
                    match terms.iter().position(|x| x.named && same_class(&x.text, &t.text)) {
                        Some(i) => toks.push(i),
                        None => {
                            ok = false;
                            break;
                        }
                    }
                }
            }
        }
        if !ok || toks.len() > 1200 {
            continue;
        }
        if !extras.is_empty() && rng.chance(1, 2) {
            let k = rng.range(1, 3);
            for _ in 0..k {
                let i = rng.below(toks.len() + 1);
                toks.insert(i, *rng.pick(&extras));
            }
        }
        let text = render(&terms, &toks);
        em.case(&format!("{gid}-d{r}"), &mut parser, &text, Some(&toks));
        for m in 0..2 {
            let mt = mutate_toks(rng, &toks, terms.len());
            let text = render(&terms, &mt);
            em.case(&format!("{gid}-m{r}.{m}"), &mut parser, &text, Some(&mt));
        }
    }
    stats.grammars += 1;
    true
}


#[derive(Default)]
struct Stats {
    grammars: usize,
    rejected_by_generator: usize,
    no_terminals: usize,
    zoo: usize,
}

fn explore_zoo(em: &mut Emit, cu: &mut CUnit, rng: &mut Rng, id: &str, ndocs: usize, stats: &mut Stats) {
    let d = zoo::zoo_dir(id);
    let json = match std::fs::read_to_string(d.join("grammar.json")) {
        Ok(j) => j,
        Err(_) => return,
    };
    let scanner = std::fs::read_to_string(d.join("scanner.c")).ok();
    let lang = match load_lang(cu, &json, scanner.as_deref(), OptLevel::default()) {
        Ok(l) => l,
        Err(e) => {
            eprintln!("zoo {id}: {e}");
            return;
        }
    };
    let gid = format!("zoo.{id}");
    em.grammar_header(&gid, "zoo", &format!("zoo:{id}"), &lang, None, None, 0);
    let gg = gen::GrammarGen::new(&json, zoo::read_zoo_file(id, "samples.json").as_deref());
    let mut parser = Parser::new();
    parser.set_language(&lang.built.language).unwrap();
    for r in 0..ndocs {
        let toks = gg.sentence(rng, [4, 10, 30, 100, 400][r % 5]);
        let (text, _) = gg.render(&toks, rng);
        if text.len() > 20000 {
            continue;
        }
        em.case(&format!("{gid}-d{r}"), &mut parser, &text, None);
    }
    stats.zoo += 1;
}

fn parse_string_spec(sx: &str, terms: Option<&[Term]>) -> (Vec<u8>, Option<Vec<usize>>) {
    if let Some(rest) = sx.strip_prefix("t:") {
        let toks: Vec<usize> = if rest.is_empty() || rest == "-" { vec![] } else { rest.split(',').map(|x| x.parse().unwrap()).collect() };
        let text = render(terms.expect("token string needs a token-level grammar"), &toks);
        (text, Some(toks))
    } else if let Some(rest) = sx.strip_prefix("x:") {
        (if rest == "-" { vec![] } else { unhex(rest) }, None)
    } else {
        panic!("bad string spec {sx}");
    }
}

/// Rebuild the grammar JSON of a spec source.
fn grammar_of_src(src: &str) -> (String, String, Option<OpTable>, Option<String>) {
    // returns (kind, json, optable, scanner)
    let f: Vec<&str> = src.splitn(3, ':').collect();
    match f[0] {
        "cfg" => {
            let seed: u64 = f[1].parse().unwrap();
            let k: usize = f[2].parse().unwrap();
            let mut rng = Rng::new(seed ^ (k as u64).wrapping_mul(0x9E37));
            let g = random_cfg(&mut rng, &format!("c03r{k}"));
            ("cfg".into(), serde_json::to_string(&g).unwrap(), None, None)
        }
        "op" => {
            let t = OpTable::decode(f[2]);
            let g = op_grammar(f[1], &t);
            ("op".into(), serde_json::to_string(&g).unwrap(), Some(t), None)
        }
        "opn" => {
            let t = OpTable::decode(f[2]);
            let g = op_grammar_named(f[1], &t);
            ("op".into(), serde_json::to_string(&g).unwrap(), Some(t), None)
        }
        "glr" => {
            let g = glr_grammars_c03().into_iter().find(|(n, _)| n == f[1]).expect("glr grammar").1;
            ("glr".into(), serde_json::to_string(&g).unwrap(), None, None)
        }
        "zoo" => {
            let d = zoo::zoo_dir(f[1]);
            ("zoo".into(), std::fs::read_to_string(d.join("grammar.json")).expect("zoo grammar"), None, std::fs::read_to_string(d.join("scanner.c")).ok())
        }
        "chain" => {
            let seed: u64 = f[1].parse().unwrap();
            let k: usize = f[2].parse().unwrap();
            let mut rng = Rng::new(seed ^ 0xC4A1 ^ (k as u64).wrapping_mul(0x9E37));
            ("cfg".into(), serde_json::to_string(&unit_chain_grammar(&mut rng, &format!("c03chain{k}"))).unwrap(), None, None)
        }
        "lalr" => {
            let seed: u64 = f[1].parse().unwrap();
            let k: usize = f[2].parse().unwrap();
            let mut rng = Rng::new(seed ^ 0x1A18 ^ (k as u64).wrapping_mul(0x9E37));
            ("cfg".into(), serde_json::to_string(&lalr_split_grammar(&mut rng, &format!("c03lalr{k}"))).unwrap(), None, None)
        }
        "lalrglr" => {
            let seed: u64 = f[1].parse().unwrap();
            let k: usize = f[2].parse().unwrap();
            let mut rng = Rng::new(seed ^ 0x61A5 ^ (k as u64).wrapping_mul(0x9E37));
            ("glr".into(), serde_json::to_string(&lalr_glr_grammar(&mut rng, &format!("c03lglr{k}"))).unwrap(), None, None)
        }
        "xop" => {
            let seed: u64 = f[1].parse().unwrap();
            let k: usize = f[2].parse().unwrap();
            let mut rng = Rng::new(seed ^ 0xE87A ^ (k as u64).wrapping_mul(0x9E37));
            let (g, scanner, _) = wide_op_external_grammar(&mut rng, &format!("c03xop{k}"));
            ("xop".into(), serde_json::to_string(&g).unwrap(), None, Some(scanner))
        }
        "json" => ("cfg".into(), String::from_utf8(unhex(f[1])).unwrap(), None, None),
        _ => panic!("bad src {src}"),
    }
}

fn main() {
    limit_resources();
    let args: Vec<String> = std::env::args().collect();
    let out_path = args.get(1).expect("usage: c03 <ops-file> [--spec file]").clone();
    let mut file = std::io::BufWriter::new(std::fs::File::create(&out_path).unwrap());
    let mut cu = CUnit::start();
    let seed = seed_from_env();
    let thorough = tier_is_thorough();
    crash::install(&out_path);
    let mut em = Emit { out: &mut file, cases: 0, accepted: 0, src: String::new() };
    let mut stats = Stats::default();

    if args.get(2).map(|s| s == "--spec").unwrap_or(false) {
        let specs = std::fs::read_to_string(&args[3]).unwrap();
        for (i, line) in specs.lines().enumerate() {
            let parts: Vec<&str> = line.split_whitespace().collect();
            if parts.len() < 2 {
                continue;
            }
            let (kind, json, optable, scanner) = grammar_of_src(parts[0]);
            let gid = format!("replay{i}");
            let lang = match load_lang(&mut cu, &json, scanner.as_deref(), OptLevel::default()) {
                Ok(l) => l,
                Err(e) => {
                    // an operator table the generator refuses is a case of its own
                    if let Some(t) = &optable {
                        em.line(&format!("rejected {gid} {}", t.encode()));
                        em.line(&format!("src {}", parts[0]));
                        continue;
                    }
                    panic!("language of the spec: {e}");
                }
            };
            let terms = if kind == "zoo" { None } else { terminals(&lang) };
            let (text, toks) = parse_string_spec(parts[1], terms.as_deref());
            let l = terms.as_ref().map(|t| exh_len(t.len(), 1500)).unwrap_or(0).max(toks.as_ref().map(|t| t.len().min(8)).unwrap_or(0));
            em.grammar_header(&gid, &kind, parts[0], &lang, terms.as_deref(), optable.as_ref(), l);
            let mut parser = Parser::new();
            parser.set_language(&lang.built.language).unwrap();
            em.case(&format!("{gid}-r0"), &mut parser, &text, toks.as_deref());
        }
        let n = em.cases;
        drop(em);
        file.flush().unwrap();
        eprintln!("c03: replayed {n} cases");
        return;
    }

    let mut rng = Rng::new(seed);
    let (n_cfg, n_op, budget, nrandom, zoo_docs) = if thorough { (400, 150, 60000, 60, 60) } else { (40, 24, 5000, 12, 10) };

    // corpus first: `<src> <string>` lines
    if let Some(corpus) = zoo_corpus("c03") {
        for (i, line) in corpus.lines().enumerate() {
            let parts: Vec<&str> = line.split_whitespace().collect();
            if parts.len() < 2 || line.starts_with('#') {
                continue;
            }
            let (kind, json, optable, scanner) = grammar_of_src(parts[0]);
            if let Ok(lang) = load_lang(&mut cu, &json, scanner.as_deref(), OptLevel::default()) {
                let terms = if kind == "zoo" { None } else { terminals(&lang) };
                let gid = format!("corpus{i}");
                let (text, toks) = parse_string_spec(parts[1], terms.as_deref());
                let l = toks.as_ref().map(|t| t.len()).unwrap_or(0).max(3);
                em.grammar_header(&gid, &kind, parts[0], &lang, terms.as_deref(), optable.as_ref(), l);
                let mut parser = Parser::new();
                parser.set_language(&lang.built.language).unwrap();
                em.case(&format!("{gid}-c0"), &mut parser, &text, toks.as_deref());
            }
        }
    }

    // hand-written grammars with declared conflicts
    for (name, g) in glr_grammars_c03() {
        let json = serde_json::to_string(&g).unwrap();
        explore_token_grammar(&mut em, &mut cu, &mut rng, &name, "glr", &format!("glr:{name}"), &json, None, budget, nrandom, &mut stats);
    }
    // operator tables
    for k in 0..n_op {
        let t = random_optable(&mut rng);
        let name = format!("c03op{k}");
        let g = op_grammar(&name, &t);
        let json = serde_json::to_string(&g).unwrap();
        // (the chains of two and three operators are always explored: a smaller exhaustive bound suffices)
        explore_token_grammar(&mut em, &mut cu, &mut rng, &name, "op", &format!("op:{name}:{}", t.encode()), &json, Some(&t), budget.min(30000), nrandom, &mut stats);
    }
    // LR(1)-but-not-LALR(1) grammars with 2..4-way splits of one item-set core
    for k in 0..(if thorough { 60 } else { 8 }) {
        let mut grng = Rng::new(seed ^ 0x1A18 ^ (k as u64).wrapping_mul(0x9E37));
        let name = format!("c03lalr{k}");
        let json = serde_json::to_string(&lalr_split_grammar(&mut grng, &name)).unwrap();
        explore_token_grammar(&mut em, &mut cu, &mut rng, &name, "cfg", &format!("lalr:{seed}:{k}"), &json, None, budget, nrandom, &mut stats);
    }
    // chains of unit / near-unit productions (LR closure: explicit vs propagated look-aheads)
    for k in 0..(if thorough { 150 } else { 16 }) {
        let mut grng = Rng::new(seed ^ 0xC4A1 ^ (k as u64).wrapping_mul(0x9E37));
        let name = format!("c03chain{k}");
        let json = serde_json::to_string(&unit_chain_grammar(&mut grng, &name)).unwrap();
        explore_token_grammar(&mut em, &mut cu, &mut rng, &name, "cfg", &format!("chain:{seed}:{k}"), &json, None, budget.max(6000), nrandom, &mut stats);
    }
    // random CFGs: each from its own seed so that a spec can rebuild it
    let mut k = 0usize;
    let mut made = 0usize;
    while made < n_cfg && k < n_cfg * 6 {
        let mut grng = Rng::new(seed ^ (k as u64).wrapping_mul(0x9E37));
        let name = format!("c03r{k}");
        let g = random_cfg(&mut grng, &name);
        let json = serde_json::to_string(&g).unwrap();
        if explore_token_grammar(&mut em, &mut cu, &mut rng, &name, "cfg", &format!("cfg:{seed}:{k}"), &json, None, budget, nrandom, &mut stats) {
            made += 1;
        }
        k += 1;
    }
    // zoo grammars without external scanners: grammar-directed documents
    for id in zoo::list() {
        if zoo::zoo_dir(&id).join("scanner.c").exists() {
            // grammars with an external scanner: the table only (closedness, raw rows vs ts_language_lookup)
            let d = zoo::zoo_dir(&id);
            if let (Ok(json), Ok(scanner)) = (std::fs::read_to_string(d.join("grammar.json")), std::fs::read_to_string(d.join("scanner.c"))) {
                if let Ok(lang) = load_lang(&mut cu, &json, Some(&scanner), OptLevel::default()) {
                    em.grammar_header(&format!("zoox.{id}"), "zoox", &format!("zoo:{id}"), &lang, None, None, 0);
                    stats.zoo += 1;
                }
            }
            continue;
        }
        explore_zoo(&mut em, &mut cu, &mut rng, &id, zoo_docs, &mut stats);
    }
    // operator tables in which two rules share one operator text (reduce/reduce resolved by precedence,
    // every reading of the token takes part in the shift/reduce decision); last, so that the
    // families above see the same random stream as before
    // …and tables in which several binary operators are alternatives of ONE rule, some of them on one
    // level with opposite associativity (k ≥ 24)
    for k in 0..(if thorough { 96 } else { 48 }) {
        let mut grng = Rng::new(seed ^ 0x7719 ^ (k as u64).wrapping_mul(0x9E37));
        let mut t = random_optable(&mut grng);
        if k < 24 || k % 3 == 0 {
            add_twin(&mut t, k, &mut grng);
        }
        if k >= 24 {
            group_rules(&mut t, k % 2 == 0, &mut grng);
        }
        let name = format!("c03tw{k}");
        let g = op_grammar(&name, &t);
        let json = serde_json::to_string(&g).unwrap();
        explore_token_grammar(&mut em, &mut cu, &mut rng, &name, "op", &format!("op:{name}:{}", t.encode()), &json, Some(&t), budget.min(15000), nrandom, &mut stats);
    }
    // operator tables written with NAMED precedence levels (ordered by the grammar's `precedences` list)
    for k in 0..(if thorough { 48 } else { 16 }) {
        let mut grng = Rng::new(seed ^ 0x9A3D ^ (k as u64).wrapping_mul(0x9E37));
        let mut t = random_optable(&mut grng);
        for u in t.un.iter_mut().chain(t.post.iter_mut()) {
            u.3 = true;
        }
        if k % 3 == 1 {
            add_twin(&mut t, k, &mut grng);
        }
        if k % 3 == 2 {
            group_rules(&mut t, k % 2 == 0, &mut grng);
        }
        let name = format!("c03np{k}");
        let g = op_grammar_named(&name, &t);
        let json = serde_json::to_string(&g).unwrap();
        explore_token_grammar(&mut em, &mut cu, &mut rng, &name, "op", &format!("opn:{name}:{}", t.encode()), &json, Some(&t), budget.min(15000), nrandom, &mut stats);
    }
    // wide operator sets next to external tokens (a reduce shared by ≥ 10 look-aheads incl. externals)
    for k in 0..(if thorough { 24 } else { 6 }) {
        let mut grng = Rng::new(seed ^ 0xE87A ^ (k as u64).wrapping_mul(0x9E37));
        let name = format!("c03xop{k}");
        let (g, scanner, samples) = wide_op_external_grammar(&mut grng, &name);
        let json = serde_json::to_string(&g).unwrap();
        explore_token_grammar_x(&mut em, &mut cu, &mut rng, &name, "xop", &format!("xop:{seed}:{k}"), &json, None, budget.min(15000), nrandom, &mut stats, Some(&scanner), Some(&samples));
    }
    // LR(1)-but-not-LALR(1) splits behind a declared conflict (GLR entry on the path to the split states)
    for k in 0..(if thorough { 40 } else { 8 }) {
        let mut grng = Rng::new(seed ^ 0x61A5 ^ (k as u64).wrapping_mul(0x9E37));
        let name = format!("c03lglr{k}");
        let json = serde_json::to_string(&lalr_glr_grammar(&mut grng, &name)).unwrap();
        explore_token_grammar(&mut em, &mut cu, &mut rng, &name, "glr", &format!("lalrglr:{seed}:{k}"), &json, None, budget.min(15000), nrandom, &mut stats);
    }
    let (cases, accepted) = (em.cases, em.accepted);
    drop(em);
    writeln!(file, "stats grammars={} rejected_by_generator={} no_terminal_map={} zoo={} cfg_attempts={}", stats.grammars, stats.rejected_by_generator, stats.no_terminals, stats.zoo, k).unwrap();
    file.flush().unwrap();
    eprintln!(
        "c03: wrote {cases} cases ({accepted} error-free) for {} token-level grammars ({} rejected by the generator, {} without terminal map) + {} zoo grammars to {out_path}",
        stats.grammars, stats.rejected_by_generator, stats.no_terminals, stats.zoo
    );
}
