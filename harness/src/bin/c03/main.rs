//! C03 explorer: freshly generated parsers (random conflict-free CFGs, operator tables, declared-
//! conflict grammars, zoo) driven through the REAL generator + runtime; writes the case stream for
//! the Lean driver `tsv-c03` (table dump, token strings, real trees).
//!
//! usage: c03 <ops-file> [--spec <file>]      env: TSV_CUNIT_C03=<path of the unity dumper>
//! spec line: `<src> <string>` with src = cfg:<seed>:<k> | op:<name>:<optable> | glr:<name> | zoo:<id> | json:<hex>
//!            string = t:<i,j,…> (terminal indices; `t:` = empty) | x:<texthex>
mod gram;
use gram::*;
use serde_json::Value;
use std::collections::{HashMap, HashSet};
use std::io::{BufRead, BufReader, Write};
use std::process::{Child, ChildStdin, ChildStdout, Command, Stdio};
use tree_sitter::{Parser, Tree};
use tree_sitter_generate::OptLevel;
use tsv_harness::*;

pub struct CUnit {
    _child: Child,
    stdin: ChildStdin,
    stdout: BufReader<ChildStdout>,
}

impl CUnit {
    pub fn start() -> CUnit {
        let exe = std::env::var("TSV_CUNIT_C03").expect("TSV_CUNIT_C03 not set");
        let mut child = Command::new(exe).stdin(Stdio::piped()).stdout(Stdio::piped()).spawn().expect("spawn cunit_c03");
        let stdin = child.stdin.take().unwrap();
        let stdout = BufReader::new(child.stdout.take().unwrap());
        CUnit { _child: child, stdin, stdout }
    }
    pub fn dump(&mut self, so: &std::path::Path, name: &str) -> String {
        writeln!(self.stdin, "dump {} tree_sitter_{}", so.display(), name).unwrap();
        self.stdin.flush().unwrap();
        let mut out = String::new();
        loop {
            let mut line = String::new();
            if self.stdout.read_line(&mut line).unwrap() == 0 {
                break;
            }
            if line.trim_end() == "end" {
                break;
            }
            out.push_str(&line);
        }
        out
    }
}

#[derive(Clone, Debug)]
pub struct Term {
    pub named: bool,
    pub name: String,
    pub text: String,
    pub sym: usize,
    pub extra: bool,
}

pub struct Lang {
    pub built: zoo::Built,
    pub table: String,
    /// (visible, named, name) by internal symbol id
    pub syms: Vec<(bool, bool, String)>,
    pub token_count: usize,
}

pub fn load_lang(cu: &mut CUnit, json: &str, scanner: Option<&str>, opt: OptLevel) -> Result<Lang, String> {
    let built = zoo::build_from_json(json, scanner, opt)?;
    let table = cu.dump(&built.dir.join("lang.so"), &built.name);
    let mut syms = Vec::new();
    let mut token_count = 0;
    for line in table.lines() {
        let f: Vec<&str> = line.split(' ').collect();
        if f[0] == "lang" {
            token_count = f[4].parse().unwrap();
        } else if f[0] == "sym" {
            let name = if f[6] == "-" { String::new() } else { String::from_utf8_lossy(&unhex(f[6])).into_owned() };
            syms.push((f[2] == "1", f[3] == "1", name));
        } else if f[0] == "error" {
            return Err(format!("dump failed: {line}"));
        }
    }
    Ok(Lang { built, table, syms, token_count })
}

fn is_single_terminal(v: &Value) -> bool {
    match v["type"].as_str().unwrap_or("") {
        "STRING" | "PATTERN" | "TOKEN" | "IMMEDIATE_TOKEN" => true,
        _ => false,
    }
}

fn collect_strings(v: &Value, out: &mut Vec<String>) {
    match v["type"].as_str().unwrap_or("") {
        "STRING" => {
            let s = v["value"].as_str().unwrap().to_string();
            if !out.contains(&s) {
                out.push(s);
            }
        }
        "TOKEN" | "IMMEDIATE_TOKEN" | "PATTERN" => {}
        _ => {
            if let Some(ms) = v.get("members").and_then(|m| m.as_array()) {
                for m in ms {
                    collect_strings(m, out);
                }
            }
            if let Some(c) = v.get("content") {
                collect_strings(c, out);
            }
        }
    }
}

/// The terminals of a grammar whose tokens are all anonymous strings or whole named token rules.
/// `None` when the grammar has inline patterns / tokens (their symbol names are generator-internal).
pub fn terminals(lang: &Lang) -> Option<Vec<Term>> {
    let g: Value = serde_json::from_str(&lang.built.grammar_json).unwrap();
    let rules = g["rules"].as_object().unwrap();
    let mut strings = Vec::new();
    let mut named = Vec::new();
    for (name, body) in rules {
        if is_single_terminal(body) {
            let text = match body["type"].as_str().unwrap() {
                "STRING" => body["value"].as_str().unwrap().to_string(),
                "PATTERN" => gen::sample_regex(body["value"].as_str().unwrap(), &mut Rng::new(7)),
                _ => return None,
            };
            named.push((name.clone(), text));
        } else {
            if has_inline_pattern(body) {
                return None;
            }
            collect_strings(body, &mut strings);
        }
    }
    let extras: Vec<String> = g["extras"].as_array().map(|a| a.iter().filter_map(|e| if e["type"] == "SYMBOL" { e["name"].as_str().map(|s| s.to_string()) } else { None }).collect()).unwrap_or_default();
    let mut out = Vec::new();
    let find = |name: &str, anon: bool| -> Option<usize> {
        (0..lang.token_count.min(lang.syms.len())).find(|&i| lang.syms[i].2 == name && (if anon { lang.syms[i].0 && !lang.syms[i].1 } else { lang.syms[i].1 }))
    };
    for s in strings {
        // a string that is also the whole body of a named token rule lexes as that rule's token
        if named.iter().any(|(_, t)| *t == s) {
            return None;
        }
        // a string that only occurs in unreachable rules has no symbol: not a terminal of the language
        let sym = match find(&s, true) {
            Some(x) => x,
            None => continue,
        };
        out.push(Term { named: false, name: s.clone(), text: s, sym, extra: false });
    }
    for (n, t) in named {
        if let Some(sym) = find(&n, false) {
            out.push(Term { named: true, name: n.clone(), text: t, sym, extra: extras.contains(&n) });
        }
        // a token rule that is never used has no symbol of its own: not a terminal of the language
    }
    let mut texts = HashSet::new();
    for t in &out {
        if !texts.insert(t.text.clone()) {
            return None;
        }
    }
    Some(out)
}

fn has_inline_pattern(v: &Value) -> bool {
    match v["type"].as_str().unwrap_or("") {
        "PATTERN" | "TOKEN" | "IMMEDIATE_TOKEN" => true,
        _ => {
            v.get("members").and_then(|m| m.as_array()).map(|ms| ms.iter().any(has_inline_pattern)).unwrap_or(false)
                || v.get("content").map(has_inline_pattern).unwrap_or(false)
        }
    }
}

/// The visible tree through the public API (kinds after aliasing, fields, extras), preorder.
pub fn vtree_lines(tree: &Tree) -> (String, bool) {
    let mut out = String::new();
    let mut bad = false;
    let mut cur = tree.walk();
    let mut depth_done = false;
    loop {
        if !depth_done {
            let n = cur.node();
            let flags = (n.is_missing() as u32) | ((n.is_error() as u32) << 1);
            if flags != 0 {
                bad = true;
            }
            let f = cur.field_name().map(|s| hex(s.as_bytes())).unwrap_or_else(|| "-".to_string());
            let k = n.kind();
            out.push_str(&format!(
                "v {} {} {} {} {} {}\n",
                if k.is_empty() { "-".to_string() } else { hex(k.as_bytes()) },
                n.is_named() as u32,
                n.is_extra() as u32,
                f,
                n.child_count(),
                flags
            ));
            if cur.goto_first_child() {
                continue;
            }
        }
        if cur.goto_next_sibling() {
            depth_done = false;
            continue;
        }
        if !cur.goto_parent() {
            break;
        }
        depth_done = true;
    }
    (out, bad)
}

pub struct Emit<'a> {
    pub out: &'a mut dyn Write,
    pub cases: usize,
    pub accepted: usize,
}

fn toks_str(toks: &[usize]) -> String {
    if toks.is_empty() {
        "-".to_string()
    } else {
        toks.iter().map(|t| t.to_string()).collect::<Vec<_>>().join(",")
    }
}

impl Emit<'_> {
    pub fn grammar_header(&mut self, gid: &str, kind: &str, src: &str, lang: &Lang, terms: Option<&[Term]>, optable: Option<&OpTable>, exh: usize) {
        let g: Value = serde_json::from_str(&lang.built.grammar_json).unwrap();
        writeln!(self.out, "grammar {gid} {kind}").unwrap();
        writeln!(self.out, "src {src}").unwrap();
        writeln!(self.out, "gjson {}", serde_json::to_string(&g).unwrap()).unwrap();
        // Lean's JSON objects are sorted maps: pass the rule order (the first rule is the start rule) separately
        let order: Vec<String> = g["rules"].as_object().unwrap().keys().map(|k| hex(k.as_bytes())).collect();
        writeln!(self.out, "ruleorder {}", order.join(" ")).unwrap();
        if let Some(t) = optable {
            writeln!(self.out, "optable {}", t.encode()).unwrap();
        }
        writeln!(self.out, "table\n{}end", lang.table).unwrap();
        if let Some(ts) = terms {
            for (i, t) in ts.iter().enumerate() {
                writeln!(self.out, "term {i} {} {} {} {} {}", t.named as u32, t.sym, hex(t.name.as_bytes()), hex(t.text.as_bytes()), t.extra as u32).unwrap();
            }
            writeln!(self.out, "exh {exh}").unwrap();
        }
        writeln!(self.out, "ready").unwrap();
    }

    /// Parse `text` with the real parser and emit one case.
    pub fn case(&mut self, cid: &str, parser: &mut Parser, text: &[u8], toks: Option<&[usize]>) -> bool {
        let tree = match parser.parse(text, None) {
            Some(t) => t,
            None => return false,
        };
        let (vt, bad) = vtree_lines(&tree);
        let err = tree.root_node().has_error() || bad;
        self.cases += 1;
        let tstr = match toks {
            Some(t) => format!("T {}", toks_str(t)),
            None => format!("X {}", if text.is_empty() { "-".to_string() } else { hex(text) }),
        };
        writeln!(self.out, "case {cid} {} {tstr}", err as u32).unwrap();
        if !err {
            self.accepted += 1;
            write!(self.out, "itree\n{}", dump_tree(&tree)).unwrap(); // the dump ends with its own `end` line
            write!(self.out, "vtree\n{vt}end\n").unwrap();
        }
        writeln!(self.out, "run").unwrap();
        !err
    }
}

pub fn render(terms: &[Term], toks: &[usize]) -> Vec<u8> {
    let mut s = String::new();
    for (i, t) in toks.iter().enumerate() {
        if i > 0 {
            s.push(' ');
        }
        s.push_str(&terms[*t].text);
    }
    s.into_bytes()
}

/// Exhaustive bound: the largest L with sum_{k<=L} t^k <= budget (at least 2, at most 7).
pub fn exh_len(t: usize, budget: usize) -> usize {
    let mut l = 0;
    let mut total = 1usize;
    let mut pow = 1usize;
    while l < 7 {
        pow = pow.saturating_mul(t.max(1));
        if total + pow > budget {
            break;
        }
        total += pow;
        l += 1;
    }
    l.max(2)
}

fn all_strings(t: usize, l: usize, f: &mut dyn FnMut(&[usize])) {
    let mut cur: Vec<usize> = Vec::new();
    fn rec(t: usize, l: usize, cur: &mut Vec<usize>, f: &mut dyn FnMut(&[usize])) {
        f(cur);
        if cur.len() == l {
            return;
        }
        for i in 0..t {
            cur.push(i);
            rec(t, l, cur, f);
            cur.pop();
        }
    }
    rec(t, l, &mut cur, f);
}

fn mutate_toks(rng: &mut Rng, toks: &[usize], nterm: usize) -> Vec<usize> {
    let mut v = toks.to_vec();
    let k = rng.range(1, 2);
    for _ in 0..k {
        let n = v.len();
        match rng.below(4) {
            0 if n > 0 => {
                v.remove(rng.below(n));
            }
            1 if n > 0 => {
                let i = rng.below(n);
                let x = v[i];
                v.insert(i, x);
            }
            2 if n > 1 => {
                let i = rng.below(n - 1);
                v.swap(i, i + 1);
            }
            _ => {
                let i = rng.below(n + 1);
                v.insert(i, rng.below(nterm));
            }
        }
    }
    v
}

/// All cases of one token-level grammar (random CFG, operator table, GLR).
fn explore_token_grammar(em: &mut Emit, cu: &mut CUnit, rng: &mut Rng, gid: &str, kind: &str, src: &str, json: &str, optable: Option<&OpTable>, budget: usize, nrandom: usize, stats: &mut Stats) -> bool {
    let lang = match load_lang(cu, json, None, OptLevel::default()) {
        Ok(l) => l,
        Err(e) => {
            stats.rejected_by_generator += 1;
            if std::env::var("C03_VERBOSE").is_ok() {
                eprintln!("{gid}: generator/cc rejected: {}", e.lines().next().unwrap_or(""));
            }
            return false;
        }
    };
    let terms = match terminals(&lang) {
        Some(t) if !t.is_empty() => t,
        _ => {
            stats.no_terminals += 1;
            return false;
        }
    };
    let l = exh_len(terms.len(), budget);
    em.grammar_header(gid, kind, src, &lang, Some(&terms), optable, l);
    let mut parser = Parser::new();
    parser.set_language(&lang.built.language).unwrap();
    let mut n = 0usize;
    all_strings(terms.len(), l, &mut |toks| {
        let text = render(&terms, toks);
        em.case(&format!("{gid}-e{n}"), &mut parser, &text, Some(toks));
        n += 1;
    });
    // random derivations and their mutations
    let gg = gen::GrammarGen::new(json, None);
    let by_text: HashMap<String, usize> = terms.iter().enumerate().map(|(i, t)| (t.text.clone(), i)).collect();
    let extras: Vec<usize> = terms.iter().enumerate().filter(|(_, t)| t.extra).map(|(i, _)| i).collect();
    for r in 0..nrandom {
        let budget_t = [6, 12, 30, 100, 300, 1000][r % 6];
        let sent = gg.sentence(rng, budget_t);
        let mut toks: Vec<usize> = Vec::new();
        let mut ok = true;
        for t in &sent {
            // named pattern tokens are sampled by the generator: map every sample of a pattern to the terminal
            match by_text.get(&t.text) {
                Some(i) => toks.push(*i),
                None => {
                    // pattern token sampled differently from the terminal's canonical text: find by pattern class
                    match terms.iter().position(|x| x.named && same_class(&x.text, &t.text)) {
                        Some(i) => toks.push(i),
                        None => {
                            ok = false;
                            break;
                        }
                    }
                }
            }
        }
        if !ok || toks.len() > 1200 {
            continue;
        }
        if !extras.is_empty() && rng.chance(1, 2) {
            let k = rng.range(1, 3);
            for _ in 0..k {
                let i = rng.below(toks.len() + 1);
                toks.insert(i, *rng.pick(&extras));
            }
        }
        let text = render(&terms, &toks);
        em.case(&format!("{gid}-d{r}"), &mut parser, &text, Some(&toks));
        for m in 0..2 {
            let mt = mutate_toks(rng, &toks, terms.len());
            let text = render(&terms, &mt);
            em.case(&format!("{gid}-m{r}.{m}"), &mut parser, &text, Some(&mt));
        }
    }
    stats.grammars += 1;
    true
}

fn same_class(a: &str, b: &str) -> bool {
    let cls = |s: &str| -> u8 {
        if s.chars().all(|c| c.is_ascii_digit()) {
            1
        } else if s.chars().all(|c| ('x'..='z').contains(&c)) {
            2
        } else {
            0
        }
    };
    cls(a) != 0 && cls(a) == cls(b)
}

#[derive(Default)]
struct Stats {
    grammars: usize,
    rejected_by_generator: usize,
    no_terminals: usize,
    zoo: usize,
}

fn explore_zoo(em: &mut Emit, cu: &mut CUnit, rng: &mut Rng, id: &str, ndocs: usize, stats: &mut Stats) {
    let d = zoo::zoo_dir(id);
    let json = match std::fs::read_to_string(d.join("grammar.json")) {
        Ok(j) => j,
        Err(_) => return,
    };
    let scanner = std::fs::read_to_string(d.join("scanner.c")).ok();
    let lang = match load_lang(cu, &json, scanner.as_deref(), OptLevel::default()) {
        Ok(l) => l,
        Err(e) => {
            eprintln!("zoo {id}: {e}");
            return;
        }
    };
    let gid = format!("zoo.{id}");
    em.grammar_header(&gid, "zoo", &format!("zoo:{id}"), &lang, None, None, 0);
    let gg = gen::GrammarGen::new(&json, zoo::read_zoo_file(id, "samples.json").as_deref());
    let mut parser = Parser::new();
    parser.set_language(&lang.built.language).unwrap();
    for r in 0..ndocs {
        let toks = gg.sentence(rng, [4, 10, 30, 100, 400][r % 5]);
        let (text, _) = gg.render(&toks, rng);
        if text.len() > 20000 {
            continue;
        }
        em.case(&format!("{gid}-d{r}"), &mut parser, &text, None);
    }
    stats.zoo += 1;
}

fn parse_string_spec(sx: &str, terms: Option<&[Term]>) -> (Vec<u8>, Option<Vec<usize>>) {
    if let Some(rest) = sx.strip_prefix("t:") {
        let toks: Vec<usize> = if rest.is_empty() || rest == "-" { vec![] } else { rest.split(',').map(|x| x.parse().unwrap()).collect() };
        let text = render(terms.expect("token string needs a token-level grammar"), &toks);
        (text, Some(toks))
    } else if let Some(rest) = sx.strip_prefix("x:") {
        (if rest == "-" { vec![] } else { unhex(rest) }, None)
    } else {
        panic!("bad string spec {sx}");
    }
}

/// Rebuild the grammar JSON of a spec source.
fn grammar_of_src(src: &str) -> (String, String, Option<OpTable>, Option<String>) {
    // returns (kind, json, optable, scanner)
    let f: Vec<&str> = src.splitn(3, ':').collect();
    match f[0] {
        "cfg" => {
            let seed: u64 = f[1].parse().unwrap();
            let k: usize = f[2].parse().unwrap();
            let mut rng = Rng::new(seed ^ (k as u64).wrapping_mul(0x9E37));
            let g = random_cfg(&mut rng, &format!("c03r{k}"));
            ("cfg".into(), serde_json::to_string(&g).unwrap(), None, None)
        }
        "op" => {
            let t = OpTable::decode(f[2]);
            let g = op_grammar(f[1], &t);
            ("op".into(), serde_json::to_string(&g).unwrap(), Some(t), None)
        }
        "glr" => {
            let g = glr_grammars().into_iter().find(|(n, _)| n == f[1]).expect("glr grammar").1;
            ("glr".into(), serde_json::to_string(&g).unwrap(), None, None)
        }
        "zoo" => {
            let d = zoo::zoo_dir(f[1]);
            ("zoo".into(), std::fs::read_to_string(d.join("grammar.json")).expect("zoo grammar"), None, std::fs::read_to_string(d.join("scanner.c")).ok())
        }
        "json" => ("cfg".into(), String::from_utf8(unhex(f[1])).unwrap(), None, None),
        _ => panic!("bad src {src}"),
    }
}

fn main() {
    limit_resources();
    let args: Vec<String> = std::env::args().collect();
    let out_path = args.get(1).expect("usage: c03 <ops-file> [--spec file]").clone();
    let mut file = std::io::BufWriter::new(std::fs::File::create(&out_path).unwrap());
    let mut cu = CUnit::start();
    let seed = seed_from_env();
    let thorough = tier_is_thorough();
    let mut em = Emit { out: &mut file, cases: 0, accepted: 0 };
    let mut stats = Stats::default();

    if args.get(2).map(|s| s == "--spec").unwrap_or(false) {
        let specs = std::fs::read_to_string(&args[3]).unwrap();
        for (i, line) in specs.lines().enumerate() {
            let parts: Vec<&str> = line.split_whitespace().collect();
            if parts.len() < 2 {
                continue;
            }
            let (kind, json, optable, scanner) = grammar_of_src(parts[0]);
            let lang = load_lang(&mut cu, &json, scanner.as_deref(), OptLevel::default()).expect("language of the spec");
            let terms = if kind == "zoo" { None } else { terminals(&lang) };
            let gid = format!("replay{i}");
            let l = terms.as_ref().map(|t| exh_len(t.len(), 1500)).unwrap_or(0);
            em.grammar_header(&gid, &kind, parts[0], &lang, terms.as_deref(), optable.as_ref(), l);
            let mut parser = Parser::new();
            parser.set_language(&lang.built.language).unwrap();
            let (text, toks) = parse_string_spec(parts[1], terms.as_deref());
            em.case(&format!("{gid}-r0"), &mut parser, &text, toks.as_deref());
        }
        let n = em.cases;
        drop(em);
        file.flush().unwrap();
        eprintln!("c03: replayed {n} cases");
        return;
    }

    let mut rng = Rng::new(seed);
    let (n_cfg, n_op, budget, nrandom, zoo_docs) = if thorough { (400, 120, 60000, 60, 60) } else { (36, 12, 4000, 12, 10) };

    // corpus first: `<src> <string>` lines
    if let Some(corpus) = zoo_corpus("c03") {
        for (i, line) in corpus.lines().enumerate() {
            let parts: Vec<&str> = line.split_whitespace().collect();
            if parts.len() < 2 || line.starts_with('#') {
                continue;
            }
            let (kind, json, optable, scanner) = grammar_of_src(parts[0]);
            if let Ok(lang) = load_lang(&mut cu, &json, scanner.as_deref(), OptLevel::default()) {
                let terms = if kind == "zoo" { None } else { terminals(&lang) };
                let gid = format!("corpus{i}");
                em.grammar_header(&gid, &kind, parts[0], &lang, terms.as_deref(), optable.as_ref(), 2);
                let mut parser = Parser::new();
                parser.set_language(&lang.built.language).unwrap();
                let (text, toks) = parse_string_spec(parts[1], terms.as_deref());
                em.case(&format!("{gid}-c0"), &mut parser, &text, toks.as_deref());
            }
        }
    }

    // hand-written grammars with declared conflicts
    for (name, g) in glr_grammars() {
        let json = serde_json::to_string(&g).unwrap();
        explore_token_grammar(&mut em, &mut cu, &mut rng, &name, "glr", &format!("glr:{name}"), &json, None, budget, nrandom, &mut stats);
    }
    // operator tables
    for k in 0..n_op {
        let t = random_optable(&mut rng);
        let name = format!("c03op{k}");
        let g = op_grammar(&name, &t);
        let json = serde_json::to_string(&g).unwrap();
        explore_token_grammar(&mut em, &mut cu, &mut rng, &name, "op", &format!("op:{name}:{}", t.encode()), &json, Some(&t), budget, nrandom, &mut stats);
    }
    // random CFGs: each from its own seed so that a spec can rebuild it
    let mut k = 0usize;
    let mut made = 0usize;
    while made < n_cfg && k < n_cfg * 6 {
        let mut grng = Rng::new(seed ^ (k as u64).wrapping_mul(0x9E37));
        let name = format!("c03r{k}");
        let g = random_cfg(&mut grng, &name);
        let json = serde_json::to_string(&g).unwrap();
        if explore_token_grammar(&mut em, &mut cu, &mut rng, &name, "cfg", &format!("cfg:{seed}:{k}"), &json, None, budget, nrandom, &mut stats) {
            made += 1;
        }
        k += 1;
    }
    // zoo grammars without external scanners: grammar-directed documents
    for id in zoo::list() {
        if zoo::zoo_dir(&id).join("scanner.c").exists() {
            continue;
        }
        explore_zoo(&mut em, &mut cu, &mut rng, &id, zoo_docs, &mut stats);
    }
    let (cases, accepted) = (em.cases, em.accepted);
    drop(em);
    writeln!(file, "stats grammars={} rejected_by_generator={} no_terminal_map={} zoo={} cfg_attempts={}", stats.grammars, stats.rejected_by_generator, stats.no_terminals, stats.zoo, k).unwrap();
    file.flush().unwrap();
    eprintln!(
        "c03: wrote {cases} cases ({accepted} error-free) for {} token-level grammars ({} rejected by the generator, {} without terminal map) + {} zoo grammars to {out_path}",
        stats.grammars, stats.rejected_by_generator, stats.no_terminals, stats.zoo
    );
}
