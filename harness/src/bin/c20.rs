//! C20 explorer: generated corpus files → REAL `parse_tests` / `run_tests_at_path(update = true)`
//! of /repo/crates/cli, twice; writes the case stream for the Lean driver `tsv-c20`.
//! usage: c20 <ops-file> <scratch-dir> [--spec <file>]
//! A spec line is the corpus file's bytes in hex (`#` starts a comment line).
//! Needs `--features cli`.

#[cfg(not(feature = "cli"))]
fn main() {
    eprintln!("c20: build with --features cli");
    std::process::exit(2);
}

#[cfg(feature = "cli")]
fn main() {
    real::main();
}

#[cfg(feature = "cli")]
mod real {
    use std::collections::{BTreeMap, BTreeSet};
    use std::io::Write;
    use std::path::{Path, PathBuf};
    use std::time::{Duration, SystemTime};
    use tree_sitter::{Language, Parser};
    use tree_sitter_cli::parse::{render_cst, ParseDebugType, ParseFileOptions, ParseOutput, ParseStats, ParseTheme};
    use tree_sitter_cli::test::{
        parse_tests, run_tests_at_path, strip_sexp_fields, TestEntry, TestExpectation, TestOptions, TestStats, TestSummary,
    };
    use tsv_harness::*;

    /// Second file of a directory-mode case: delimiters 4/7, one wrong and one right expectation.
    const B_FIXED: &str = "====\nb one\n====\nx = 1;\n-------\n\n(wrong)\n\n===\nb two\n:error\n===\ny = ;\n---\n\n(source)\n";

    const LANGS: [(&str, &str); 4] = [("main", "stmt"), ("other", "lst"), ("xf", "fldx"), ("xq", "qtok")];

    fn hx(b: &[u8]) -> String {
        if b.is_empty() {
            "-".to_string()
        } else {
            hex(b)
        }
    }

    struct Ent {
        name: String,
        input: Vec<u8>,
        output: String,
        hlen: usize,
        dlen: usize,
        has_fields: bool,
        attrs_str: String,
        platform: bool,
        fail_fast: bool,
        expect: u8,
        cst: bool,
        languages: Vec<String>,
    }

    fn flatten(e: TestEntry, out: &mut Vec<Ent>) {
        match e {
            TestEntry::Group { children, .. } => {
                for c in children {
                    flatten(c, out);
                }
            }
            TestEntry::Example { name, input, output, header_delim_len, divider_delim_len, has_fields, attributes_str, attributes, .. } => {
                out.push(Ent {
                    name,
                    input,
                    output,
                    hlen: header_delim_len,
                    dlen: divider_delim_len,
                    has_fields,
                    attrs_str: attributes_str,
                    platform: attributes.platform,
                    fail_fast: attributes.fail_fast,
                    expect: match attributes.expectation {
                        TestExpectation::Pass => 0,
                        TestExpectation::Error => 1,
                        TestExpectation::Skip => 2,
                    },
                    cst: attributes.cst,
                    languages: attributes.languages.iter().map(|l| l.to_string()).collect(),
                });
            }
        }
    }

    fn entries(path: &Path) -> Vec<Ent> {
        let mut v = Vec::new();
        if let Ok(e) = parse_tests(path) {
            flatten(e, &mut v);
        }
        v
    }

    fn write_entries(out: &mut impl Write, tag: &str, es: &[Ent]) {
        for e in es {
            let langs: Vec<String> = e.languages.iter().map(|l| hx(l.as_bytes())).collect();
            writeln!(
                out,
                "{tag} {} {} {} {} {} {} {} {} {} {} {} {}",
                hx(e.name.as_bytes()),
                hx(e.attrs_str.as_bytes()),
                hx(&e.input),
                hx(e.output.as_bytes()),
                e.hlen,
                e.dlen,
                e.has_fields as u8,
                e.platform as u8,
                e.fail_fast as u8,
                e.expect,
                e.cst as u8,
                langs.join(",")
            )
            .unwrap();
        }
    }

    fn cst_of(input: &[u8], tree: &tree_sitter::Tree) -> String {
        // same calls as `render_test_cst` in crates/cli/src/test.rs (private there)
        let mut rendered: Vec<u8> = Vec::new();
        let mut cursor = tree.walk();
        let opts = ParseFileOptions {
            edits: &[],
            output: ParseOutput::Cst,
            stats: &mut ParseStats::default(),
            print_time: false,
            timeout: 0,
            debug: ParseDebugType::Quiet,
            debug_graph: false,
            cancellation_flag: None,
            encoding: None,
            open_log: false,
            no_ranges: false,
            parse_theme: &ParseTheme::empty(),
        };
        let _ = render_cst(input, tree, &mut cursor, &opts, &mut rendered);
        String::from_utf8_lossy(&rendered).trim().to_string()
    }

    pub struct World {
        langs: Vec<(String, Language)>,
        scratch: PathBuf,
        n: usize,
    }

    impl World {
        fn lang(&self, name: &str) -> Option<&Language> {
            if name.is_empty() {
                return Some(&self.langs[0].1);
            }
            self.langs.iter().find(|(n, _)| n == name).map(|(_, l)| l)
        }

        fn actual(&self, lang: &str, input: &[u8]) -> Option<(String, String, String, bool)> {
            let l = self.lang(lang)?;
            let mut p = Parser::new();
            p.set_language(l).ok()?;
            let tree = p.parse(input, None)?;
            let sexp = tree.root_node().to_sexp();
            let plain = strip_sexp_fields(&sexp);
            let cst = cst_of(input, &tree);
            Some((sexp, plain, cst, tree.root_node().has_error()))
        }

        /// Raw regex match of a test name for this case's filter (`i`: TREE_SITTER_EXAMPLE_INCLUDE pattern,
        /// `x`: TREE_SITTER_EXAMPLE_EXCLUDE pattern; the harness has no `regex` dependency of its own, so the two
        /// patterns are fixed per process and obtained through the CLI crate's env-initialised statics).
        fn name_match(filter: char, name: &str) -> bool {
            match filter {
                'i' | 'b' => tree_sitter_cli::fuzz::EXAMPLE_INCLUDE.as_ref().map(|r| r.is_match(name)).unwrap_or(false),
                'x' => tree_sitter_cli::fuzz::EXAMPLE_EXCLUDE.as_ref().map(|r| r.is_match(name)).unwrap_or(false),
                _ => false,
            }
        }

        fn update(&self, run_path: &Path, path: &Path, filter: char) -> (String, bool) {
            let old = SystemTime::UNIX_EPOCH + Duration::from_secs(946_684_800);
            if let Ok(f) = std::fs::OpenOptions::new().write(true).open(path) {
                let _ = f.set_modified(old);
            }
            let mut map: BTreeMap<&str, &Language> = BTreeMap::new();
            for (n, l) in &self.langs {
                map.insert(n.as_str(), l);
            }
            let mut parser = Parser::new();
            parser.set_language(map.values().next().unwrap()).unwrap();
            let opts = TestOptions {
                path: run_path.to_path_buf(),
                debug: false,
                debug_graph: false,
                include: if filter == 'i' || filter == 'b' { tree_sitter_cli::fuzz::EXAMPLE_INCLUDE.clone() } else { None },
                exclude: if filter == 'x' || filter == 'b' { tree_sitter_cli::fuzz::EXAMPLE_EXCLUDE.clone() } else { None },
                file_name: None,
                update: true,
                open_log: false,
                languages: map,
                show_fields: false,
                overview_only: false,
            };
            let mut summary = TestSummary::new(TestStats::default(), true, false, false);
            let r = std::panic::catch_unwind(std::panic::AssertUnwindSafe(|| run_tests_at_path(&mut parser, &opts, &mut summary)));
            let res = match r {
                Ok(Ok(())) => "ok".to_string(),
                Ok(Err(_)) => "err".to_string(),
                Err(_) => "panic".to_string(),
            };
            let wrote = std::fs::metadata(path).and_then(|m| m.modified()).map(|t| t != old).unwrap_or(true);
            (res, wrote)
        }

        /// Run one corpus file through the real code and emit the case.
        /// Run one probe file through the real update and return its content afterwards.
        fn probe_update(&mut self, content: &str, filter: char) -> String {
            self.n += 1;
            let dir = self.scratch.join(format!("p{}", self.n)).join("corpus");
            std::fs::create_dir_all(&dir).unwrap();
            let path = dir.join("probe.txt");
            std::fs::write(&path, content).unwrap();
            let _ = self.update(&path, &path, filter);
            let after = std::fs::read_to_string(&path).unwrap_or_default();
            let _ = std::fs::remove_dir_all(self.scratch.join(format!("p{}", self.n)));
            after
        }

        pub fn probe_repairs(&mut self) -> Vec<bool> {
            let count = |s: &str, pat: &str| s.matches(pat).count();
            // 1. a :skip test survives the update
            let a1 = self.probe_update("===\nrun\n===\na = 1;\n---\n\n(wrong)\n\n===\nskipped\n:skip\n===\nb = 2;\n---\n\n(source)\n", 'n');
            let keep_unrun = a1.contains("skipped");
            // 2. a test with two :language lines is written once
            let a2 = self.probe_update("===\ntwice\n:language(main)\n:language(main)\n===\na = 1;\n---\n\n(wrong)\n", 'n');
            let one_correction = count(&a2, "twice") == 1;
            // 3. the delimiter suffix and the text in front of the first test survive
            let a3 = self.probe_update("; leading note\n\n===|||\nsuffixed\n===|||\na = 1;\n---|||\n\n(wrong)\n", 'n');
            let keep_suffix_preamble = a3.contains("===|||") && a3.starts_with("; leading note");
            // 4. format_sexp leaves quote mode at the closing quote
            let f = tree_sitter::format_sexp("(a (UNEXPECTED 'x') (UNEXPECTED 'x') (b))", 0);
            let quote_reset = f == "(a\n  (UNEXPECTED 'x')\n  (UNEXPECTED 'x')\n  (b))";
            // 5. a :cst test carried over by a filtered update keeps its expectation ("first" matches --exclude [io])
            let a5 = self.probe_update("===\nfirst\n:cst\n===\na = 1;\n---\n\n0:0 - 0:6 source\n\n===\nup\n===\nc = 3;\n---\n\n(wrong)\n", 'x');
            let keep_cst_filtered = a5.contains("0:0 - 0:6 source");
            // 6. inside a quoted token a quote character of the same kind is text: (MISSING """)
            let f6 = tree_sitter::format_sexp("(a (MISSING \"\"\") (b (MISSING \"'\")) (c))", 0);
            let same_quote = f6 == "(a\n  (MISSING \"\"\")\n  (b\n    (MISSING \"'\"))\n  (c))";
            vec![keep_unrun, one_correction, keep_suffix_preamble, quote_reset, keep_cst_filtered, same_quote]
        }

        /// `filter`: n / i / x = update of the single file; N / I / X = the same filter, but the update is run on the
        /// DIRECTORY that contains the case file (`a_case.txt`) and a second, fixed file (`b_fixed.txt`).
        pub fn run_case(&mut self, out: &mut impl Write, cid: &str, filter_spec: char, content: &[u8]) {
            self.n += 1;
            let dir_mode = filter_spec.is_ascii_uppercase();
            let filter = filter_spec.to_ascii_lowercase();
            let dir = self.scratch.join(format!("t{}", self.n)).join("corpus");
            std::fs::create_dir_all(&dir).unwrap();
            let path = dir.join(if dir_mode { "a_case.txt" } else { "case.txt" });
            std::fs::write(&path, content).unwrap();
            let bpath = dir.join("b_fixed.txt");
            let run_path = if dir_mode { dir.clone() } else { path.clone() };
            if dir_mode {
                std::fs::write(&bpath, B_FIXED).unwrap();
                std::fs::write(dir.join(".hidden.txt"), "===\nhidden\n===\nx\n---\n\n(wrong)\n").unwrap();
            }
            writeln!(out, "spec {cid} {filter_spec} {}", hx(content)).unwrap();
            writeln!(out, "case {cid}").unwrap();
            writeln!(out, "os {}", hx(std::env::consts::OS.as_bytes())).unwrap();
            writeln!(out, "orig {}", hx(content)).unwrap();
            let ent0 = entries(&path);
            let bent0 = if dir_mode { entries(&bpath) } else { vec![] };
            let (res1, wrote1) = self.update(&run_path, &path, filter);
            let after1 = std::fs::read(&path).unwrap();
            let ent1 = entries(&path);
            let bafter1 = if dir_mode { std::fs::read(&bpath).unwrap() } else { vec![] };
            let bent1 = if dir_mode { entries(&bpath) } else { vec![] };
            let (res2, _wrote2) = self.update(&run_path, &path, filter);
            let after2 = std::fs::read(&path).unwrap();
            let bafter2 = if dir_mode { std::fs::read(&bpath).unwrap() } else { vec![] };
            let ent2 = entries(&path);
            // table (language, input) -> rendering, for every test the real code saw at any stage
            let mut keys: BTreeSet<(String, Vec<u8>)> = BTreeSet::new();
            for e in ent0.iter().chain(ent1.iter()).chain(ent2.iter()).chain(bent0.iter()).chain(bent1.iter()) {
                keys.insert((String::new(), e.input.clone()));
                for l in &e.languages {
                    keys.insert((l.clone(), e.input.clone()));
                }
            }
            for (l, inp) in &keys {
                if let Some((sf, sp, cst, he)) = self.actual(l, inp) {
                    writeln!(out, "act {} {} {} {} {} {}", hx(l.as_bytes()), hx(inp), hx(sf.as_bytes()), hx(sp.as_bytes()), hx(cst.as_bytes()), he as u8).unwrap();
                }
            }
            writeln!(out, "filter {filter}").unwrap();
            let names: BTreeSet<String> =
                ent0.iter().chain(ent1.iter()).chain(ent2.iter()).chain(bent0.iter()).chain(bent1.iter()).map(|e| e.name.clone()).collect();
            for n in &names {
                writeln!(out, "nm {} {}", hx(n.as_bytes()), Self::name_match(filter, n) as u8).unwrap();
            }
            write_entries(out, "ent0", &ent0);
            write_entries(out, "ent1", &ent1);
            writeln!(out, "res1 {res1}").unwrap();
            writeln!(out, "res2 {res2}").unwrap();
            writeln!(out, "wrote1 {}", wrote1 as u8).unwrap();
            writeln!(out, "after1 {}", hx(&after1)).unwrap();
            writeln!(out, "after2 {}", hx(&after2)).unwrap();
            if dir_mode {
                writeln!(out, "borig {}", hx(B_FIXED.as_bytes())).unwrap();
                writeln!(out, "bafter1 {}", hx(&bafter1)).unwrap();
                writeln!(out, "bafter2 {}", hx(&bafter2)).unwrap();
            }
            writeln!(out, "run").unwrap();
            let _ = std::fs::remove_dir_all(self.scratch.join(format!("t{}", self.n)));
        }
    }

    // ------------------------------------------------------------------ generator

    struct Gen<'a> {
        rng: Rng,
        world: &'a World,
        gg: gen::GrammarGen,
    }

    const NAMES: [&str; 16] = [
        "first", "second test", "Third: with, punctuation!", "a (parenthesised) name", "  indented name", "名前 é", "x",
        "name with trailing dots...", "= equals in name =", "- dash -", "semi;colon", "tab\tinside", ":colon start", "ends with colon:", "two\nlines",
        "three\nline\nname",
    ];
    const STMT_INPUTS: [&str; 22] = [
        "a = 1;", "foo(x, y);", "if a { b = 2; } else { c = 3; }", "while x < 3 { x = x + 1; }", "return;", "return 'a b';", "x1 = (a + b) - c;",
        "{ }", "// comment\na = b;", "a = 1;\nb = 2;\n\nc = 3;", "f();\n", "a == b;", "a = ;", "if { x",
        // recovered by INSERTING a token: the tree has a MISSING node and no ERROR node
        "a = 1", "return x", "f(1)", "while x { y = 2 }",
        // quote characters inside quoted tokens of BOTH kinds in one rendering: (UNEXPECTED '"') ... (MISSING ")")
        "x = \"; y = (a;", "x = (\" a;", "a = \"b\" ; y = (c + 1;", "f(\" ; g = (1;",
    ];
    const LST_INPUTS: [&str; 6] = ["ab cd", "(a b (c))", "é € 12", "a\nb\n\nc", "( a", "x ? y"];
    // language `xf` (zoo/fldx): field names with digits, upper-case letters, a leading underscore next to ordinary ones
    const FX_INPUTS: [&str; 14] = [
        "f(1)", "f(a, 2)", "g(a, b, c) -> r", "f(g(1), 2) h()", "f()", "k(1, 2, 3, 4)", "f(g(h(1, 2), 3) -> r, 4, 5)", "ab(zz) -> k\ng(0)",
        "f(1,, 2)", "f(1", "k(1) ->", "f(1 2)", "f(\" 1", "f(1) \" g(",
    ];

    // language `xq` (zoo/qtok): `'`, `"`, `(`, `)` are anonymous tokens, so error recovery prints (MISSING "'"), (MISSING """),
    // (MISSING ")") side by side: a quoted token holding the OTHER quote character followed by a quoted `)`
    const XQ_INPUTS: [&str; 14] = [
        "a bc", "'a' \"b\" (c d)", "[ a , 'b' ]", "( [ 'q' , \"zz\" ] )",
        "[ \"a , 'b ] (", "'a' \"b\" (c", "( \" a ) '", "[ a , 'b' ] \"c", "'a (b", "\"a (b", "[ 'a , (b", "( 'a ) (b", "[ 'a , \"b ] ( c", "( a",
    ];

    /// An S-expression spread over lines WITHOUT the code under test (`tree_sitter::format_sexp` is what `--update` uses to
    /// rewrite expectations): a line break and two blanks in front of every ` (` that starts a node.  Indentation is
    /// irrelevant to the reader (white space is collapsed), so the expectation means the same.
    fn own_format(s: &str) -> String {
        let b: Vec<char> = s.chars().collect();
        let mut out = String::new();
        let mut i = 0;
        while i < b.len() {
            if b[i] == ' ' && i + 2 < b.len() && b[i + 1] == '(' && (b[i + 2].is_ascii_alphabetic() || b[i + 2] == '_') {
                out.push_str("\n  ");
            } else {
                out.push(b[i]);
            }
            i += 1;
        }
        out
    }

    /// Field names removed from an S-expression the way the documentation of corpus tests describes it (`name: (` -> `(`
    /// for every field name the GRAMMARS of this check use: letters, digits, `_`), written independently of the CLI's
    /// `strip_sexp_fields`: the expectations the generator writes "without field names" must not depend on the code under test.
    fn own_strip(s: &str) -> String {
        let b: Vec<char> = s.chars().collect();
        let mut out = String::new();
        let mut i = 0;
        while i < b.len() {
            // at a word start preceded by a space: [A-Za-z0-9_]+ ':' ' ' '('
            if (i == 0 || b[i - 1] == ' ') && (b[i].is_ascii_alphanumeric() || b[i] == '_') {
                let mut j = i;
                while j < b.len() && (b[j].is_ascii_alphanumeric() || b[j] == '_') {
                    j += 1;
                }
                if j + 2 < b.len() && b[j] == ':' && b[j + 1] == ' ' && b[j + 2] == '(' {
                    i = j + 2;
                    continue;
                }
                out.extend(b[i..j].iter());
                i = j;
                continue;
            }
            out.push(b[i]);
            i += 1;
        }
        out
    }

    const SUFFIXES: [&str; 5] = ["|||", " tag", "é≠", "+x+", "#1"];

    impl<'a> Gen<'a> {
        fn pk(&mut self, xs: &[&'static str]) -> &'static str {
            xs[self.rng.below(xs.len())]
        }

        fn delim_like(&mut self, suffix: &str) -> String {
            let c = *self.rng.pick(&['=', '-', '=', '-', '~']);
            let n = self.rng.range(1, 14);
            let mut s: String = std::iter::repeat(c).take(n).collect();
            // NB: in a file without suffix, a `===` line followed by text anywhere in the file becomes the file's
            // suffix and no header matches any more (0 tests): keep that case rare
            let k = self.rng.below(5);
            let foreign_ok = c != '=' || !suffix.is_empty() || self.rng.chance(1, 6);
            match k {
                0 => s.push_str(suffix),
                1 if foreign_ok => s.push_str("|x|"),
                2 if foreign_ok => s.push_str(" trailing"),
                _ => {}
            }
            s
        }

        /// A line RIGHT AT the boundary of what the reader takes as a delimiter: a run of `-` or `=` whose length is
        /// just below / equal to / just above the test's real divider resp. header length, followed by something
        /// suffix-like: blanks, tabs, a lone CR, Unicode white space, the file's suffix with blanks around it, a
        /// prefix or an extension of the suffix, other text.  Whether such a line is a body line or a delimiter is
        /// exactly what `BodyLineOK`/`SimpleS` say; the model and the real reader must agree on each of them.
        fn near_delim(&mut self, suffix: &str, dlen: usize, hlen: usize) -> String {
            let dash = self.rng.chance(3, 4);
            let (c, reference) = if dash { ('-', dlen) } else { ('=', hlen) };
            let n = match self.rng.below(8) {
                0 => reference.saturating_sub(1).max(1),
                1 | 2 => reference,
                3 | 4 => reference + 1,
                5 => reference + self.rng.range(2, 5),
                6 => 3,
                _ => 2,
            };
            let mut s: String = std::iter::repeat(c).take(n).collect();
            let ws = *self.rng.pick(&[" ", "  ", "\t", " \t ", "\r", "\u{a0}", "\u{2003}", "\u{b}", "\u{c}"]);
            // an `=` line with a non-empty foreign suffix in an unsuffixed file changes the suffix of the WHOLE file
            // (usually 0 tests afterwards): legitimate, but keep it rare
            let eq_guard = dash || !suffix.is_empty() || self.rng.chance(1, 5);
            let k = self.rng.below(12);
            match k {
                0 | 1 | 2 if eq_guard => s.push_str(ws),
                3 => {
                    s.push_str(suffix);
                    if eq_guard {
                        s.push_str(ws);
                    }
                }
                4 if eq_guard => {
                    s.push_str(ws);
                    s.push_str(suffix);
                }
                5 if eq_guard => {
                    // proper prefix of the suffix / of the suffix's characters
                    let cs: Vec<char> = suffix.chars().collect();
                    if cs.len() > 1 {
                        s.extend(cs[..cs.len() - 1].iter());
                    } else {
                        s.push_str(ws);
                        s.push_str(ws);
                    }
                }
                6 if eq_guard => {
                    s.push_str(suffix);
                    s.push('x');
                }
                7 if eq_guard => {
                    s.push_str(suffix);
                    s.push_str(suffix);
                }
                8 if eq_guard => {
                    s.insert_str(0, ws);
                }
                9 if eq_guard => {
                    s.push(if dash { '=' } else { '-' });
                    s.push_str(suffix);
                }
                10 => s.push_str(suffix),
                _ => {}
            }
            s
        }

        fn input(&mut self, lang: &str, suffix: &str, dlen: usize, hlen: usize) -> String {
            let mut s = String::new();
            let parts = self.rng.range(1, 3);
            for k in 0..parts {
                if k > 0 {
                    s.push('\n');
                }
                if lang == "other" {
                    s.push_str(self.pk(&LST_INPUTS));
                } else if lang == "xf" {
                    s.push_str(self.pk(&FX_INPUTS));
                } else if lang == "xq" {
                    s.push_str(self.pk(&XQ_INPUTS));
                } else if self.rng.chance(1, 3) {
                    let budget = *self.rng.pick(&[3usize, 8, 20]);
                    let toks = self.gg.sentence(&mut self.rng, budget);
                    let (text, _) = self.gg.render(&toks, &mut self.rng);
                    s.push_str(&String::from_utf8_lossy(&text));
                } else {
                    s.push_str(self.pk(&STMT_INPUTS));
                }
                if self.rng.chance(1, 4) {
                    s.push('\n');
                    s.push_str(&self.delim_like(suffix));
                }
                if self.rng.chance(1, 5) {
                    // in front of, between, or behind the parts
                    let l = self.near_delim(suffix, dlen, hlen);
                    if self.rng.chance(1, 4) {
                        s.insert(0, '\n');
                        s.insert_str(0, &l);
                    } else {
                        s.push('\n');
                        s.push_str(&l);
                    }
                }
            }
            match self.rng.below(8) {
                0 => s.push('\n'),
                1 => s.push_str("\n\n"),
                2 => s.insert(0, '\n'),
                _ => {}
            }
            s
        }

        fn expectation(&mut self, lang: &str, input: &str, cst: bool, suffix: &str, dlen: usize, hlen: usize) -> String {
            let e = self.expectation0(lang, input, cst);
            if !self.rng.chance(1, 8) {
                return e;
            }
            // a near-delimiter line inside / behind the expectation (comment-like rules, leftovers of an editor)
            let l = self.near_delim(suffix, dlen, hlen);
            match self.rng.below(3) {
                0 => format!("{l}\n{e}"),
                1 => format!("{e}\n{l}"),
                _ => match e.find('\n') {
                    Some(i) => format!("{}\n{l}{}", &e[..i], &e[i..]),
                    None => format!("{e}\n{l}\n"),
                },
            }
        }

        fn expectation0(&mut self, lang: &str, input: &str, cst: bool) -> String {
            let act = self.world.actual(lang, input.as_bytes());
            let (sf, sp, c, _) = act.unwrap_or_default();
            if cst {
                return match self.rng.below(4) {
                    0 => String::new(),
                    1 => "0:0 - 0:1 wrong".to_string(),
                    _ => c,
                };
            }
            // "without field names": stripped by the generator itself, not by the code under test
            let _ = &sp;
            let plain_own = own_strip(&sf);
            let sp = plain_own;
            let which = if self.rng.chance(1, 4) { &sf } else { &sp };
            // half of the well-formatted expectations come from the generator's own line breaking, not from the code under test
            let good = if self.rng.chance(1, 2) { own_format(which) } else { tree_sitter::format_sexp(which, 0) };
            match self.rng.below(10) {
                0 => String::new(),
                1 => "(source (number))".to_string(),
                2 => "(program\n  (word)\n    (word))".to_string(),
                3 => sp.clone(), // one line
                4 => good.replace('\n', "\n\t ").replace(" (", "   ("), // badly indented
                5 => format!("; a comment\n{good}\n  ; another (comment)\n"),
                6 => format!("{good}\n\n\n"),
                7 => "not an s-expression at all".to_string(),
                _ => good,
            }
        }

        fn file(&mut self) -> Vec<u8> {
            let n_tests = match self.rng.below(10) {
                0..=3 => self.rng.range(1, 2),
                4..=7 => self.rng.range(2, 6),
                8 => self.rng.range(7, 12),
                _ => self.rng.range(13, 20),
            };
            let suffix = if self.rng.chance(2, 5) { self.pk(&SUFFIXES).to_string() } else { String::new() };
            let crlf = self.rng.chance(1, 7);
            let plain = self.rng.chance(1, 4); // a file without any of the confirmed-defect triggers
            let mut f = String::new();
            if !plain && self.rng.chance(1, 6) {
                f.push_str(self.pk(&["; corpus for stmt\n\n", "\n", "some notes\n== not a header\n", "==\n"]));
            }
            for t in 0..n_tests {
                let hlen = self.rng.range(3, 12);
                let hlen2 = if self.rng.chance(1, 5) { self.rng.range(3, 12) } else { hlen };
                let dlen = self.rng.range(3, 12);
                let name = self.pk(&NAMES).to_string();
                let mut attrs: Vec<String> = Vec::new();
                let mut lang = "main".to_string();
                let mut cst = false;
                if self.rng.chance(1, 2) {
                    let k = self.rng.range(1, 3);
                    for _ in 0..k {
                        let a = match self.rng.below(if plain { 7 } else { 16 }) {
                            0 => ":error",
                            1 => ":fail-fast",
                            2 => ":language(main)",
                            3 => ":platform(linux)",
                            4 => {
                                cst = true;
                                ":cst"
                            }
                            5 => "",
                            6 | 15 => {
                                lang = "xf".to_string();
                                ":language(xf)"
                            }
                            7 => ":skip",
                            8 => {
                                lang = "other".to_string();
                                ":language(other)"
                            }
                            9 => ":platform(macos)",
                            10 => "  :skip  ",
                            11 => ":foo",
                            12 => ":language(nope)",
                            13 => ":platform",
                            _ => ":language( main )",
                        };
                        let real_marker = |x: &String| {
                            let t = x.trim();
                            [":skip", ":error", ":fail-fast", ":cst"].contains(&t) || (t.ends_with(')') && (t.starts_with(":language(") || t.starts_with(":platform(")))
                        };
                        // a blank line or an argument-less :platform/:language in the NAME region makes the header
                        // ill-formed (rejected, resp. attribute text not recoverable): only after a real marker
                        if (a.is_empty() || a == ":platform") && !attrs.iter().any(real_marker) {
                            continue;
                        }
                        // these two stop the whole run before the file is written: keep them, but rarer
                        if (a == ":fail-fast" || a == ":language(nope)") && !self.rng.chance(1, 4) {
                            continue;
                        }
                        attrs.push(a.to_string());
                    }
                }
                // the language whose field names are not snake_case, more often than the attribute lottery alone gives it
                if lang == "main" && !attrs.iter().any(|a| a.contains(":language")) && self.rng.chance(1, 7) {
                    attrs.push(":language(xf)".to_string());
                    lang = "xf".to_string();
                } else if lang == "main" && !attrs.iter().any(|a| a.contains(":language")) && self.rng.chance(1, 7) {
                    attrs.push(":language(xq)".to_string());
                    lang = "xq".to_string();
                }
                let input = self.input(&lang, &suffix, dlen, hlen);
                let expected = self.expectation(&lang, &input, cst, &suffix, dlen, hlen);
                f.push_str(&"=".repeat(hlen));
                f.push_str(&suffix);
                f.push('\n');
                f.push_str(&name);
                f.push('\n');
                for a in &attrs {
                    f.push_str(a);
                    f.push('\n');
                }
                f.push_str(&"=".repeat(hlen2));
                f.push_str(&suffix);
                f.push('\n');
                if self.rng.chance(1, 6) {
                    f.push('\n');
                }
                f.push_str(&input);
                f.push('\n');
                f.push_str(&"-".repeat(dlen));
                f.push_str(&suffix);
                f.push('\n');
                if self.rng.chance(3, 4) {
                    f.push('\n');
                }
                f.push_str(&expected);
                let last = t + 1 == n_tests;
                if !(last && self.rng.chance(1, 4)) {
                    f.push('\n');
                }
                for _ in 0..self.rng.below(3) {
                    if !last {
                        f.push('\n');
                    }
                }
            }
            if crlf {
                f = f.replace('\n', "\r\n");
            }
            f.into_bytes()
        }
    }

    /// `[<filter n|i|x>] <hex>`; a leading case id is tolerated.
    fn parse_spec_line(line: &str) -> (char, &str) {
        let w: Vec<&str> = line.split_whitespace().collect();
        let h = *w.last().unwrap();
        let flt = if w.len() >= 2 && ["n", "i", "x", "b", "N", "I", "X", "B"].contains(&w[w.len() - 2]) { w[w.len() - 2].chars().next().unwrap() } else { 'n' };
        (flt, h)
    }

    pub fn main() {
        limit_resources();
        // fixed name filters for the whole run (see `name_match`)
        std::env::set_var("TREE_SITTER_EXAMPLE_INCLUDE", "e|x");
        std::env::set_var("TREE_SITTER_EXAMPLE_EXCLUDE", "[io]");
        let args: Vec<String> = std::env::args().collect();
        let out_path = args.get(1).expect("usage: c20 <ops-file> <scratch-dir> [--spec file]").clone();
        let scratch = PathBuf::from(args.get(2).expect("scratch dir"));
        std::fs::create_dir_all(&scratch).unwrap();
        let mut out = std::io::BufWriter::new(std::fs::File::create(&out_path).unwrap());
        let mut langs = Vec::new();
        for (key, zoo_id) in LANGS {
            let b = zoo::load(zoo_id).expect("zoo language");
            langs.push((key.to_string(), b.language.clone()));
        }
        let stmt = zoo::load("stmt").unwrap();
        let mut world = World { langs, scratch, n: 0 };
        let mut cases = 0usize;
        // Which of the repaired defects does the code under test show?  Decided BEHAVIOURALLY on one distinguishing
        // input per defect (never from source text or from the status of a finding), so that the model variant follows
        // the code: a reverted fix makes the model follow the old behaviour (and the judge report the old violation),
        // a harmless rewrite changes nothing.
        let probes = world.probe_repairs();
        writeln!(out, "fixes {}", probes.iter().map(|b| if *b { "1" } else { "0" }).collect::<Vec<_>>().join(" ")).unwrap();
        eprintln!("c20: probed repairs keepUnrun,oneCorrection,keepSuffixPreamble,quoteReset,keepCstFiltered,sameQuote = {probes:?}");
        if args.get(3).map(|s| s == "--spec").unwrap_or(false) {
            let specs = std::fs::read_to_string(&args[4]).unwrap();
            for (i, line) in specs.lines().enumerate() {
                let line = line.trim();
                if line.is_empty() || line.starts_with('#') {
                    continue;
                }
                let (flt, h) = parse_spec_line(line);
                world.run_case(&mut out, &format!("r{i}"), flt, &if h == "-" { vec![] } else { unhex(h) });
                cases += 1;
            }
            out.flush().unwrap();
            eprintln!("c20: replayed {cases} cases");
            return;
        }
        if let Some(corpus) = zoo_corpus("c20") {
            for (i, line) in corpus.lines().enumerate() {
                let line = line.trim();
                if line.is_empty() || line.starts_with('#') {
                    continue;
                }
                let (flt, h) = parse_spec_line(line);
                world.run_case(&mut out, &format!("c{i}"), flt, &if h == "-" { vec![] } else { unhex(h) });
                cases += 1;
            }
        }
        // strip_sexp_fields on synthetic renderings (field-like words with underscores, digits, non-ASCII, odd places)
        {
            let mut srng = Rng::new(seed_from_env() ^ 0x57A1);
            let words = ["left", "a_b", "x1", "_t", "é", "a-b", "", "f", "name9_", "A"];
            let nodes = ["(id)", "(n (m))", "(a b: (c))", "(MISSING \";\")", "(x", "("];
            for _ in 0..300 {
                let mut t = String::from("(root");
                for _ in 0..srng.range(1, 6) {
                    match srng.below(6) {
                        0 => t.push_str(&format!(" {}", srng.pick(&nodes))),
                        1 => t.push_str(&format!("{}: {}", srng.pick(&words), srng.pick(&nodes))),
                        2 => t.push_str(": ("),
                        _ => t.push_str(&format!(" {}: {}", srng.pick(&words), srng.pick(&nodes))),
                    }
                }
                t.push(')');
                writeln!(out, "strip {} {}", hx(t.as_bytes()), hx(strip_sexp_fields(&t).as_bytes())).unwrap();
            }
        }
        let n_gen = if tier_is_thorough() { 6000 } else { 500 };
        let files: Vec<Vec<u8>> = {
            let mut g = Gen { rng: Rng::new(seed_from_env()), world: &world, gg: gen::GrammarGen::new(&stmt.grammar_json, zoo::read_zoo_file("stmt", "samples.json").as_deref()) };
            (0..n_gen).map(|_| g.file()).collect()
        };
        let mut frng = Rng::new(seed_from_env() ^ 0xF117E4);
        for (i, f) in files.iter().enumerate() {
            // 40% of the generated files are updated through a name filter (--include / --exclude)
            let flt = match frng.below(10) {
                0 => 'i',
                1 => 'b', // both --include and --exclude given: include wins
                2 | 3 => 'x',
                _ => 'n',
            };
            // a quarter of the files are updated through their directory (two files + a hidden one)
            let flt = if frng.chance(1, 4) { flt.to_ascii_uppercase() } else { flt };
            world.run_case(&mut out, &format!("g{i}"), flt, f);
            cases += 1;
        }
        out.flush().unwrap();
        eprintln!("c20: wrote {cases} cases to {out_path}");
    }
}
