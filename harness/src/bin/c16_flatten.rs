//! Flattening of grammar.json into productions (steps with fields and aliases) for the C16 derivation
//! model (lean/TsVerif/C16/Derive.lean).  Re-implements, for the DSL subset the zoo and the random
//! grammars use, what prepare_grammar does: choices become productions, repeats auxiliary hidden rules,
//! inlined rules hidden rules (an alias on an inlined rule is stamped on every step of its
//! productions), an aliased rule a copy of the rule under the alias' kind.
use serde_json::Value;
use std::collections::HashMap;

#[derive(Clone, Debug, PartialEq)]
pub enum SymRef { Tok(usize), Rule(String), RuleAs(String, String, bool) }

#[derive(Clone, Debug)]
pub struct StepR { pub sym: SymRef, pub field: Option<String>, pub alias: Option<(String, bool)> }

pub struct Flat {
    /// symbol id -> (is_rule, var index, visibility n|a|h, name)
    pub syms: Vec<(bool, usize, char, String)>,
    /// var index -> productions (symbol ids resolved)
    pub prods: Vec<Vec<Vec<(usize, Option<String>, Option<(String, bool)>)>>>,
    pub roots: Vec<usize>,
    /// variables that are inlined (process_inlines substitutes their productions; done by the Lean model)
    pub inl: Vec<usize>,
    /// symbol ids of the visible extras (tokens and rules)
    pub extras: Vec<usize>,
    /// number of variables that are rules of the grammar (the others: auxiliary repeats, copies under an alias)
    pub n_orig: usize,
}

struct Cx<'a> {
    rules: &'a serde_json::Map<String, Value>,
    inline: Vec<String>,
    externals: Vec<String>,
    supertypes: Vec<String>,
    lexical: HashMap<String, bool>,
    toks: Vec<(char, String)>,                 // visibility, name
    tok_ids: HashMap<String, usize>,
    aux: Vec<(String, Vec<Vec<StepR>>)>,       // auxiliary repeat rules
    aux_memo: HashMap<String, String>,
    budget: usize,
    /// aliased references that exist only after inlining (alias on an inlined rule is stamped on every
    /// inserted step): the rule copies under the alias' kind they need
    phantom: Vec<StepR>,
}

/// extract_tokens turns a rule into a token (a lexical variable) only when its whole body is ONE token: a string, a
/// pattern or a `token(...)`; `seq('a', 'b')` stays a syntactic rule with two anonymous children
fn is_lexical(_cx: &Cx, v: &Value, _depth: usize) -> bool {
    matches!(v["type"].as_str().unwrap_or(""), "STRING" | "PATTERN" | "TOKEN" | "IMMEDIATE_TOKEN")
}

impl<'a> Cx<'a> {
    fn tok(&mut self, key: String, vis: char, name: String) -> usize {
        if let Some(i) = self.tok_ids.get(&key) { return *i; }
        let i = self.toks.len();
        self.toks.push((vis, name));
        self.tok_ids.insert(key, i);
        i
    }
    fn rule_is_lexical(&mut self, name: &str) -> bool {
        if let Some(b) = self.lexical.get(name) { return *b; }
        let b = self.rules.get(name).map(|r| is_lexical(self, r, 0)).unwrap_or(false);
        self.lexical.insert(name.to_string(), b);
        b
    }
    fn harvest(&mut self, n: &str, a: &(String, bool), depth: usize) -> Result<(), String> {
        if depth > 8 { return Err("inline nesting too deep".into()); }
        let body = self.rules.get(n).cloned().ok_or("unknown inline rule")?;
        for p in self.expand(&body)? {
            for s in p {
                match &s.sym {
                    SymRef::Tok(_) => {}
                    SymRef::Rule(m) | SymRef::RuleAs(m, _, _) => {
                        let m = m.clone();
                        if self.inline.contains(&m) && !self.rule_is_lexical(&m) { self.harvest(&m, a, depth + 1)?; }
                        else { self.phantom.push(StepR { sym: SymRef::RuleAs(m, a.0.clone(), a.1), field: None, alias: None }); }
                    }
                }
            }
        }
        Ok(())
    }
    fn expand(&mut self, v: &Value) -> Result<Vec<Vec<StepR>>, String> {
        if self.budget == 0 { return Err("too many productions".into()); }
        self.budget -= 1;
        match v["type"].as_str().unwrap_or("") {
            "BLANK" => Ok(vec![vec![]]),
            "STRING" => {
                let s = v["value"].as_str().unwrap_or("").to_string();
                let id = self.tok(format!("s:{s}"), 'a', s);
                Ok(vec![vec![StepR { sym: SymRef::Tok(id), field: None, alias: None }]])
            }
            "PATTERN" | "TOKEN" | "IMMEDIATE_TOKEN" => {
                let id = self.tok(format!("p:{v}"), 'h', String::new());
                Ok(vec![vec![StepR { sym: SymRef::Tok(id), field: None, alias: None }]])
            }
            "SYMBOL" => {
                let n = v["name"].as_str().unwrap_or("").to_string();
                if !self.rules.contains_key(&n) {
                    // an external token: a leaf like any other token
                    if !self.externals.contains(&n) { return Err(format!("unknown symbol {n}")); }
                    let vis = if n.starts_with('_') { 'h' } else { 'n' };
                    let id = self.tok(format!("r:{n}"), vis, n);
                    return Ok(vec![vec![StepR { sym: SymRef::Tok(id), field: None, alias: None }]]);
                }
                if self.rule_is_lexical(&n) {
                    let vis = if n.starts_with('_') { 'h' } else { 'n' };
                    let id = self.tok(format!("r:{n}"), vis, n);
                    Ok(vec![vec![StepR { sym: SymRef::Tok(id), field: None, alias: None }]])
                } else {
                    Ok(vec![vec![StepR { sym: SymRef::Rule(n), field: None, alias: None }]])
                }
            }
            "SEQ" => {
                let mut acc: Vec<Vec<StepR>> = vec![vec![]];
                for m in v["members"].as_array().cloned().unwrap_or_default() {
                    let ps = self.expand(&m)?;
                    let mut next = Vec::new();
                    for a in &acc { for p in &ps { let mut x = a.clone(); x.extend(p.iter().cloned()); next.push(x); } }
                    if next.len() > 4000 { return Err("too many productions".into()); }
                    acc = next;
                }
                Ok(acc)
            }
            "CHOICE" => {
                let mut acc = Vec::new();
                for m in v["members"].as_array().cloned().unwrap_or_default() { acc.extend(self.expand(&m)?); }
                Ok(acc)
            }
            "REPEAT" | "REPEAT1" => {
                let key = v["content"].to_string();
                let name = match self.aux_memo.get(&key) {
                    Some(n) => n.clone(),
                    None => {
                        let n = format!("_rep{}", self.aux.len());
                        self.aux_memo.insert(key, n.clone());
                        self.aux.push((n.clone(), vec![]));
                        let idx = self.aux.len() - 1;
                        let inner = self.expand(&v["content"])?;
                        let mut ps = Vec::new();
                        for p in &inner {
                            ps.push(p.clone());
                            let mut q = p.clone();
                            q.push(StepR { sym: SymRef::Rule(n.clone()), field: None, alias: None });
                            ps.push(q);
                        }
                        self.aux[idx].1 = ps;
                        n
                    }
                };
                let step = StepR { sym: SymRef::Rule(name), field: None, alias: None };
                if v["type"] == "REPEAT" { Ok(vec![vec![], vec![step]]) } else { Ok(vec![vec![step]]) }
            }
            "FIELD" => {
                let f = v["name"].as_str().unwrap_or("").to_string();
                let mut ps = self.expand(&v["content"])?;
                for p in ps.iter_mut() { for s in p.iter_mut() { if s.field.is_none() { s.field = Some(f.clone()); } } }
                Ok(ps)
            }
            "ALIAS" => {
                let a = (v["value"].as_str().unwrap_or("").to_string(), v["named"].as_bool().unwrap_or(false));
                let c = &v["content"];
                match c["type"].as_str().unwrap_or("") {
                    "SYMBOL" => {
                        let n = c["name"].as_str().unwrap_or("").to_string();
                        if self.inline.contains(&n) && !self.rule_is_lexical(&n) {
                            // the substitution (and the stamping of the alias on every inserted step) is
                            // done by the Lean model; here only the rule copies it will need
                            self.harvest(&n, &a, 0)?;
                            return Ok(vec![vec![StepR { sym: SymRef::Rule(n), field: None, alias: Some(a) }]]);
                        }
                        let mut ps = self.expand(c)?;
                        for p in ps.iter_mut() { for s in p.iter_mut() { stamp(s, &a); } }
                        Ok(ps)
                    }
                    "STRING" | "PATTERN" | "TOKEN" | "IMMEDIATE_TOKEN" => {
                        let mut ps = self.expand(c)?;
                        for p in ps.iter_mut() { for s in p.iter_mut() { stamp(s, &a); } }
                        Ok(ps)
                    }
                    _ => {
                        // flatten_grammar keeps the alias on every step of the compound content
                        let mut ps = self.expand(c)?;
                        for p in ps.iter_mut() { for s in p.iter_mut() {
                            if let SymRef::Rule(n) = &s.sym { if n.starts_with("_rep") { return Err("alias over a repeat".into()); } }
                            stamp(s, &a);
                        } }
                        Ok(ps)
                    }
                }
            }
            "PREC" | "PREC_LEFT" | "PREC_RIGHT" | "PREC_DYNAMIC" | "RESERVED" => self.expand(&v["content"]),
            other => Err(format!("unsupported rule type {other}")),
        }
    }
}

fn stamp(s: &mut StepR, a: &(String, bool)) {
    match &s.sym {
        SymRef::Rule(n) | SymRef::RuleAs(n, _, _) => { s.sym = SymRef::RuleAs(n.clone(), a.0.clone(), a.1); s.alias = None; }
        SymRef::Tok(_) => s.alias = Some(a.clone()),
    }
}

pub fn flatten(grammar_json: &str) -> Result<Flat, String> {
    let g: Value = serde_json::from_str(grammar_json).map_err(|e| e.to_string())?;
    let rules = g["rules"].as_object().ok_or("no rules")?;
    let names = |k: &str| -> Vec<String> { g[k].as_array().map(|a| a.iter().filter_map(|x| x.as_str().map(|s| s.to_string())).collect()).unwrap_or_default() };
    let mut cx = Cx { rules, inline: names("inline"), externals: g["externals"].as_array().map(|a| a.iter().filter_map(|x| x["name"].as_str().map(|s| s.to_string())).collect()).unwrap_or_default(), supertypes: names("supertypes"), lexical: HashMap::new(), toks: vec![], tok_ids: HashMap::new(),
                      aux: vec![], aux_memo: HashMap::new(), budget: 200_000, phantom: vec![] };
    // variables: the non-lexical rules in order
    let mut var_names: Vec<String> = Vec::new();
    let mut var_prods: Vec<Vec<Vec<StepR>>> = Vec::new();
    for (name, body) in rules {
        if cx.rule_is_lexical(name) { continue; }
        let ps = cx.expand(body)?;
        var_names.push(name.clone());
        var_prods.push(ps);
    }
    if var_names.is_empty() { return Err("no syntactic rule".into()); }
    let n_orig = var_names.len();
    for (n, ps) in cx.aux.clone() { var_names.push(n); var_prods.push(ps); }
    // clones for aliased rules
    let mut var_kind: Vec<(char, String)> = var_names.iter().map(|n| {
        let hidden = n.starts_with('_') || cx.inline.contains(n) || cx.supertypes.contains(n);
        (if hidden { 'h' } else { 'n' }, n.clone())
    }).collect();
    let mut clone_of: HashMap<(String, String, bool), usize> = HashMap::new();
    // visible extras (register the tokens before the symbol table is laid out)
    let mut extra_refs: Vec<SymRef> = Vec::new();
    for e in g["extras"].as_array().cloned().unwrap_or_default() {
        match e["type"].as_str().unwrap_or("") {
            "SYMBOL" => {
                let n = e["name"].as_str().unwrap_or("").to_string();
                if n.starts_with('_') || !rules.contains_key(&n) { continue; }
                if cx.rule_is_lexical(&n) { let id = cx.tok(format!("r:{n}"), 'n', n); extra_refs.push(SymRef::Tok(id)); }
                else { extra_refs.push(SymRef::Rule(n)); }
            }
            // a literal that no rule uses is a separator (never a node); one that is also a token of the rules is a visible extra
            "STRING" => { let v = e["value"].as_str().unwrap_or("").to_string(); if let Some(id) = cx.tok_ids.get(&format!("s:{v}")) { extra_refs.push(SymRef::Tok(*id)); } }
            _ => {}
        }
    }
    let phantom = std::mem::take(&mut cx.phantom);
    // work list of steps to scan for aliased rule references; the copies' own productions are scanned too
    let mut work: Vec<StepR> = phantom;
    for ps in &var_prods { for p in ps { work.extend(p.iter().cloned()); } }
    while let Some(s) = work.pop() {
        if let SymRef::RuleAs(n, a, named) = &s.sym {
            let key = (n.clone(), a.clone(), *named);
            if !clone_of.contains_key(&key) {
                let src = var_names.iter().position(|x| x == n).ok_or("alias of unknown rule")?;
                clone_of.insert(key, var_prods.len());
                var_names.push(format!("{n}@{a}"));
                var_kind.push((if *named { 'n' } else { 'a' }, a.clone()));
                let ps = var_prods[src].clone();
                for p in &ps { work.extend(p.iter().cloned()); }
                var_prods.push(ps);
            }
        }
    }
    // symbol table: tokens first, then one symbol per variable
    let ntok = cx.toks.len();
    let mut syms: Vec<(bool, usize, char, String)> = cx.toks.iter().map(|(v, n)| (false, 0, *v, n.clone())).collect();
    for (vi, (k, n)) in var_kind.iter().enumerate() { syms.push((true, vi, *k, n.clone())); }
    let resolve = |s: &StepR| -> Result<usize, String> {
        Ok(match &s.sym {
            SymRef::Tok(t) => *t,
            SymRef::Rule(n) => ntok + var_names.iter().position(|x| x == n).ok_or(format!("unknown rule {n}"))?,
            SymRef::RuleAs(n, a, named) => ntok + clone_of[&(n.clone(), a.clone(), *named)],
        })
    };
    let mut prods = Vec::new();
    let mut total = 0usize;
    for ps in &var_prods {
        let mut out = Vec::new();
        for p in ps {
            let mut q = Vec::new();
            for s in p { q.push((resolve(s)?, s.field.clone(), s.alias.clone())); total += 1; }
            out.push(q);
        }
        prods.push(out);
    }
    if total > 60_000 { return Err("grammar too large for the model check".into()); }
    // variables the file must describe: everything REACHABLE from the start rule and the non-terminal extras
    // (the generator drops rules nothing reachable refers to, and with them their tokens)
    let inl_set: Vec<bool> = (0..var_names.len()).map(|v| cx.inline.contains(&var_names[v])).collect();
    let mut used = vec![false; prods.len()];
    let mut stack: Vec<usize> = vec![0];
    for e in g["extras"].as_array().cloned().unwrap_or_default() {
        if let Some(n) = e["name"].as_str() { if let Some(p) = var_names.iter().position(|x| x == n) { stack.push(p); } }
    }
    while let Some(v) = stack.pop() {
        if used[v] { continue; }
        used[v] = true;
        for p in &prods[v] {
            for (s, _, al) in p {
                if *s < ntok { continue; }
                let w = *s - ntok;
                if !used[w] { stack.push(w); }
                // an aliased reference to an inlined rule: the copies (under that alias) of the rules its body refers to
                if inl_set[w] { if let Some((a, named)) = al {
                    for ((_, ca, cn), cv) in clone_of.iter() { if ca == a && cn == named && !used[*cv] { stack.push(*cv); } }
                } }
            }
        }
    }
    let inl: Vec<usize> = (0..var_names.len()).filter(|v| cx.inline.contains(&var_names[*v])).collect();
    for v in &inl { used[*v] = false; }
    let roots = (0..prods.len()).filter(|v| used[*v]).collect();
    let mut extras = Vec::new();
    for e in &extra_refs { extras.push(resolve(&StepR { sym: e.clone(), field: None, alias: None })?); }
    Ok(Flat { syms, prods, roots, inl, extras, n_orig })
}
