//! C15 explorer.
//!  (1) determinism: every grammar is generated in >= 4 fresh PROCESSES per optimisation level
//!      (this binary re-executes itself in `--gen` mode with different environments / allocation
//!      histories; ASLR and the per-process hash seeds differ anyway) and the bytes of parser.c and
//!      node-types.json are compared;
//!  (2) optimisation: the `OptLevel::MergeStates` parser and the `OptLevel::empty()` parser of each
//!      grammar are compiled, loaded, their tables dumped for the Lean driver (findSim), and both
//!      real parsers are run on every explored string.
//!
//! usage: c15 <ops-file> [--spec <file>]        env: TSV_CUNIT_C03 (table dumper), VERIF_SEED, VERIF_TIER
//!        c15 --gen <grammar.json> <0|1> <outdir> <k>      (child)
//! spec line: `<src> <string>` exactly as for c03.
#[path = "../c03/common.rs"]
mod common;
#[path = "../c03/gram.rs"]
mod gram;
use common::*;
use gram::*;
use std::collections::HashMap;
use std::io::Write;
use std::path::{Path, PathBuf};
use std::process::Command;
use tree_sitter::{Language, Parser, Tree};
use tree_sitter_generate::OptLevel;
use tsv_harness::*;

fn fnv(bytes: &[u8]) -> u64 {
    let mut h: u64 = 0xcbf29ce484222325;
    for b in bytes {
        h ^= *b as u64;
        h = h.wrapping_mul(0x100000001b3);
    }
    h
}

fn child_main(args: &[String]) {
    let grammar = PathBuf::from(&args[2]);
    let opt = if args[3] == "1" { OptLevel::MergeStates } else { OptLevel::empty() };
    let out = PathBuf::from(&args[4]);
    let k: usize = args[5].parse().unwrap_or(0);
    // perturb the allocation history of this process
    let mut junk: Vec<Vec<u8>> = Vec::new();
    let mut r = Rng::new(0xC15 + k as u64 * 7919);
    for _ in 0..(k * 37) {
        junk.push(vec![0u8; r.range(1, 4096 * (k + 1))]);
    }
    if k % 2 == 1 {
        junk.truncate(junk.len() / 2);
    }
    let mut h: HashMap<u64, u64> = HashMap::new(); // touch the per-process random hash state
    for i in 0..(k as u64 * 13) {
        h.insert(i, i);
    }
    let mut diags = Vec::new();
    let root = grammar.parent().unwrap().parent().unwrap().to_path_buf();
    let res = tree_sitter_generate::generate_parser_in_directory(
        root,
        Some(out.clone()),
        Some(grammar),
        tree_sitter::LANGUAGE_VERSION,
        None,
        None,
        true,
        opt,
        &mut diags,
    );
    drop(junk);
    match res {
        Ok(()) => std::process::exit(0),
        Err(e) => {
            let _ = std::fs::create_dir_all(&out);
            let _ = std::fs::write(out.join("error.txt"), format!("{e}"));
            std::process::exit(3)
        }
    }
}

struct GenOut {
    parser_c: Vec<String>,     // per process (identical when deterministic)
    parser_hash: Vec<u64>,
    types_hash: Vec<u64>,
    error: Option<String>,
}

/// Generate `json` with optimisation level `opt` in `nproc` fresh processes.
fn generate_in_processes(work: &Path, gid: &str, json: &str, opt: bool, nproc: usize) -> GenOut {
    let dir = work.join(gid);
    std::fs::create_dir_all(dir.join("src")).unwrap();
    let gpath = dir.join("src").join("grammar.json");
    std::fs::write(&gpath, json).unwrap();
    let exe = std::env::current_exe().unwrap();
    let mut children = Vec::new();
    for k in 0..nproc {
        let out = dir.join(format!("out{}-{k}", opt as u32));
        let _ = std::fs::remove_dir_all(&out);
        let mut cmd = Command::new(&exe);
        cmd.arg("--gen").arg(&gpath).arg(if opt { "1" } else { "0" }).arg(&out).arg(k.to_string());
        cmd.env("RUST_TEST_THREADS", (k + 1).to_string())
            .env("RAYON_NUM_THREADS", (1 + (k * 3) % 5).to_string())
            .env("MALLOC_ARENA_MAX", (1 + k).to_string())
            .env("MALLOC_PERTURB_", (k * 37 % 255).to_string())
            .env("C15_PADDING", "x".repeat(k * 101)) // moves the initial stack
            .current_dir(if k % 2 == 0 { dir.clone() } else { work.to_path_buf() });
        children.push((out, cmd.spawn().expect("spawn generator child")));
    }
    let mut g = GenOut { parser_c: vec![], parser_hash: vec![], types_hash: vec![], error: None };
    for (out, mut ch) in children {
        let st = ch.wait().unwrap();
        if !st.success() {
            g.error = Some(std::fs::read_to_string(out.join("error.txt")).unwrap_or_else(|_| format!("child exit {st}")));
            continue;
        }
        let pc = std::fs::read(out.join("parser.c")).unwrap_or_default();
        let nt = std::fs::read(out.join("node-types.json")).unwrap_or_default();
        g.parser_hash.push(fnv(&pc));
        g.types_hash.push(fnv(&nt));
        g.parser_c.push(String::from_utf8_lossy(&pc).into_owned());
    }
    g
}

fn canon(tree: &Tree) -> String {
    // to_sexp + the byte/point range of every node (visible tree through the cursor)
    let mut s = tree.root_node().to_sexp();
    let mut cur = tree.walk();
    let mut done = false;
    loop {
        if !done {
            let n = cur.node();
            s.push_str(&format!("|{}:{}-{}:{},{}-{},{}", n.kind_id(), n.start_byte(), n.end_byte(), n.start_position().row, n.start_position().column, n.end_position().row, n.end_position().column));
            if cur.goto_first_child() {
                continue;
            }
        }
        if cur.goto_next_sibling() {
            done = false;
            continue;
        }
        if !cur.goto_parent() {
            break;
        }
        done = true;
    }
    s
}

fn is_err(tree: &Tree) -> bool {
    vtree_lines(tree).1 || tree.root_node().has_error()
}

struct Pair {
    name: String,
    json: String,
    lang_a: Language, // unoptimised
    lang_b: Language, // optimised (MergeStates)
    table_a: String,
    table_b: String,
    det: String,
    det_ok: bool,
}

fn dump_table(cu: &mut CUnit, dir: &Path, name: &str) -> String {
    cu.dump(&dir.join("lang.so"), name)
}

fn build_pair(cu: &mut CUnit, work: &Path, gid: &str, json: &str, scanner: Option<&str>, nproc: usize) -> Result<Pair, String> {
    let gb = generate_in_processes(work, gid, json, true, nproc);
    if let Some(e) = gb.error {
        return Err(e);
    }
    let ga = generate_in_processes(work, gid, json, false, nproc);
    if let Some(e) = ga.error {
        return Err(e);
    }
    let name = serde_json::from_str::<serde_json::Value>(json).unwrap()["name"].as_str().unwrap().to_string();
    let (lang_b, dir_b) = zoo::compile_and_load(&name, &gb.parser_c[0], scanner)?;
    let (lang_a, dir_a) = zoo::compile_and_load(&name, &ga.parser_c[0], scanner)?;
    let table_a = dump_table(cu, &dir_a, &name);
    let table_b = dump_table(cu, &dir_b, &name);
    let hs = |v: &Vec<u64>| v.iter().map(|h| format!("{h:016x}")).collect::<Vec<_>>().join(",");
    let det = format!("det opt1 {} {} opt0 {} {}", hs(&gb.parser_hash), hs(&gb.types_hash), hs(&ga.parser_hash), hs(&ga.types_hash));
    let all_eq = |v: &Vec<u64>| v.len() == nproc && v.iter().all(|h| *h == v[0]);
    let det_ok = all_eq(&gb.parser_hash) && all_eq(&gb.types_hash) && all_eq(&ga.parser_hash) && all_eq(&ga.types_hash);
    Ok(Pair { name, json: json.to_string(), lang_a, lang_b, table_a, table_b, det, det_ok })
}

struct Em<'a> {
    out: &'a mut dyn Write,
    cases: usize,
    both_ok: usize,
    differ: usize,
}

impl Em<'_> {
    fn header(&mut self, gid: &str, kind: &str, src: &str, p: &Pair) {
        writeln!(self.out, "pair {gid} {kind}").unwrap();
        writeln!(self.out, "src {src}").unwrap();
        // the source grammar: the converse direction (optimised ⇒ unoptimised) is validated through it
        if let Ok(g) = serde_json::from_str::<serde_json::Value>(&p.json) {
            if let Some(rules) = g["rules"].as_object() {
                writeln!(self.out, "gjson {}", serde_json::to_string(&g).unwrap()).unwrap();
                let order: Vec<String> = rules.keys().map(|k| hex(k.as_bytes())).collect();
                writeln!(self.out, "ruleorder {}", order.join(" ")).unwrap();
            }
        }
        writeln!(self.out, "tableA\n{}end", p.table_a).unwrap();
        writeln!(self.out, "tableB\n{}end", p.table_b).unwrap();
        writeln!(self.out, "{}", p.det).unwrap();
        writeln!(self.out, "ready").unwrap();
    }
    fn case(&mut self, cid: &str, pa: &mut Parser, pb: &mut Parser, text: &[u8], toks: Option<(&[usize], &[Term])>) {
        let (ta, tb) = match (pa.parse(text, None), pb.parse(text, None)) {
            (Some(a), Some(b)) => (a, b),
            _ => return,
        };
        let (ea, eb) = (is_err(&ta), is_err(&tb));
        let same = if !ea && !eb { canon(&ta) == canon(&tb) && dump_shape(&ta) == dump_shape(&tb) } else { true };
        self.cases += 1;
        if !ea && !eb {
            self.both_ok += 1;
        }
        if ea != eb || !same {
            self.differ += 1;
        }
        let (ty, lst, spec) = match toks {
            Some((t, terms)) => (
                "T",
                if t.is_empty() { "-".to_string() } else { t.iter().map(|i| terms[*i].sym.to_string()).collect::<Vec<_>>().join(",") },
                format!("t:{}", t.iter().map(|i| i.to_string()).collect::<Vec<_>>().join(",")),
            ),
            None => ("X", "-".to_string(), format!("x:{}", if text.is_empty() { "-".to_string() } else { hex(text) })),
        };
        writeln!(self.out, "case {cid} {} {} {} {ty} {lst} {spec}", ea as u32, eb as u32, same as u32).unwrap();
    }
}

/// the internal tree shape (symbols, child counts, production ids) without parse states
fn dump_shape(tree: &Tree) -> String {
    let d = dump_tree(tree);
    let mut s = String::new();
    for line in d.lines() {
        if line.starts_with("n ") {
            let f: Vec<&str> = line.split(' ').collect();
            // n sym pb pr pc sb sr sc la state flags errcost nchild vcc ncc vdc dynprec repdepth prodid …
            s.push_str(&format!("{} {} {} {} {} {} {} {} {} {} {}|", f[1], f[2], f[3], f[4], f[5], f[6], f[7], f[12], f[16], f[18], f[10]));
        }
    }
    s
}

fn explore_tokens(em: &mut Em, p: &Pair, gid: &str, rng: &mut Rng, budget: usize, nrandom: usize, cu_lang: &Lang) {
    let terms = match terminals(cu_lang) {
        Some(t) if !t.is_empty() => t,
        _ => return,
    };
    let (mut pa, mut pb) = (Parser::new(), Parser::new());
    pa.set_language(&p.lang_a).unwrap();
    pb.set_language(&p.lang_b).unwrap();
    let l = exh_len(terms.len(), budget);
    let mut n = 0usize;
    all_strings(terms.len(), l, &mut |toks| {
        let text = render(&terms, toks);
        em.case(&format!("{gid}-e{n}"), &mut pa, &mut pb, &text, Some((toks, &terms)));
        n += 1;
    });
    let gg = gen::GrammarGen::new(&p.json, None);
    let by_text: HashMap<String, usize> = terms.iter().enumerate().map(|(i, t)| (t.text.clone(), i)).collect();
    for r in 0..nrandom {
        let sent = gg.sentence(rng, [6, 12, 30, 100, 300, 1000][r % 6]);
        let mut toks = Vec::new();
        let mut ok = true;
        for t in &sent {
            match by_text.get(&t.text).copied().or_else(|| terms.iter().position(|x| x.named && same_class(&x.text, &t.text))) {
                Some(i) => toks.push(i),
                None => {
                    ok = false;
                    break;
                }
            }
        }
        if !ok || toks.len() > 1200 {
            continue;
        }
        let text = render(&terms, &toks);
        em.case(&format!("{gid}-d{r}"), &mut pa, &mut pb, &text, Some((&toks, &terms)));
        for m in 0..2 {
            let mt = mutate_toks(rng, &toks, terms.len());
            let text = render(&terms, &mt);
            em.case(&format!("{gid}-m{r}.{m}"), &mut pa, &mut pb, &text, Some((&mt, &terms)));
        }
    }
}

fn explore_docs(em: &mut Em, p: &Pair, gid: &str, id: &str, rng: &mut Rng, ndocs: usize) {
    let gg = gen::GrammarGen::new(&p.json, zoo::read_zoo_file(id, "samples.json").as_deref());
    let (mut pa, mut pb) = (Parser::new(), Parser::new());
    pa.set_language(&p.lang_a).unwrap();
    pb.set_language(&p.lang_b).unwrap();
    for r in 0..ndocs {
        let toks = gg.sentence(rng, [4, 10, 30, 100, 400][r % 5]);
        let (mut text, _) = gg.render(&toks, rng);
        if text.len() > 20000 {
            continue;
        }
        em.case(&format!("{gid}-d{r}"), &mut pa, &mut pb, &text, None);
        if r % 2 == 1 {
            text = gen::mutate_bytes(rng, &text);
            em.case(&format!("{gid}-b{r}"), &mut pa, &mut pb, &text, None);
        }
    }
}

fn explore_docs_json(em: &mut Em, p: &Pair, gid: &str, rng: &mut Rng, ndocs: usize) {
    let gg = gen::GrammarGen::new(&p.json, None);
    let (mut pa, mut pb) = (Parser::new(), Parser::new());
    pa.set_language(&p.lang_a).unwrap();
    pb.set_language(&p.lang_b).unwrap();
    for r in 0..ndocs {
        let mut toks = gg.sentence(rng, [6, 20, 60, 200, 600][r % 5]);
        // identifiers that collide with keywords / reserved words (keyword extraction, reserved-word
        // sets and the word token are where merged states may lex differently)
        for t in toks.iter_mut() {
            if t.text.chars().all(|c| c.is_ascii_lowercase() || c == '_') && !t.text.is_empty() && rng.chance(1, 8) {
                t.text = ["if", "else", "let", "for", "while", "var", "return", "case"][rng.below(8)].to_string();
            }
        }
        let (mut text, _) = gg.render(&toks, rng);
        if text.len() > 30000 {
            continue;
        }
        em.case(&format!("{gid}-d{r}"), &mut pa, &mut pb, &text, None);
        if r % 2 == 1 {
            text = gen::mutate_bytes(rng, &text);
            em.case(&format!("{gid}-b{r}"), &mut pa, &mut pb, &text, None);
        }
    }
}

fn src_grammar(src: &str) -> (String, String, Option<String>) {
    let f: Vec<&str> = src.splitn(3, ':').collect();
    match f[0] {
        "cfg" => {
            let seed: u64 = f[1].parse().unwrap();
            let k: usize = f[2].parse().unwrap();
            let mut rng = Rng::new(seed ^ (k as u64).wrapping_mul(0x9E37));
            ("cfg".into(), serde_json::to_string(&random_cfg(&mut rng, &format!("c15r{k}"))).unwrap(), None)
        }
        "op" => ("op".into(), serde_json::to_string(&op_grammar(f[1], &OpTable::decode(f[2]))).unwrap(), None),
        "glr" => ("glr".into(), serde_json::to_string(&glr_grammars().into_iter().find(|(n, _)| n == f[1]).expect("glr").1).unwrap(), None),
        "zoo" => {
            let d = zoo::zoo_dir(f[1]);
            ("zoo".into(), std::fs::read_to_string(d.join("grammar.json")).expect("zoo grammar"), std::fs::read_to_string(d.join("scanner.c")).ok())
        }
        "rich" => {
            let seed: u64 = f[1].parse().unwrap();
            let k: usize = f[2].parse().unwrap();
            let mut rng = Rng::new(seed ^ 0xA11A5 ^ (k as u64).wrapping_mul(0x9E37));
            let (g, sc) = random_rich_grammar(&mut rng, &format!("c15rich{k}"));
            ("rich".into(), serde_json::to_string(&g).unwrap(), sc)
        }
        "wordop" => {
            let seed: u64 = f[1].parse().unwrap();
            let k: usize = f[2].parse().unwrap();
            let mut rng = Rng::new(seed ^ 0x30D0 ^ (k as u64).wrapping_mul(0x9E37));
            let sweep = if k >= 1000 { Some(k - 1000) } else { None };
            ("wordop".into(), serde_json::to_string(&word_operator_grammar(&mut rng, &format!("c15wordop{k}"), k == 0, sweep).0).unwrap(), None)
        }
        "lalr" => {
            let seed: u64 = f[1].parse().unwrap();
            let k: usize = f[2].parse().unwrap();
            let mut rng = Rng::new(seed ^ 0x1A18 ^ (k as u64).wrapping_mul(0x9E37));
            ("cfg".into(), serde_json::to_string(&lalr_split_grammar(&mut rng, &format!("c15lalr{k}"))).unwrap(), None)
        }
        "lexsplit" => {
            let seed: u64 = f[1].parse().unwrap();
            let k: usize = f[2].parse().unwrap();
            let mut rng = Rng::new(seed ^ 0x1E85 ^ (k as u64).wrapping_mul(0x9E37));
            ("lex".into(), serde_json::to_string(&lex_split_grammar(&mut rng, &format!("c15lex{k}"))).unwrap(), None)
        }
        "lalrglr" => {
            let seed: u64 = f[1].parse().unwrap();
            let k: usize = f[2].parse().unwrap();
            let mut rng = Rng::new(seed ^ 0x61A5 ^ (k as u64).wrapping_mul(0x9E37));
            ("glr".into(), serde_json::to_string(&lalr_glr_grammar(&mut rng, &format!("c15lglr{k}"))).unwrap(), None)
        }
        "kwnest" => {
            let seed: u64 = f[1].parse().unwrap();
            let k: usize = f[2].parse().unwrap();
            let mut rng = Rng::new(seed ^ 0x4B37 ^ (k as u64).wrapping_mul(0x9E37));
            ("kwnest".into(), serde_json::to_string(&kw_nest_grammar(&mut rng, &format!("c15kwn{k}"), k).0).unwrap(), None)
        }
        "json" => ("cfg".into(), String::from_utf8(unhex(f[1])).unwrap(), None),
        _ => panic!("bad src {src}"),
    }
}


/// Round 11 family `kwnest`: NO `word` token; an identifier-like PATTERN token `word`; 1–3 keyword-like string
/// tokens that the pattern matches too, each valid only in SOME contexts; 2–4 contexts (distinct header tokens)
/// that all reach the SAME item-set core (`x: 'x' 'y' .`, optionally through a unit wrapper) with follow sets
/// that are nested ({word} ⊂ {word, kw}, or {kw} ⊂ {word, kw}) or overlapping (random subsets); with and without
/// token precedence on the keywords / on the pattern.  The token-conflict relation between `word` and a keyword
/// is ASYMMETRIC (only the preferred token shadows the other), so a merge test that looks at one direction
/// only merges two of these states and changes what the lexer returns in the smaller context.
/// Members 0 and 1 of every seed are pinned to the plain nested shape {word} ⊂ {word, kw} (0: no precedence, 1: keywords
/// with token precedence +1); everything else about them is still drawn from the seed.
/// Returns the grammar, its own terminal texts, and per context the token prefix that reaches the core's end.
fn kw_nest_grammar(rng: &mut Rng, name: &str, k: usize) -> (serde_json::Value, Vec<String>, Vec<Vec<String>>) {
    use serde_json::json;
    let pat_kind = if k < 2 { rng.below(3); 0 } else { rng.below(3) };
    let pat = ["[c-w][a-z0-9]*", "[a-z][a-z0-9]*", "[c-w][a-z0-9]*"][pat_kind];
    let nctx = rng.range(2, 4);
    let nctx = if k < 2 { 2 + k } else { nctx };
    let headers = ["a", "b", "A", "B"];
    let pool = ["end1", "end2", "do", "of", "end", "fi"];
    let nk = rng.range(1, 3);
    let mut kws: Vec<&str> = Vec::new();
    while kws.len() < nk {
        let k = *rng.pick(&pool);
        if !kws.contains(&k) {
            kws.push(k);
        }
    }
    // precedence mode: 0 none, 1 keywords +1, 2 keywords -1, 3 word -1, 4 word +1
    let pmode = if rng.chance(1, 2) { 0 } else { rng.range(1, 4) };
    let pmode = if k < 2 { k } else { pmode };
    let kw_named = pmode == 1 || pmode == 2 || rng.chance(1, 4);
    let tok_prec = |v: serde_json::Value, p: i64| json!({"type":"TOKEN","content":{"type":"PREC","value":p,"content":v}});
    let kw_use = |i: usize| -> serde_json::Value { if kw_named { sym(&format!("kw{i}")) } else { s(kws[i]) } };
    // follow sets over U = {word} ∪ keywords (index 0 = word, i+1 = keyword i)
    let nu = nk + 1;
    let mut sets: Vec<Vec<usize>> = Vec::new();
    match if k < 2 { rng.below(3); 0 } else { rng.below(3) } {
        0 => {
            sets.push(vec![0]);
            sets.push(vec![0, 1]);
        }
        1 => {
            sets.push(vec![1]);
            sets.push(vec![0, 1]);
        }
        _ => {
            // a chain word ⊂ word+kw0 ⊂ … as far as the contexts go
            sets.push(vec![0]);
            sets.push((0..nu.min(3)).collect());
        }
    }
    while sets.len() < nctx {
        let mut v: Vec<usize> = (0..nu).filter(|_| rng.chance(1, 2)).collect();
        if v.is_empty() {
            v.push(rng.below(nu));
        }
        sets.push(v);
    }
    if rng.chance(1, 2) {
        sets.swap(0, 1);
    }
    let core_kind = rng.below(4); // 0,1: 'x' 'y'   2: 'x' | 'y' 'x'   3: 'x' word
    let core_toks: Vec<String> = match core_kind {
        2 => vec!["x".into()],
        3 => vec!["x".into(), "foo".into()],
        _ => vec!["x".into(), "y".into()],
    };
    let core_body = match core_kind {
        2 => choice(vec![s("x"), seq(vec![s("y"), s("x")])]), // a lone string would become the token itself
        3 => seq(vec![s("x"), sym("word")]),
        _ => seq(vec![s("x"), s("y")]),
    };
    let with_wrap = rng.chance(1, 3);
    let term = rng.chance(2, 3);
    let mut alts = Vec::new();
    let mut prefixes = Vec::new();
    for (i, set) in sets.iter().enumerate() {
        let fol: Vec<serde_json::Value> = set.iter().map(|u| if *u == 0 { sym("word") } else { kw_use(*u - 1) }).collect();
        let core = if with_wrap && rng.chance(1, 2) { sym("wrap") } else { sym("x") };
        let mut ms = vec![s(headers[i]), core, choice(fol)];
        if term {
            ms.push(s(";"));
        }
        alts.push(seq(ms));
        let mut pre = vec![headers[i].to_string()];
        pre.extend(core_toks.iter().cloned());
        prefixes.push(pre);
    }
    let mut rules: Vec<(String, serde_json::Value)> = Vec::new();
    rules.push(("source".into(), if rng.chance(2, 3) { rep(sym("statement")) } else { sym("statement") }));
    rules.push(("statement".into(), choice(alts)));
    rules.push(("x".into(), core_body));
    if with_wrap {
        rules.push(("wrap".into(), sym("x")));
    }
    if kw_named {
        for (i, k) in kws.iter().enumerate() {
            let body = match pmode {
                1 => tok_prec(s(k), 1),
                2 => tok_prec(s(k), -1),
                _ => s(k),
            };
            rules.push((format!("kw{i}"), body));
        }
    }
    rules.push(("word".into(), match pmode {
        3 => tok_prec(pattern(pat), -1),
        4 => tok_prec(pattern(pat), 1),
        _ => pattern(pat),
    }));
    let mut toks: Vec<String> = headers[..nctx].iter().map(|h| h.to_string()).collect();
    toks.push("x".into());
    if core_kind < 3 {
        toks.push("y".into());
    }
    toks.extend(kws.iter().map(|k| k.to_string()));
    toks.push("foo".into());
    if term {
        toks.push(";".into());
    }
    if toks.len() <= 7 {
        toks.push(format!("{}x", kws[0])); // an identifier that only BEGINS with a keyword
    }
    (grammar(name, rules, vec![pattern("\\s")], vec![], vec![]), toks, prefixes)
}

/// All strings over the grammar's own terminal texts up to the exhaustive bound, then — for every context —
/// the prefix that reaches the end of the shared core followed by ALL continuations up to a bound.
fn explore_kw_nest(em: &mut Em, p: &Pair, gid: &str, toks: &[String], prefixes: &[Vec<String>], budget: usize) {
    let (mut pa, mut pb) = (Parser::new(), Parser::new());
    pa.set_language(&p.lang_a).unwrap();
    pb.set_language(&p.lang_b).unwrap();
    let mut seen: std::collections::HashSet<Vec<u8>> = std::collections::HashSet::new();
    let mut texts: Vec<Vec<u8>> = Vec::new();
    let l = exh_len(toks.len(), budget);
    all_strings(toks.len(), l, &mut |ix| {
        let t = ix.iter().map(|i| toks[*i].as_str()).collect::<Vec<_>>().join(" ").into_bytes();
        if seen.insert(t.clone()) {
            texts.push(t);
        }
    });
    let cl = exh_len(toks.len(), budget / 3).min(3);
    for pre in prefixes {
        all_strings(toks.len(), cl, &mut |ix| {
            let mut parts: Vec<&str> = pre.iter().map(|x| x.as_str()).collect();
            parts.extend(ix.iter().map(|i| toks[*i].as_str()));
            let t = parts.join(" ").into_bytes();
            if seen.insert(t.clone()) {
                texts.push(t);
            }
        });
    }
    for (n, t) in texts.iter().enumerate() {
        em.case(&format!("{gid}-k{n}"), &mut pa, &mut pb, t, None);
    }
}

/// `Lang`-shaped view of the optimised parser so that `terminals` can be reused.
fn lang_view(p: &Pair) -> Lang {
    let mut syms = Vec::new();
    let mut token_count = 0;
    for line in p.table_b.lines() {
        let f: Vec<&str> = line.split(' ').collect();
        if f[0] == "lang" {
            token_count = f[4].parse().unwrap();
        } else if f[0] == "sym" {
            let name = if f[6] == "-" { String::new() } else { String::from_utf8_lossy(&unhex(f[6])).into_owned() };
            syms.push((f[2] == "1", f[3] == "1", name));
        }
    }
    Lang {
        built: zoo::Built { name: p.name.clone(), language: p.lang_b.clone(), grammar_json: p.json.clone(), parser_c: String::new(), dir: PathBuf::new() },
        table: p.table_b.clone(),
        syms,
        token_count,
    }
}

fn main() {
    let args: Vec<String> = std::env::args().collect();
    if args.get(1).map(|s| s == "--gen").unwrap_or(false) {
        child_main(&args);
        return;
    }
    limit_resources();
    let out_path = args.get(1).expect("usage: c15 <ops-file> [--spec file]").clone();
    let out_abs = if Path::new(&out_path).is_absolute() { PathBuf::from(&out_path) } else { std::env::current_dir().unwrap().join(&out_path) };
    let work = out_abs.parent().unwrap().join("c15gen");
    std::fs::create_dir_all(&work).unwrap();
    let mut file = std::io::BufWriter::new(std::fs::File::create(&out_path).unwrap());
    let mut cu = CUnit::start();
    let seed = seed_from_env();
    let thorough = tier_is_thorough();
    let nproc = 6;
    let mut em = Em { out: &mut file, cases: 0, both_ok: 0, differ: 0 };
    let mut npairs = 0usize;
    let mut rejected = 0usize;
    let mut nondet = 0usize;

    if args.get(2).map(|s| s == "--spec").unwrap_or(false) {
        let specs = std::fs::read_to_string(&args[3]).unwrap();
        for (i, line) in specs.lines().enumerate() {
            let parts: Vec<&str> = line.split_whitespace().collect();
            if parts.is_empty() {
                continue;
            }
            let (kind, json, scanner) = src_grammar(parts[0]);
            let gid = format!("replay{i}");
            let p = build_pair(&mut cu, &work, &gid, &json, scanner.as_deref(), nproc).expect("pair of the spec");
            em.header(&gid, &kind, parts[0], &p);
            if parts.len() > 1 {
                let lv = lang_view(&p);
                let terms = if kind == "zoo" { None } else { terminals(&lv) };
                let (mut pa, mut pb) = (Parser::new(), Parser::new());
                pa.set_language(&p.lang_a).unwrap();
                pb.set_language(&p.lang_b).unwrap();
                if let Some(rest) = parts[1].strip_prefix("t:") {
                    let toks: Vec<usize> = if rest.is_empty() { vec![] } else { rest.split(',').map(|x| x.parse().unwrap()).collect() };
                    let terms = terms.expect("token-level grammar");
                    let text = render(&terms, &toks);
                    em.case(&format!("{gid}-r0"), &mut pa, &mut pb, &text, Some((&toks, &terms)));
                } else if let Some(rest) = parts[1].strip_prefix("x:") {
                    let text = if rest == "-" { vec![] } else { unhex(rest) };
                    em.case(&format!("{gid}-r0"), &mut pa, &mut pb, &text, None);
                }
            }
        }
        let n = em.cases;
        drop(em);
        file.flush().unwrap();
        eprintln!("c15: replayed {n} cases");
        return;
    }

    let mut rng = Rng::new(seed);
    let (n_cfg, n_op, budget, nrandom, zoo_docs, n_rich, n_lalr, n_wordop) = if thorough { (1000, 100, 15000, 40, 60, 150, 100, 40) } else { (40, 8, 1500, 8, 12, 14, 12, 6) };

    if let Some(corpus) = zoo_corpus("c15") {
        for (i, line) in corpus.lines().enumerate() {
            let parts: Vec<&str> = line.split_whitespace().collect();
            if parts.is_empty() || line.starts_with('#') {
                continue;
            }
            let (kind, json, scanner) = src_grammar(parts[0]);
            let gid = format!("corpus{i}");
            if let Ok(p) = build_pair(&mut cu, &work, &gid, &json, scanner.as_deref(), nproc) {
                em.header(&gid, &kind, parts[0], &p);
                npairs += 1;
            }
        }
    }
    // zoo (external scanners included: generation and tables do not depend on them; strings only without)
    for id in zoo::list() {
        let d = zoo::zoo_dir(&id);
        let json = match std::fs::read_to_string(d.join("grammar.json")) {
            Ok(j) => j,
            Err(_) => continue,
        };
        let scanner = std::fs::read_to_string(d.join("scanner.c")).ok();
        let gid = format!("zoo.{id}");
        match build_pair(&mut cu, &work, &gid, &json, scanner.as_deref(), nproc) {
            Ok(p) => {
                if !p.det_ok {
                    nondet += 1;
                }
                em.header(&gid, "zoo", &format!("zoo:{id}"), &p);
                explore_docs(&mut em, &p, &gid, &id, &mut rng, zoo_docs);
                npairs += 1;
            }
            Err(e) => eprintln!("zoo {id}: {}", e.lines().next().unwrap_or("")),
        }
    }
    // rich statement/expression grammars: many aliases per symbol, fields, supertypes, keywords,
    // named precedences, externals (stub scanner) — every map-ordered table is non-trivial
    for k in 0..n_rich {
        let mut grng = Rng::new(seed ^ 0xA11A5 ^ (k as u64).wrapping_mul(0x9E37));
        let name = format!("c15rich{k}");
        let (g, scanner) = random_rich_grammar(&mut grng, &name);
        let json = serde_json::to_string(&g).unwrap();
        match build_pair(&mut cu, &work, &name, &json, scanner.as_deref(), nproc) {
            Ok(p) => {
                if !p.det_ok {
                    nondet += 1;
                }
                em.header(&name, "rich", &format!("rich:{seed}:{k}"), &p);
                explore_docs_json(&mut em, &p, &name, &mut rng, zoo_docs);
                npairs += 1;
            }
            Err(e) => {
                rejected += 1;
                eprintln!("{name}: {}", e.lines().next().unwrap_or(""));
            }
        }
    }
    // word token + keywords + look-alike operator tokens, > 64 / > 128 terminals (bitset word boundaries)
    // k < 1000: random sizes; k = 1000 + i: the sweep over every offset modulo 64 (2 processes each)
    let wordop_ids: Vec<usize> = (0..n_wordop).chain((0..64).map(|i| 1000 + i)).collect();
    for k in wordop_ids {
        let mut grng = Rng::new(seed ^ 0x30D0 ^ (k as u64).wrapping_mul(0x9E37));
        let name = format!("c15wordop{k}");
        let sweep = if k >= 1000 { Some(k - 1000) } else { None };
        let (g, docs) = word_operator_grammar(&mut grng, &name, k == 0, sweep);
        let json = serde_json::to_string(&g).unwrap();
        match build_pair(&mut cu, &work, &name, &json, None, if sweep.is_some() { 2 } else { nproc }) {
            Ok(p) => {
                if !p.det_ok {
                    nondet += 1;
                }
                em.header(&name, "wordop", &format!("wordop:{seed}:{k}"), &p);
                let (mut pa, mut pb) = (Parser::new(), Parser::new());
                pa.set_language(&p.lang_a).unwrap();
                pb.set_language(&p.lang_b).unwrap();
                for (i, d) in docs.iter().enumerate() {
                    em.case(&format!("{name}-s{i}"), &mut pa, &mut pb, d.as_bytes(), None);
                }
                if sweep.is_none() {
                    explore_docs_json(&mut em, &p, &name, &mut rng, zoo_docs);
                }
                npairs += 1;
            }
            Err(e) => {
                rejected += 1;
                eprintln!("{name}: {}", e.lines().next().unwrap_or(""));
            }
        }
    }
    // LR(1)-but-not-LALR(1) grammars with 2..4-way splits of one item-set core
    for k in 0..n_lalr {
        let mut grng = Rng::new(seed ^ 0x1A18 ^ (k as u64).wrapping_mul(0x9E37));
        let name = format!("c15lalr{k}");
        let json = serde_json::to_string(&lalr_split_grammar(&mut grng, &name)).unwrap();
        match build_pair(&mut cu, &work, &name, &json, None, nproc) {
            Ok(p) => {
                if !p.det_ok {
                    nondet += 1;
                }
                em.header(&name, "lalr", &format!("lalr:{seed}:{k}"), &p);
                let lv = lang_view(&p);
                explore_tokens(&mut em, &p, &name, &mut rng, budget.max(3000), nrandom, &lv);
                npairs += 1;
            }
            Err(_) => rejected += 1,
        }
    }
    for (name, g) in glr_grammars() {
        let json = serde_json::to_string(&g).unwrap();
        if let Ok(p) = build_pair(&mut cu, &work, &name, &json, None, nproc) {
            if !p.det_ok {
                nondet += 1;
            }
            em.header(&name, "glr", &format!("glr:{name}"), &p);
            let lv = lang_view(&p);
            explore_tokens(&mut em, &p, &name, &mut rng, budget, nrandom, &lv);
            npairs += 1;
        }
    }
    for k in 0..n_op {
        let t = random_optable(&mut rng);
        let name = format!("c15op{k}");
        let json = serde_json::to_string(&op_grammar(&name, &t)).unwrap();
        if let Ok(p) = build_pair(&mut cu, &work, &name, &json, None, nproc) {
            if !p.det_ok {
                nondet += 1;
            }
            em.header(&name, "op", &format!("op:{name}:{}", t.encode()), &p);
            let lv = lang_view(&p);
            explore_tokens(&mut em, &p, &name, &mut rng, budget, nrandom, &lv);
            npairs += 1;
        }
    }
    let mut k = 0usize;
    let mut made = 0usize;
    while made < n_cfg && k < n_cfg * 8 {
        let mut grng = Rng::new(seed ^ (k as u64).wrapping_mul(0x9E37));
        let name = format!("c15r{k}");
        let json = serde_json::to_string(&random_cfg(&mut grng, &name)).unwrap();
        // cheap in-process pre-filter: grammars the generator rejects are skipped (and counted)
        if zoo::generate(&json, OptLevel::default()).is_err() {
            rejected += 1;
            k += 1;
            continue;
        }
        match build_pair(&mut cu, &work, &name, &json, None, nproc) {
            Ok(p) => {
                if !p.det_ok {
                    nondet += 1;
                }
                em.header(&name, "cfg", &format!("cfg:{seed}:{k}"), &p);
                let lv = lang_view(&p);
                explore_tokens(&mut em, &p, &name, &mut rng, budget, nrandom, &lv);
                npairs += 1;
                made += 1;
            }
            Err(e) => eprintln!("{name}: {}", e.lines().next().unwrap_or("")),
        }
        k += 1;
    }
    // LR(1)-but-not-LALR(1) splits BEHIND a declared conflict: the states that hold the GLR entry
    // [REDUCE, SHIFT] must stay split because their shift targets must (last: the families above see the
    // same random stream as before)
    for k in 0..(if thorough { 60 } else { 10 }) {
        let mut grng = Rng::new(seed ^ 0x61A5 ^ (k as u64).wrapping_mul(0x9E37));
        let name = format!("c15lglr{k}");
        let json = serde_json::to_string(&lalr_glr_grammar(&mut grng, &name)).unwrap();
        match build_pair(&mut cu, &work, &name, &json, None, nproc) {
            Ok(p) => {
                if !p.det_ok {
                    nondet += 1;
                }
                em.header(&name, "glr", &format!("lalrglr:{seed}:{k}"), &p);
                let lv = lang_view(&p);
                explore_tokens(&mut em, &p, &name, &mut rng, budget.max(3000), nrandom, &lv);
                npairs += 1;
            }
            Err(_) => rejected += 1,
        }
    }
    // lexically conflicting look-aheads ('a' vs 'ab') in two same-core states: the merge is forbidden by
    // the token-conflict analysis (adjacency known through LAST of a wrapper rule); sentences are written
    // WITHOUT separators, so that the lexer has to choose
    for k in 0..(if thorough { 40 } else { 8 }) {
        let mut grng = Rng::new(seed ^ 0x1E85 ^ (k as u64).wrapping_mul(0x9E37));
        let name = format!("c15lex{k}");
        let json = serde_json::to_string(&lex_split_grammar(&mut grng, &name)).unwrap();
        match build_pair(&mut cu, &work, &name, &json, None, nproc) {
            Ok(p) => {
                if !p.det_ok {
                    nondet += 1;
                }
                em.header(&name, "lex", &format!("lexsplit:{seed}:{k}"), &p);
                let (mut pa, mut pb) = (Parser::new(), Parser::new());
                pa.set_language(&p.lang_a).unwrap();
                pb.set_language(&p.lang_b).unwrap();
                let gg = gen::GrammarGen::new(&json, None);
                let mut seen: Vec<Vec<u8>> = Vec::new();
                for r in 0..60 {
                    let sent = gg.sentence(&mut grng, [4, 6, 8, 12, 20][r % 5]);
                    let glued: Vec<u8> = sent.iter().flat_map(|t| t.text.bytes()).collect();
                    let spaced: Vec<u8> = sent.iter().map(|t| t.text.clone()).collect::<Vec<_>>().join(" ").into_bytes();
                    for text in [glued, spaced] {
                        if !seen.contains(&text) {
                            em.case(&format!("{name}-d{}", seen.len()), &mut pa, &mut pb, &text, None);
                            seen.push(text);
                        }
                    }
                }
                npairs += 1;
            }
            Err(_) => rejected += 1,
        }
    }
    // Round 11: keyword-like string tokens vs an identifier pattern WITHOUT a word token, same-core states with
    // nested / overlapping look-ahead sets (asymmetric token conflicts).  Last, with its own generators: the
    // families above see the same random stream as before.
    for k in 0..(if thorough { 40 } else { 12 }) {
        let mut grng = Rng::new(seed ^ 0x4B37 ^ (k as u64).wrapping_mul(0x9E37));
        let name = format!("c15kwn{k}");
        let (g, toks, prefixes) = kw_nest_grammar(&mut grng, &name, k);
        let json = serde_json::to_string(&g).unwrap();
        match build_pair(&mut cu, &work, &name, &json, None, 2) {
            Ok(p) => {
                if !p.det_ok {
                    nondet += 1;
                }
                em.header(&name, "kwnest", &format!("kwnest:{seed}:{k}"), &p);
                explore_kw_nest(&mut em, &p, &name, &toks, &prefixes, if thorough { 5000 } else { 1500 });
                npairs += 1;
            }
            Err(e) => {
                rejected += 1;
                eprintln!("{name}: {}", e.lines().next().unwrap_or(""));
            }
        }
    }
    let (cases, both_ok, differ) = (em.cases, em.both_ok, em.differ);
    drop(em);
    writeln!(file, "stats pairs={npairs} rejected_by_generator={rejected} nondeterministic={nondet} processes_per_level={nproc}").unwrap();
    file.flush().unwrap();
    let _ = std::fs::remove_dir_all(&work);
    eprintln!("c15: {npairs} grammar pairs ({rejected} random grammars rejected by the generator), {nondet} non-deterministic, {cases} strings ({both_ok} error-free in both, {differ} differing) -> {out_path}");
}
