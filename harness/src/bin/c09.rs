//! C09 explorer: the tree of a canonical drive (fresh parser, one chunk, UTF-8, no logger) against the
//! trees obtained under other drives of the same characters: chunked callbacks (fixed 1/2/3/4/7 bytes,
//! every split of small documents, random splits incl. inside multi-byte characters), UTF-16LE/BE
//! delivery (whole and chunked), parser objects with a history (other documents, other language,
//! ranges set and cleared, reset, a cancelled parse), logger on, cancellation by the progress callback
//! at invocation index k followed by resume or by reset + fresh parse.
//! Round 8: a parser whose first parse FAILED (no language assigned), language switched back and forth with
//! and without parses / with a cancelled parse pending, a cancelled parse cleared by `set_language` instead of
//! `reset`, cancellation at a later callback, ranges set and cleared without a parse, logger / dot graphs on
//! and switched off again, dot graphs on during the parse, a custom decode function (`TSInputEncodingCustom`)
//! that decodes UTF-8, and resumption of a cancelled parse whose input arrives in 4-byte chunks.
//! Function-level `L`/`D` lines (lexer scripts under chunkers, decoder) are emitted as in c13.
//! usage: c09 <ops-file> [--spec <file>] [lang...]
//! spec: `<lang> <dochex|-> <drive>` with drive = c<k> | s<p1,p2,..> | pt:c<k> | u16le:pt:c<k> | u16be:pt:c<k> | u16le | u16be | u16le:c<k> | hist:<ops> | <u16le|u16be|custom>:after:<ops> | failed | log | dot | dotlog | custom:c<k> | cancel:<k>:resume | cancel:<k>:resume4 | cancel:<k>:reset
use std::io::Write;
use std::ops::ControlFlow;
use tree_sitter::{Decode, Language, ParseOptions, Parser, Point, Range, Tree};
use tsv_harness::*;

fn hx(b: &[u8]) -> String {
    if b.is_empty() { "-".into() } else { hex(b) }
}

struct Ctx<'a> {
    lang: &'a Language,
    other: &'a Language,
    other_doc: &'a [u8],
    other_big: &'a [u8],
}

fn fresh(lang: &Language) -> Parser {
    let mut p = Parser::new();
    p.set_language(lang).unwrap();
    p
}

fn chunk_end(scheme: &str, byte: usize, len: usize) -> usize {
    let mut end = len;
    if let Some(k) = scheme.strip_prefix('c') {
        let k: usize = k.parse().unwrap_or(0);
        if k > 0 && byte + k < end {
            end = byte + k;
        }
    } else if let Some(sp) = scheme.strip_prefix('s') {
        for p in sp.split(',').filter_map(|x| x.parse::<usize>().ok()) {
            if p > byte && p < end {
                end = p;
            }
        }
    }
    end
}

fn parse_chunked(p: &mut Parser, doc: &[u8], scheme: &str) -> Option<Tree> {
    let len = doc.len();
    p.parse_with_options(&mut |byte: usize, _pt: Point| if byte >= len { &doc[0..0] } else { &doc[byte..chunk_end(scheme, byte, len)] }, None, None)
}

/// Offsets at which the lines start (in the units of `text`): a read callback that keeps its text as lines
/// (rope, line buffer) locates a chunk by the POINT it is given, not by the offset.
fn line_starts<T: PartialEq + Copy>(text: &[T], nl: T) -> Vec<usize> {
    let mut v = vec![0];
    for (i, c) in text.iter().enumerate() {
        if *c == nl {
            v.push(i + 1);
        }
    }
    v
}

/// UTF-8 through `parse_with_options`, chunks of at most `k` bytes located by (row, column).
/// Returns the tree and the number of calls in which offset and point disagreed.
fn parse_chunked_by_point(p: &mut Parser, doc: &[u8], k: usize) -> (Option<Tree>, usize) {
    let len = doc.len();
    let ls = line_starts(doc, b'\n');
    let mut bad = 0usize;
    let t = p.parse_with_options(
        &mut |byte: usize, pt: Point| {
            let at = ls.get(pt.row).map(|s| s + pt.column).unwrap_or(len).min(len);
            if at != byte.min(len) {
                bad += 1;
            }
            &doc[at..(at + k.max(1)).min(len)]
        },
        None,
        None,
    );
    (t, bad)
}

/// UTF-16 through `parse_utf16_{le,be}_with_options`, chunks of at most `k` units located by (row, column in units).
fn parse_u16_by_point(p: &mut Parser, units: &[u16], be: bool, k: usize) -> (Option<Tree>, usize) {
    let conv: Vec<u16> = if be { units.iter().map(|u| u.to_be()).collect() } else { units.iter().map(|u| u.to_le()).collect() };
    let n = conv.len();
    let ls = line_starts(units, 0x0A);
    let mut bad = 0usize;
    let mut cb = |u: usize, pt: Point| {
        let at = ls.get(pt.row).map(|s| s + pt.column).unwrap_or(n).min(n);
        if at != u.min(n) {
            bad += 1;
        }
        &conv[at..(at + k.max(1)).min(n)]
    };
    let t = if be { p.parse_utf16_be_with_options(&mut cb, None, None) } else { p.parse_utf16_le_with_options(&mut cb, None, None) };
    (t, bad)
}

fn to_utf16(doc: &[u8]) -> Option<(Vec<u16>, Vec<(usize, usize)>)> {
    let s = std::str::from_utf8(doc).ok()?;
    let mut units = Vec::new();
    let mut map = Vec::new();
    for (i, ch) in s.char_indices() {
        map.push((i, units.len() * 2));
        let mut buf = [0u16; 2];
        units.extend_from_slice(ch.encode_utf16(&mut buf));
    }
    map.push((doc.len(), units.len() * 2));
    Some((units, map))
}

fn parse_u16(p: &mut Parser, units: &[u16], be: bool, k: usize) -> Option<Tree> {
    let conv: Vec<u16> = if be { units.iter().map(|u| u.to_be()).collect() } else { units.iter().map(|u| u.to_le()).collect() };
    let n = conv.len();
    // the wrapper hands the callback a CODE-UNIT offset (byte_offset / 2)
    let mut cb = |u: usize, _pt: Point| {
        if u >= n { &conv[0..0] } else if k == 0 { &conv[u..] } else { &conv[u..(u + k).min(n)] }
    };
    if be { p.parse_utf16_be_with_options(&mut cb, None, None) } else { p.parse_utf16_le_with_options(&mut cb, None, None) }
}

/// A custom decode function (`TSInputEncodingCustom`) that decodes UTF-8 like `ts_decode_utf8` does on
/// well-formed text: (-1, 1) when the bytes at hand do not hold a whole well-formed character.
static HIST_CANCELLED: std::sync::atomic::AtomicUsize = std::sync::atomic::AtomicUsize::new(0);

struct Utf8Custom;
impl Decode for Utf8Custom {
    fn decode(bytes: &[u8]) -> (i32, u32) {
        if bytes.is_empty() {
            return (-1, 0);
        }
        let b0 = bytes[0];
        let n = if b0 < 0x80 { 1 } else if b0 & 0xe0 == 0xc0 { 2 } else if b0 & 0xf0 == 0xe0 { 3 } else if b0 & 0xf8 == 0xf0 { 4 } else { 0 };
        if n == 0 || bytes.len() < n {
            return (-1, 1);
        }
        match std::str::from_utf8(&bytes[..n]) {
            Ok(st) => (st.chars().next().map(|c| c as i32).unwrap_or(-1), n as u32),
            Err(_) => (-1, 1),
        }
    }
}

fn parse_custom(p: &mut Parser, doc: &[u8], k: usize) -> Option<Tree> {
    let len = doc.len();
    p.parse_custom_encoding::<Utf8Custom, _, _>(
        &mut |byte: usize, _pt: Point| if byte >= len { &doc[0..0] } else if k == 0 { &doc[byte..] } else { &doc[byte..(byte + k).min(len)] },
        None,
        None,
    )
}

/// Parse `text`, cancelling at progress-callback invocation `k` (a complete parse if it ends earlier).
fn cancelled_parse(p: &mut Parser, text: &[u8], k: usize) -> Option<Tree> {
    let mut n = 0usize;
    let mut cb = |_: &tree_sitter::ParseState| {
        let stop = n == k;
        n += 1;
        if stop { ControlFlow::Break(()) } else { ControlFlow::Continue(()) }
    };
    let len = text.len();
    let r = p.parse_with_options(&mut |b: usize, _| if b >= len { &text[0..0] } else { &text[b..] }, None, Some(ParseOptions::new().progress_callback(&mut cb)));
    if r.is_none() {
        HIST_CANCELLED.fetch_add(1, std::sync::atomic::Ordering::Relaxed);
    }
    r
}

fn devnull() -> std::fs::File {
    std::fs::OpenOptions::new().write(true).open("/dev/null").expect("open /dev/null")
}

/// Use the parser for other things first.
fn apply_history(p: &mut Parser, cx: &Ctx, doc: &[u8], ops: &str) {
    for op in ops.split('+') {
        match op {
            "other" => {
                let _ = p.parse(cx.other_doc, None);
            }
            "same" => {
                let _ = p.parse(doc, None);
            }
            "half" => {
                let _ = p.parse(&doc[..doc.len() / 2], None);
            }
            "lang" => {
                p.set_language(cx.other).unwrap();
                let _ = p.parse(cx.other_doc, None);
                p.set_language(cx.lang).unwrap();
            }
            "ranges" => {
                let n = doc.len();
                let r = Range { start_byte: n / 3, end_byte: n / 2, start_point: point_at(doc, n / 3), end_point: point_at(doc, n / 2) };
                if p.set_included_ranges(&[r]).is_ok() {
                    let _ = p.parse(doc, None);
                }
                p.set_included_ranges(&[]).unwrap();
            }
            "reset" => p.reset(),
            "cancel" => {
                // a parse cancelled at the first progress callback, then reset
                let mut cb = |_: &tree_sitter::ParseState| ControlFlow::Break(());
                let len = doc.len();
                let _ = p.parse_with_options(&mut |b: usize, _| if b >= len { &doc[0..0] } else { &doc[b..] }, None, Some(ParseOptions::new().progress_callback(&mut cb)));
                p.reset();
            }
            "enc16le" | "enc16be" | "enccustom" | "enc8" => {
                // the same parser object used for ANOTHER ENCODING before (non-ASCII text, so that a decoder is needed)
                let fixed = "caf\u{e9} 7 \u{e9}t\u{e9} \u{1d4b3} x".as_bytes();
                let text: &[u8] = if std::str::from_utf8(doc).is_ok() && !doc.is_ascii() { doc } else { fixed };
                match op {
                    "enc8" => {
                        let _ = p.parse(text, None);
                    }
                    "enccustom" => {
                        let _ = parse_custom(p, text, 0);
                    }
                    _ => {
                        if let Some((units, _)) = to_utf16(text) {
                            let _ = parse_u16(p, &units, op == "enc16be", 0);
                        }
                    }
                }
            }
            "flip" => {
                // language switched back and forth without a parse
                p.set_language(cx.other).unwrap();
                p.set_language(cx.lang).unwrap();
            }
            "langcancel" => {
                // a parse in the other language is cancelled and left pending; switching back must clear it
                p.set_language(cx.other).unwrap();
                let _ = cancelled_parse(p, cx.other_big, 1);
                p.set_language(cx.lang).unwrap();
            }
            "cancelsl" => {
                // a cancelled parse of this document, cleared by `set_language` (which resets) instead of `reset`
                let _ = cancelled_parse(p, doc, 0);
                p.set_language(cx.lang).unwrap();
            }
            "cancelk" => {
                // cancelled later (third callback), then reset
                let _ = cancelled_parse(p, doc, 2);
                p.reset();
            }
            "cancelo" => {
                // a cancelled parse of ANOTHER document, then reset
                let _ = cancelled_parse(p, cx.other_big, 1);
                p.reset();
            }
            "rset" => {
                // ranges set and cleared without a parse in between
                let n = doc.len();
                let r = Range { start_byte: n / 3, end_byte: n / 2, start_point: point_at(doc, n / 3), end_point: point_at(doc, n / 2) };
                let _ = p.set_included_ranges(&[r]);
                p.set_included_ranges(&[]).unwrap();
            }
            "logoff" => {
                p.set_logger(Some(Box::new(|_, _| {})));
                let _ = p.parse(&doc[..doc.len() / 2], None);
                p.set_logger(None);
            }
            "dotoff" => {
                let f = devnull();
                p.print_dot_graphs(&f);
                let _ = p.parse(&doc[..doc.len().min(200) / 2], None);
                p.stop_printing_dot_graphs();
            }
            "incr" => {
                // an incremental re-parse of another document
                if let Some(mut t) = p.parse(cx.other_doc, None) {
                    let e = TextEdit { start: 0, old_end: 0, ins: b" ".to_vec() };
                    let new = e.apply(cx.other_doc);
                    t.edit(&e.input_edit(cx.other_doc, &new));
                    let _ = p.parse(&new, Some(&t));
                }
            }
            _ => {}
        }
    }
}

/// Number of progress-callback invocations of an uncancelled parse.
fn count_callbacks(lang: &Language, doc: &[u8]) -> usize {
    let mut p = fresh(lang);
    let mut n = 0usize;
    let mut cb = |_: &tree_sitter::ParseState| {
        n += 1;
        ControlFlow::Continue(())
    };
    let len = doc.len();
    let _ = p.parse_with_options(&mut |b: usize, _| if b >= len { &doc[0..0] } else { &doc[b..] }, None, Some(ParseOptions::new().progress_callback(&mut cb)));
    n
}

/// Cancel at callback invocation `k`, then resume (same parser, same input) or reset and parse afresh.
/// Returns (tree, was_cancelled).
fn parse_cancel(lang: &Language, doc: &[u8], k: usize, resume: bool, chunk: usize) -> (Option<Tree>, bool) {
    let mut p = fresh(lang);
    let len = doc.len();
    let mut n = 0usize;
    let first = {
        let mut cb = |_: &tree_sitter::ParseState| {
            let stop = n == k;
            n += 1;
            if stop { ControlFlow::Break(()) } else { ControlFlow::Continue(()) }
        };
        p.parse_with_options(&mut |b: usize, _| if b >= len { &doc[0..0] } else if chunk == 0 { &doc[b..] } else { &doc[b..(b + chunk).min(len)] }, None, Some(ParseOptions::new().progress_callback(&mut cb)))
    };
    if let Some(t) = first {
        return (Some(t), false); // finished before the k-th callback
    }
    if !resume {
        p.reset();
    }
    let mut guard = 0usize;
    let mut cb2 = |_: &tree_sitter::ParseState| {
        guard += 1;
        if guard > 1_000_000 { ControlFlow::Break(()) } else { ControlFlow::Continue(()) }
    };
    let t = p.parse_with_options(&mut |b: usize, _| if b >= len { &doc[0..0] } else if chunk == 0 { &doc[b..] } else { &doc[b..(b + chunk).min(len)] }, None, Some(ParseOptions::new().progress_callback(&mut cb2)));
    (t, true)
}

struct Stats {
    cases: usize,
    drives: usize,
    kinds: std::collections::BTreeMap<String, usize>,
    cancelled: usize,
}

fn emit_drive(out: &mut impl Write, cid: &str, n: &mut usize, st: &mut Stats, kind: &str, param: &str, extra: &str, tree: Option<Tree>) {
    *n += 1;
    st.drives += 1;
    *st.kinds.entry(kind.to_string()).or_insert(0) += 1;
    writeln!(out, "drive {cid}.{n} {kind} {}", if param.is_empty() { "-" } else { param }).unwrap();
    if !extra.is_empty() {
        writeln!(out, "{extra}").unwrap();
    }
    match tree {
        Some(t) => writeln!(out, "tree\n{}", dump_tree(&t).trim_end()).unwrap(),
        None => writeln!(out, "notree").unwrap(),
    }
    writeln!(out, "rundrive").unwrap();
}

fn run_drive(out: &mut impl Write, cid: &str, n: &mut usize, st: &mut Stats, cx: &Ctx, doc: &[u8], drive: &str) {
    if let Some(k) = drive.strip_prefix("pt:c").and_then(|k| k.parse::<usize>().ok()) {
        // point-addressed UTF-8 callback
        let (t, bad) = parse_chunked_by_point(&mut fresh(cx.lang), doc, k);
        emit_drive(out, cid, n, st, "chunk", &format!("c{k}"), &format!("ptbad {bad}"), t);
        return;
    }
    if let Some((enc, ops)) = drive.split_once(":after:") {
        // a parser with a history (incl. parses in other encodings), final parse in encoding `enc`
        let mut p = fresh(cx.lang);
        apply_history(&mut p, cx, doc, ops);
        if enc == "custom" {
            let t = parse_custom(&mut p, doc, 0);
            emit_drive(out, cid, n, st, "chunk", "c0", "", t);
        } else if let Some((units, map)) = to_utf16(doc) {
            let t = parse_u16(&mut p, &units, enc == "u16be", 0);
            let m: Vec<String> = map.iter().map(|(a, b)| format!("{a}:{b}")).collect();
            emit_drive(out, cid, n, st, "utf16", enc, &format!("map {}", m.join(",")), t);
        }
        return;
    }
    if drive.starts_with("u16") && drive.contains(":pt:c") {
        if let Some((units, map)) = to_utf16(doc) {
            let be = drive.starts_with("u16be");
            let k = drive.rsplit_once(":c").and_then(|(_, k)| k.parse().ok()).unwrap_or(1);
            let (t, bad) = parse_u16_by_point(&mut fresh(cx.lang), &units, be, k);
            let m: Vec<String> = map.iter().map(|(a, b)| format!("{a}:{b}")).collect();
            emit_drive(out, cid, n, st, "utf16", drive, &format!("map {}\nptbad {bad}", m.join(",")), t);
        }
        return;
    }
    if drive.starts_with('c') && drive[1..].chars().all(|c| c.is_ascii_digit()) || drive.starts_with('s') && drive[1..].chars().all(|c| c.is_ascii_digit() || c == ',') {
        let t = parse_chunked(&mut fresh(cx.lang), doc, drive);
        emit_drive(out, cid, n, st, "chunk", drive, "", t);
    } else if let Some(rest) = drive.strip_prefix("u16") {
        if let Some((units, map)) = to_utf16(doc) {
            let be = rest.starts_with("be");
            let k = rest.split_once(":c").and_then(|(_, k)| k.parse().ok()).unwrap_or(0);
            let t = parse_u16(&mut fresh(cx.lang), &units, be, k);
            let m: Vec<String> = map.iter().map(|(a, b)| format!("{a}:{b}")).collect();
            emit_drive(out, cid, n, st, "utf16", drive, &format!("map {}", m.join(",")), t);
        }
    } else if let Some(ops) = drive.strip_prefix("hist:") {
        let mut p = fresh(cx.lang);
        apply_history(&mut p, cx, doc, ops);
        let t = p.parse(doc, None);
        emit_drive(out, cid, n, st, "history", drive, "", t);
    } else if drive == "failed" {
        // the parser's first parse FAILS (no language assigned); then it is given the language and used
        let mut p = Parser::new();
        let failed = p.parse(doc, None).is_none();
        p.set_language(cx.lang).unwrap();
        let t = if failed { p.parse(doc, None) } else { None };
        emit_drive(out, cid, n, st, "history", drive, "", t);
    } else if drive == "dot" || drive == "dotlog" {
        let mut p = fresh(cx.lang);
        let f = devnull();
        p.print_dot_graphs(&f);
        if drive == "dotlog" {
            p.set_logger(Some(Box::new(|_, _| {})));
        }
        let t = p.parse(doc, None);
        p.stop_printing_dot_graphs();
        emit_drive(out, cid, n, st, "logger", drive, "", t);
    } else if let Some(k) = drive.strip_prefix("custom:c").and_then(|k| k.parse::<usize>().ok()) {
        let t = parse_custom(&mut fresh(cx.lang), doc, k);
        emit_drive(out, cid, n, st, "chunk", &format!("c{k}"), "", t);
    } else if drive == "log" {
        let mut p = fresh(cx.lang);
        p.set_logger(Some(Box::new(|_, _| {})));
        let t = p.parse(doc, None);
        emit_drive(out, cid, n, st, "logger", drive, "", t);
    } else if let Some(rest) = drive.strip_prefix("cancel:") {
        let mut it = rest.split(':');
        let k: usize = it.next().and_then(|x| x.parse().ok()).unwrap_or(0);
        let how = it.next().unwrap_or("");
        let resume = how.starts_with("resume");
        let (t, was) = parse_cancel(cx.lang, doc, k, resume, if how == "resume4" { 4 } else { 0 });
        if was {
            st.cancelled += 1;
        }
        emit_drive(out, cid, n, st, if resume { "cancel-resume" } else { "cancel-reset" }, drive, "", t);
    }
}

static CASE_TMP: std::sync::OnceLock<String> = std::sync::OnceLock::new();

extern "C" {
    fn fork() -> i32;
    fn waitpid(pid: i32, status: *mut i32, options: i32) -> i32;
    fn _exit(code: i32) -> !;
}

/// Every case runs in a forked child: a drive that crashes (or hangs: 120 s alarm) the library takes only its
/// case with it, and is reported as a drive without a tree (`crash`), with its spec as the failing input.
fn emit_case(out: &mut impl Write, cid: &str, lang_id: &str, cx: &Ctx, doc: &[u8], drives: &[String], st: &mut Stats) {
    let tmp = match CASE_TMP.get() {
        Some(t) => t.clone(),
        None => return emit_case_inner(out, cid, lang_id, cx, doc, drives, st),
    };
    out.flush().unwrap();
    let pid = unsafe { fork() };
    if pid < 0 {
        return emit_case_inner(out, cid, lang_id, cx, doc, drives, st);
    }
    if pid == 0 {
        extern "C" {
            fn alarm(seconds: u32) -> u32;
        }
        unsafe {
            alarm(120);
        }
        let mut f = std::io::BufWriter::new(std::fs::File::create(&tmp).unwrap());
        let mut cst = Stats { cases: 0, drives: 0, kinds: Default::default(), cancelled: 0 };
        HIST_CANCELLED.store(0, std::sync::atomic::Ordering::Relaxed);
        emit_case_inner(&mut f, cid, lang_id, cx, doc, drives, &mut cst);
        let kinds: Vec<String> = cst.kinds.iter().map(|(k, v)| format!("{k}={v}")).collect();
        writeln!(f, "STATS {} {} {} {} {}", cst.cases, cst.drives, cst.cancelled, HIST_CANCELLED.load(std::sync::atomic::Ordering::Relaxed), kinds.join(",")).unwrap();
        f.flush().unwrap();
        drop(f);
        unsafe { _exit(0) }
    }
    let mut status = 0i32;
    unsafe {
        waitpid(pid, &mut status, 0);
    }
    let content = std::fs::read_to_string(&tmp).unwrap_or_default();
    let _ = std::fs::remove_file(&tmp);
    if status == 0 {
        if let Some(at) = content.rfind("STATS ") {
            out.write_all(content[..at].as_bytes()).unwrap();
            let f: Vec<&str> = content[at..].split_whitespace().collect();
            let num = |i: usize| f.get(i).and_then(|x| x.parse::<usize>().ok()).unwrap_or(0);
            st.cases += num(1);
            st.drives += num(2);
            st.cancelled += num(3);
            HIST_CANCELLED.fetch_add(num(4), std::sync::atomic::Ordering::Relaxed);
            for kv in f.get(5).unwrap_or(&"").split(',') {
                if let Some((k, v)) = kv.split_once('=') {
                    *st.kinds.entry(k.to_string()).or_insert(0) += v.parse::<usize>().unwrap_or(0);
                }
            }
        }
        return;
    }
    // the child died: keep what it completed, report the drive it was running
    match content.rfind("\nspec ") {
        Some(at) => {
            let end = content[at + 1..].find('\n').map(|e| at + 1 + e + 1).unwrap_or(content.len());
            let spec_line = content[at + 1..end].trim_end();
            let parts: Vec<&str> = spec_line.split_whitespace().collect();
            if parts.len() >= 5 && content[..end].ends_with('\n') {
                out.write_all(content[..end].as_bytes()).unwrap();
                writeln!(out, "drive {} crash {}\nnotree\nrundrive", parts[1], parts[4]).unwrap();
                st.cases += 1;
                st.drives += 1;
                *st.kinds.entry("crash".into()).or_insert(0) += 1;
                eprintln!("c09: the library crashed or hung (wait status {status}) in drive {} of case {cid}", parts[4]);
            }
        }
        None => eprintln!("c09: the library crashed (wait status {status}) in the canonical parse of case {cid}"),
    }
}

fn emit_case_inner(out: &mut impl Write, cid: &str, lang_id: &str, cx: &Ctx, doc: &[u8], drives: &[String], st: &mut Stats) {
    if doc.len() > 60_000 {
        return;
    }
    let canon = match fresh(cx.lang).parse(doc, None) {
        Some(t) => t,
        None => return,
    };
    st.cases += 1;
    writeln!(out, "case {cid} {lang_id}").unwrap();
    writeln!(out, "doc {}", hx(doc)).unwrap();
    writeln!(out, "canon\n{}", dump_tree(&canon).trim_end()).unwrap();
    let mut n = 0usize;
    for d in drives {
        writeln!(out, "spec {cid}.{} {lang_id} {} {d}", n + 1, hx(doc)).unwrap();
        out.flush().unwrap();
        run_drive(out, cid, &mut n, st, cx, doc, d);
    }
}

fn drives_for(rng: &mut Rng, lang: &Language, doc: &[u8], thorough: bool) -> Vec<String> {
    let n = doc.len();
    let mut v: Vec<String> = Vec::new();
    for k in [1, 2, 3, 4, 7] {
        v.push(format!("c{k}"));
    }
    if n >= 2 && n <= 9 {
        // every split
        for mask in 1u32..(1 << (n - 1)) {
            let sp: Vec<String> = (1..n).filter(|i| mask >> (i - 1) & 1 == 1).map(|i| i.to_string()).collect();
            v.push(format!("s{}", sp.join(",")));
        }
    } else if n >= 2 {
        for _ in 0..(if thorough { 6 } else { 2 }) {
            let mut sp: Vec<usize> = (0..rng.range(1, 6)).map(|_| rng.range(1, n - 1)).collect();
            // bias: inside multi-byte characters
            let inside: Vec<usize> = (0..n).filter(|&i| doc[i] & 0xc0 == 0x80).collect();
            if !inside.is_empty() && rng.chance(1, 2) {
                sp.push(*rng.pick(&inside));
            }
            sp.sort();
            sp.dedup();
            v.push(format!("s{}", sp.iter().map(|x| x.to_string()).collect::<Vec<_>>().join(",")));
        }
    }
    for k in [3, 5, rng.range(4, 9)] {
        v.push(format!("pt:c{k}"));
    }
    if std::str::from_utf8(doc).is_ok() {
        for k in [2, rng.range(1, 6)] {
            v.push(format!("u16le:pt:c{k}"));
            v.push(format!("u16be:pt:c{k}"));
        }
        v.push("u16le".into());
        v.push("u16be".into());
        v.push(format!("u16le:c{}", rng.range(1, 3)));
        v.push(format!("u16be:c{}", rng.range(1, 3)));
    }
    let hops = ["other", "same", "half", "lang", "ranges", "reset", "cancel", "incr", "flip", "langcancel", "cancelsl", "cancelk", "cancelo", "rset", "logoff", "dotoff", "enc16le", "enc16be", "enccustom", "enc8"];
    for _ in 0..(if thorough { 6 } else { 3 }) {
        let k = rng.range(1, 5);
        let ops: Vec<&str> = (0..k).map(|_| *rng.pick(&hops)).collect();
        v.push(format!("hist:{}", ops.join("+")));
    }
    // one parser across encodings: every ordered pair (history encoding, final encoding)
    for h in ["enc16le", "enc16be", "enccustom", "enc8"] {
        v.push(format!("hist:{h}"));
    }
    if std::str::from_utf8(doc).is_ok() {
        for fin in ["u16le", "u16be", "custom"] {
            let h = *rng.pick(&["enc8", "enc16le", "enc16be", "enccustom"]);
            let extra = *rng.pick(&["", "+reset", "+flip", "+other"]);
            v.push(format!("{fin}:after:{h}{extra}"));
        }
    }
    v.push("log".into());
    v.push("failed".into());
    if n <= 4000 {
        v.push(if rng.chance(1, 2) { "dot".into() } else { "dotlog".into() });
    }
    if std::str::from_utf8(doc).is_ok() {
        v.push(format!("custom:c{}", *rng.pick(&[0usize, 4, 5, 7])));
    }
    let calls = count_callbacks(lang, doc);
    if calls > 0 {
        // histories in which a parse of THIS document really is cancelled
        for op in ["cancel", "cancelk", "cancelsl"] {
            let follow = *rng.pick(&["", "+flip", "+rset", "+other", "+langcancel", "+cancelo"]);
            v.push(format!("hist:{op}{follow}"));
        }
    }
    if calls > 0 {
        let ks: Vec<usize> = if calls <= 12 || (thorough && calls <= 64) { (0..calls).collect() } else {
            let mut s: Vec<usize> = (0..(if thorough { 64 } else { 6 })).map(|_| rng.below(calls)).collect();
            s.push(0);
            s.push(calls - 1);
            s.sort();
            s.dedup();
            s
        };
        for k in ks {
            v.push(format!("cancel:{k}:resume"));
            v.push(format!("cancel:{k}:reset"));
            if k % 3 == 0 {
                v.push(format!("cancel:{k}:resume4"));
            }
        }
    }
    v
}

// ---------------------------------------------------------------- function level (as in c13: lexer scripts under chunkers)
fn random_doc(rng: &mut Rng) -> Vec<u8> {
    let pieces: [&[u8]; 14] = [b"a", b"b", b" ", b"\n", "é".as_bytes(), "€".as_bytes(), "😀".as_bytes(), b"(", b"0", b"\xe2\x82", b"\xc3", b"\xff", b"\x80", b"xyz"];
    let n = rng.below(12);
    let mut d = Vec::new();
    if rng.chance(1, 12) {
        d.extend_from_slice("\u{feff}".as_bytes());
    }
    for _ in 0..n {
        let pc: &[u8] = pieces[rng.below(pieces.len())];
        d.extend_from_slice(pc);
    }
    d
}

fn emit_function_cases(out: &mut impl Write, rng: &mut Rng, n: usize) {
    for i in 0..n {
        if i % 8 == 5 {
            // UTF-16 decoder: 0-6 bytes biased to surrogates, both byte orders
            let be = rng.chance(1, 2);
            let units = rng.below(4);
            let mut b: Vec<u8> = Vec::new();
            for _ in 0..units {
                let u: u16 = match rng.below(6) {
                    0 => 0xD800 + rng.below(0x400) as u16,
                    1 => 0xDC00 + rng.below(0x400) as u16,
                    2 => [0xD7FF, 0xD800, 0xDBFF, 0xDC00, 0xDFFF, 0xE000, 0xFFFF, 0xFEFF, 0x0000, 0x000A][rng.below(10)],
                    _ => rng.below(0x10000) as u16,
                };
                b.extend_from_slice(&if be { u.to_be_bytes() } else { u.to_le_bytes() });
            }
            if rng.chance(1, 4) {
                b.push(rng.below(256) as u8); // odd trailing byte
            }
            writeln!(out, "E ge{i} {} {}", if be { "be" } else { "le" }, if b.is_empty() { "-".to_string() } else { hex(&b) }).unwrap();
            continue;
        }
        if i % 4 == 3 {
            let k = rng.range(1, 5);
            let b: Vec<u8> = (0..k)
                .map(|j| match rng.below(5) {
                    0 => rng.below(256) as u8,
                    1 => [0xc0, 0xc1, 0xc2, 0xdf, 0xe0, 0xe1, 0xec, 0xed, 0xee, 0xef, 0xf0, 0xf1, 0xf3, 0xf4, 0xf5, 0xff][rng.below(16)],
                    2 | 3 if j > 0 => [0x80, 0x8f, 0x90, 0x9f, 0xa0, 0xbf][rng.below(6)],
                    _ => (0x80 + rng.below(64)) as u8,
                })
                .collect();
            writeln!(out, "D gd{i} {}", hex(&b)).unwrap();
            continue;
        }
        let doc = random_doc(rng);
        let n = doc.len();
        let chunking = match rng.below(6) {
            0 => "w".to_string(),
            1 | 2 => format!("c{}", [1, 2, 3, 4, 7][rng.below(5)]),
            _ => {
                let mut sp: Vec<usize> = (0..rng.range(1, 5)).map(|_| rng.below(n + 1)).collect();
                sp.sort();
                format!("s{}", sp.iter().map(|x| x.to_string()).collect::<Vec<_>>().join(","))
            }
        };
        let mut ops: Vec<String> = vec!["S".into()];
        for _ in 0..rng.range(2, 24) {
            ops.push(match rng.below(17) {
                14 => "I".to_string(),
                15 | 16 => "C".to_string(),
                0..=7 => "A".to_string(),
                8 => "K".to_string(),
                9 => "M".to_string(),
                10 => "F".to_string(),
                11 => "S".to_string(),
                _ => {
                    let b = rng.below(n + 2);
                    let p = point_at(&doc, b.min(n));
                    format!("R:{}:{}:{}", b, p.row, p.column + (b - b.min(n)))
                }
            });
        }
        writeln!(out, "L gl{i} {} {} 0 | {}", hx(&doc), chunking, ops.join(" ")).unwrap();
    }
}

fn main() {
    limit_resources();
    // watchdog: a mutated runtime that loops forever must not hang the check (SIGALRM kills the explorer)
    extern "C" {
        fn alarm(seconds: u32) -> u32;
    }
    unsafe {
        alarm(if tier_is_thorough() { 1500 } else { 240 });
    }
    let args: Vec<String> = std::env::args().collect();
    let out_path = args.get(1).expect("usage: c09 <ops-file> [--spec file] [lang...]").clone();
    let mut out = std::io::BufWriter::new(std::fs::File::create(&out_path).unwrap());
    let _ = CASE_TMP.set(format!("{out_path}.case"));
    let mut st = Stats { cases: 0, drives: 0, kinds: Default::default(), cancelled: 0 };
    let other = zoo::load("arith").expect("arith");
    let other_doc = b"1 + 2 * (x - 3)".to_vec();
    // large enough for several progress callbacks (one per 100 parser operations)
    let other_big: Vec<u8> = vec!["1 + 2 * (x - 3)"; 400].join(" + ").into_bytes();
    let run_specs = |src: &str, tag: &str, out: &mut std::io::BufWriter<std::fs::File>, st: &mut Stats| {
        for (i, line) in src.lines().enumerate() {
            if line.trim().is_empty() || line.starts_with('#') {
                continue;
            }
            let mut parts: Vec<&str> = line.split_whitespace().collect();
            if parts.first() == Some(&"spec") {
                parts.remove(0);
            }
            if parts.len() >= 2 && !zoo::zoo_dir(parts[0]).join("grammar.json").exists() {
                parts.remove(0);
            }
            if parts.len() < 3 {
                continue;
            }
            if let Ok(b) = zoo::load(parts[0]) {
                let doc = if parts[1] == "-" { vec![] } else { unhex(parts[1]) };
                let cx = Ctx { lang: &b.language, other: &other.language, other_doc: &other_doc, other_big: &other_big };
                emit_case(out, &format!("{}-{tag}{i}", parts[0]), parts[0], &cx, &doc, &[parts[2].to_string()], st);
            }
        }
    };
    if args.get(2).map(|s| s == "--spec").unwrap_or(false) {
        let specs = std::fs::read_to_string(&args[3]).unwrap();
        run_specs(&specs, "r", &mut out, &mut st);
        out.flush().unwrap();
        eprintln!("c09: replayed {} drives", st.drives);
        return;
    }
    let only: Vec<String> = args[2..].to_vec();
    let mut rng = Rng::new(seed_from_env());
    let thorough = tier_is_thorough();
    emit_function_cases(&mut out, &mut rng.fork(), if thorough { 40_000 } else { 4_000 });
    if let Some(corpus) = zoo_corpus("c09") {
        run_specs(&corpus, "c", &mut out, &mut st);
    }
    let docs_per_lang = if thorough { 16 } else { 4 };
    let langs: Vec<String> = if only.is_empty() { zoo::list() } else { only };
    let mut no = 0usize;
    for id in langs {
        let b = match zoo::load(&id) {
            Ok(b) => b,
            Err(e) => {
                eprintln!("skip {id}: {e}");
                continue;
            }
        };
        let cx = Ctx { lang: &b.language, other: &other.language, other_doc: &other_doc, other_big: &other_big };
        let gg = gen::GrammarGen::new(&b.grammar_json, zoo::read_zoo_file(&id, "samples.json").as_deref());
        for d in 0..docs_per_lang {
            // sizes: tiny (every split), small, medium, long (several progress callbacks, balancing of long repeats)
            let budget = [2, 12, 80, 1500][d % 4];
            let toks = gg.sentence(&mut rng, budget);
            let (mut text, _bounds) = gg.render(&toks, &mut rng);
            if d % 4 == 0 && text.len() > 9 {
                text.truncate(9);
                while !text.is_empty() && std::str::from_utf8(&text).is_err() {
                    text.pop();
                }
            }
            if d % 8 == 5 {
                text = gen::mutate_bytes(&mut rng, &text);
            }
            if d % 4 == 1 && rng.chance(1, 2) {
                // make sure multi-byte characters occur
                let ins = ["é", "€", "😀", " é ", "\u{feff}"][rng.below(5)].as_bytes();
                let at = rng.below(text.len() + 1);
                if std::str::from_utf8(&text[..at]).is_ok() {
                    let mut t = text[..at].to_vec();
                    t.extend_from_slice(ins);
                    t.extend_from_slice(&text[at..]);
                    text = t;
                }
            }
            if text.len() > 40_000 {
                text.truncate(40_000);
            }
            no += 1;
            let drives = drives_for(&mut rng, &b.language, &text, thorough);
            emit_case(&mut out, &format!("{id}-{no}"), &id, &cx, &text, &drives, &mut st);
        }
    }
    out.flush().unwrap();
    eprintln!("c09: wrote {} cases, {} drives {:?}, {} parses actually cancelled (+ {} inside histories), to {}", st.cases, st.drives, st.kinds, st.cancelled, HIST_CANCELLED.load(std::sync::atomic::Ordering::Relaxed), out_path);
}
