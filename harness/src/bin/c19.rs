//! C19 explorer: the REAL `tree_sitter_loader::Loader` in real processes and threads.
//!
//! usage:
//!   c19 <ops-out> <workdir> [--sched <file>] [--spec <file>]   explorer / controller
//!   c19 --loader <work> <id>[,<id>...]                          loader child (several ids = threads)
//!   c19 --probe <lib.so>                                        print `ver N` / `partial` / `none`
//!
//! Each case has a private directory `<workdir>/<case>/` = {src/ (parser.c [+ scanner.c]), lib/
//! (parser-lib dir), cache/ (XDG_CACHE_HOME, where the lock files live), ctl/sock}.  The grammar
//! `c19g` has a rule named `ver_<N>`, so the version a loaded language was built from is observable.
//!
//! Controlled mode (hook hooks/C19-loader-points.diff present): every loader pauses at the named
//! points; the controller releases one loader at a time following a schedule enumerated by the
//! Lean model, or aborts it there.  Free mode: loaders race without control, optionally one process
//! is killed (-9) at a random time.
use std::collections::HashMap;
use std::fs;
use std::hash::{Hash, Hasher};
use std::io::{BufRead, BufReader, Read, Write};
use std::os::unix::net::{UnixListener, UnixStream};
use std::path::{Path, PathBuf};
use std::process::{Child, Command, Stdio};
use std::sync::{Arc, Mutex};
use std::time::{Duration, Instant, SystemTime};
use tree_sitter::Language;
use tree_sitter_loader::{CompileConfig, Loader, LoaderError};
use tsv_harness::*;

const NAME: &str = "c19g";

/// Version of the sources a loaded library was built from: parser.c version (the grammar has a rule
/// `ver_<P>`) + 10 x scanner.c version (scanner v1 accepts `a` as the external token, v2 accepts `b`;
/// 0 = no external scanner).
fn version_of(lang: &Language) -> Option<u32> {
    let mut pv = None;
    for i in 0..lang.node_kind_count() {
        if let Some(k) = lang.node_kind_for_id(i as u16) {
            if let Some(r) = k.strip_prefix("ver_") {
                pv = r.parse::<u32>().ok();
            }
        }
    }
    let pv = pv?;
    let mut parser = tree_sitter::Parser::new();
    parser.set_language(lang).ok()?;
    let accepts = |parser: &mut tree_sitter::Parser, text: &str| parser.parse(text, None).map(|t| !t.root_node().has_error()).unwrap_or(false);
    let sv = if accepts(&mut parser, "v a") {
        1
    } else if accepts(&mut parser, "v b") {
        2
    } else {
        0
    };
    Some(pv + 10 * sv)
}

fn classify(e: &LoaderError) -> String {
    match e {
        LoaderError::LockFileTimeout(_) => "timeout".into(),
        LoaderError::Compilation(..) => "compile".into(),
        LoaderError::Library(_) | LoaderError::Symbol(_) => {
            let m = format!("{e:?}"); // Display of libloading errors omits the dlerror text
            if m.contains("No such file") {
                "missing".into()
            } else {
                "partial".into()
            }
        }
        other => format!("other:{}", format!("{other}").replace([' ', '\n', '='], "_").chars().take(60).collect::<String>()),
    }
}

fn do_load(work: &Path) -> String {
    let loader = Loader::with_parser_lib_path(work.join("lib"));
    let src = work.join("src");
    let mut cfg = CompileConfig::new(&src, None, None);
    cfg.name = NAME.into();
    match loader.load_language_at_path_with_name(cfg) {
        Ok(l) => match version_of(&l) {
            Some(v) => format!("ok{v}"),
            None => "partial".into(),
        },
        Err(e) => classify(&e),
    }
}

fn report(work: &Path, id: &str, res: &str) {
    println!("{id} {res}");
    let _ = std::io::stdout().flush();
    if std::env::var("TS_VERIF_SCHEDULE").is_ok() {
        if let Ok(mut s) = UnixStream::connect(work.join("ctl/sock")) {
            let _ = writeln!(s, "{id} done {res}");
        }
    }
}

fn loader_main(work: &Path, ids: &str) {
    let ids: Vec<String> = ids.split(',').map(|s| s.to_string()).collect();
    if ids.len() == 1 {
        let r = do_load(work);
        report(work, &ids[0], &r);
    } else {
        let hs: Vec<_> = ids
            .iter()
            .map(|id| {
                let id = id.clone();
                let work = work.to_path_buf();
                std::thread::Builder::new()
                    .name(format!("tsv-{id}"))
                    .spawn(move || {
                        let r = do_load(&work);
                        report(&work, &id, &r);
                    })
                    .unwrap()
            })
            .collect();
        for h in hs {
            let _ = h.join();
        }
    }
}

fn probe_main(path: &Path) {
    if !path.exists() {
        println!("none");
        return;
    }
    match Loader::load_language(path, &format!("tree_sitter_{NAME}")) {
        Ok(l) => match version_of(&l) {
            Some(v) => println!("v{v}"),
            None => println!("partial"),
        },
        Err(_) => println!("partial"),
    }
}

// ---------------------------------------------------------------------------------------------

fn grammar_json(ver: u32, scanner: bool) -> String {
    let ext = if scanner { r#","externals":[{"type":"SYMBOL","name":"ext"}]"# } else { "" };
    let body = if scanner {
        format!(r#"{{"type":"SEQ","members":[{{"type":"SYMBOL","name":"ver_{ver}"}},{{"type":"CHOICE","members":[{{"type":"SYMBOL","name":"ext"}},{{"type":"BLANK"}}]}}]}}"#)
    } else {
        format!(r#"{{"type":"SYMBOL","name":"ver_{ver}"}}"#)
    };
    format!(
        r#"{{"name":"{NAME}","rules":{{"program":{body},"ver_{ver}":{{"type":"STRING","value":"v"}}}},"extras":[{{"type":"PATTERN","value":"\\s"}}],"conflicts":[],"precedences":[],"inline":[],"supertypes":[]{ext}}}"#
    )
}

const SCANNER_C: &str = r#"#include "tree_sitter/parser.h"
void *tree_sitter_c19g_external_scanner_create(void) { return 0; }
void tree_sitter_c19g_external_scanner_destroy(void *p) { (void)p; }
unsigned tree_sitter_c19g_external_scanner_serialize(void *p, char *b) { (void)p; (void)b; return 0; }
void tree_sitter_c19g_external_scanner_deserialize(void *p, const char *b, unsigned n) { (void)p; (void)b; (void)n; }
bool tree_sitter_c19g_external_scanner_scan(void *p, TSLexer *l, const bool *v) {
  (void)p;
  if (!v[0]) return false;
  while (l->lookahead == ' ') l->advance(l, true);
  if (l->lookahead == C19_SCANNER_CHAR) { l->advance(l, false); l->result_symbol = 0; return true; }
  return false;
}
"#;

/// scanner.c of version 1 accepts `a`, of version 2 accepts `b`.
fn scanner_c(sv: u32) -> String {
    format!("#define C19_SCANNER_CHAR '{}'\n{}", if sv == 1 { 'a' } else { 'b' }, SCANNER_C)
}

struct Sources {
    parser_c: HashMap<(u32, bool), String>,
    /// (parser version, scanner version or 0) -> prebuilt library
    prebuilt: HashMap<(u32, u32), PathBuf>,
}

fn write_headers(dir: &Path) {
    fs::create_dir_all(dir.join("tree_sitter")).unwrap();
    fs::write(dir.join("tree_sitter/parser.h"), tree_sitter_generate::PARSER_HEADER).unwrap();
    fs::write(dir.join("tree_sitter/alloc.h"), tree_sitter_generate::ALLOC_HEADER).unwrap();
    fs::write(dir.join("tree_sitter/array.h"), tree_sitter_generate::ARRAY_HEADER).unwrap();
}

fn prepare_sources(root: &Path) -> Sources {
    let mut s = Sources { parser_c: HashMap::new(), prebuilt: HashMap::new() };
    for scanner in [false, true] {
        for ver in 1..=2u32 {
            let (name, pc) = zoo::generate(&grammar_json(ver, scanner), Default::default()).expect("generate c19g");
            assert_eq!(name, NAME);
            s.parser_c.insert((ver, scanner), pc);
        }
    }
    for (pv, sv) in [(1u32, 0u32), (2, 0), (1, 1), (1, 2), (2, 1), (2, 2)] {
        let d = root.join(format!("pre-{pv}-{sv}"));
        write_headers(&d);
        fs::write(d.join("parser.c"), &s.parser_c[&(pv, sv > 0)]).unwrap();
        let mut cmd = Command::new("cc");
        cmd.current_dir(&d).args(["-shared", "-fPIC", "-O0", "-w", "-std=c11", "-I", ".", "parser.c"]);
        if sv > 0 {
            fs::write(d.join("scanner.c"), scanner_c(sv)).unwrap();
            cmd.arg("scanner.c");
        }
        let out = cmd.args(["-o", "lib.so"]).output().expect("cc");
        assert!(out.status.success(), "prebuild failed: {}", String::from_utf8_lossy(&out.stderr));
        s.prebuilt.insert((pv, sv), d.join("lib.so"));
    }
    s
}

fn set_mtime(p: &Path, t: SystemTime) {
    let f = fs::OpenOptions::new().write(true).open(p).unwrap();
    f.set_modified(t).unwrap();
}

#[derive(Clone, Debug)]
struct Setup {
    lib: String, // none | stale | fresh
    lock: bool,
    temp: bool,
    broken: bool,
    scanner: bool,
    /// with a scanner, which source the stale library is older than: p(arser.c), s(canner.c), ps (both)
    stalekind: String,
    /// distance in nanoseconds between the cached library's mtime and the sources that are newer
    /// (stale) or older (fresh) than it; sub-second distances stay inside ONE wall-clock second
    gap: u64,
}

/// 200 s, 999 ms, 1 ms, 1 ns
const GAPS: [u64; 4] = [200_000_000_000, 999_000_000, 1_000_000, 1];
fn parse_gap(m: &std::collections::HashMap<String, String>) -> u64 {
    m.get("gap").and_then(|g| g.parse().ok()).unwrap_or(GAPS[0])
}

fn lib_path(work: &Path) -> PathBuf {
    work.join("lib").join(format!("{NAME}.{}", std::env::consts::DLL_EXTENSION))
}

fn lock_path(work: &Path) -> PathBuf {
    // same computation as load_language_at_path_with_name
    let mut hasher = std::hash::DefaultHasher::new();
    lib_path(work).hash(&mut hasher);
    work.join("cache/tree-sitter/lock").join(format!("{NAME}-{:x}.lock", hasher.finish()))
}

/// Sources are version 2 (optionally not compiling); a stale library is version 1.
fn setup_case(work: &Path, st: &Setup, src: &Sources) {
    let _ = fs::remove_dir_all(work);
    fs::create_dir_all(work.join("lib")).unwrap();
    fs::create_dir_all(work.join("cache")).unwrap();
    fs::create_dir_all(work.join("ctl")).unwrap();
    let sdir = work.join("src");
    write_headers(&sdir);
    // all times are explicit: T is a whole second in the past; the library sits exactly at T
    let now_s = SystemTime::now().duration_since(SystemTime::UNIX_EPOCH).unwrap().as_secs();
    let t = SystemTime::UNIX_EPOCH + Duration::from_secs(now_s - 1000);
    let gap = Duration::from_nanos(st.gap);
    let mut pc = src.parser_c[&(2, st.scanner)].clone();
    if st.broken {
        pc.push_str("\n#error \"c19: these sources do not compile\"\n");
    }
    // The current sources are parser.c v2 (+ scanner.c v2).  A stale library is older than parser.c,
    // than scanner.c, or than both — by `gap` — and was built from version 1 of exactly those sources;
    // the other source is 400 s older than the library.  A fresh library is `gap` newer than every source.
    let sk = if st.scanner { st.stalekind.as_str() } else { "p" };
    let (old_p, old_s) = (sk.contains('p'), st.scanner && sk.contains('s'));
    let age = |old: bool| if old { t + gap } else { t - Duration::from_secs(400) };
    fs::write(sdir.join("parser.c"), pc).unwrap();
    set_mtime(&sdir.join("parser.c"), if st.lib == "stale" { age(old_p) } else { t - gap });
    if st.scanner {
        fs::write(sdir.join("scanner.c"), scanner_c(2)).unwrap();
        set_mtime(&sdir.join("scanner.c"), if st.lib == "stale" { age(old_s) } else { t - gap });
    }
    let sv2 = if st.scanner { 2 } else { 0 };
    match st.lib.as_str() {
        "stale" => {
            let pv = if old_p { 1 } else { 2 };
            let sv = if !st.scanner { 0 } else if old_s { 1 } else { 2 };
            fs::copy(&src.prebuilt[&(pv, sv)], lib_path(work)).unwrap();
            set_mtime(&lib_path(work), t);
        }
        "fresh" => {
            fs::copy(&src.prebuilt[&(2, sv2)], lib_path(work)).unwrap();
            set_mtime(&lib_path(work), t);
        }
        _ => {}
    }
    if st.lock {
        let lp = lock_path(work);
        fs::create_dir_all(lp.parent().unwrap()).unwrap();
        fs::write(lp, b"").unwrap();
    }
    if st.temp {
        fs::write(work.join("lib").join(format!(".{NAME}.so.999999.ThreadId(1)")), b"\x7fELFgarbage").unwrap();
    }
}

fn exe() -> PathBuf {
    std::env::current_exe().unwrap()
}

fn spawn_loader(work: &Path, ids: &str, controlled: bool, timeout_ms: Option<u64>) -> Child {
    let mut c = Command::new(exe());
    c.arg("--loader").arg(work).arg(ids);
    c.env("XDG_CACHE_HOME", work.join("cache"));
    c.env_remove("TS_VERIF_SCHEDULE").env_remove("TS_VERIF_LOCK_TIMEOUT_MS").env_remove("TREE_SITTER_LIBDIR");
    if controlled {
        c.env("TS_VERIF_SCHEDULE", work.join("ctl"));
        c.env("TS_VERIF_LOADER_ID", ids);
    }
    if let Some(ms) = timeout_ms {
        c.env("TS_VERIF_LOCK_TIMEOUT_MS", ms.to_string());
    }
    c.stdin(Stdio::null()).stdout(Stdio::piped()).stderr(Stdio::null());
    c.spawn().expect("spawn loader")
}

fn wait_output(mut ch: Child, limit: Duration) -> (Vec<String>, bool) {
    let t0 = Instant::now();
    let mut timed_out = false;
    loop {
        match ch.try_wait() {
            Ok(Some(_)) => break,
            _ => {
                if t0.elapsed() > limit {
                    let _ = ch.kill();
                    let _ = ch.wait();
                    timed_out = true;
                    break;
                }
                std::thread::sleep(Duration::from_millis(5));
            }
        }
    }
    let mut out = String::new();
    if let Some(mut so) = ch.stdout.take() {
        let _ = so.read_to_string(&mut out);
    }
    (out.lines().map(|s| s.to_string()).collect(), timed_out)
}

fn probe_lib(work: &Path) -> String {
    let out = Command::new(exe()).arg("--probe").arg(lib_path(work)).stderr(Stdio::null()).output();
    match out {
        Ok(o) if o.status.success() => String::from_utf8_lossy(&o.stdout).trim().to_string(),
        _ => "partial".into(), // the probe itself crashed on the file
    }
}

fn count_temps(work: &Path) -> usize {
    fs::read_dir(work.join("lib")).map(|rd| rd.filter_map(|e| e.ok()).filter(|e| e.file_name().to_string_lossy().starts_with('.')).count()).unwrap_or(0)
}

/// One more load, started after everything else ended.
fn later_load(work: &Path, timeout_ms: Option<u64>, limit: Duration) -> String {
    let ch = spawn_loader(work, "later", false, timeout_ms);
    let (lines, to) = wait_output(ch, limit);
    if to {
        return "hang".into();
    }
    lines.iter().find_map(|l| l.strip_prefix("later ").map(|s| s.to_string())).unwrap_or_else(|| "dead".into())
}

// --------------------------------------------------------------------------- controlled runs

enum Ev {
    Point(String),
    Done(String),
    Dead,
    Hang,
}

struct Ctl {
    listener: UnixListener,
    paused: HashMap<String, (UnixStream, String)>,
    done: HashMap<String, String>,
}

impl Ctl {
    fn new(work: &Path) -> Ctl {
        let p = work.join("ctl/sock");
        let _ = fs::remove_file(&p);
        let listener = UnixListener::bind(&p).expect("bind ctl socket");
        listener.set_nonblocking(true).unwrap();
        Ctl { listener, paused: HashMap::new(), done: HashMap::new() }
    }
    fn pump(&mut self) {
        while let Ok((stream, _)) = self.listener.accept() {
            let _ = stream.set_nonblocking(false);
            let _ = stream.set_read_timeout(Some(Duration::from_secs(2)));
            let mut line = String::new();
            let mut rd = BufReader::new(stream.try_clone().unwrap());
            if rd.read_line(&mut line).is_err() {
                continue;
            }
            let parts: Vec<&str> = line.trim().splitn(3, ' ').collect();
            if parts.len() >= 2 {
                if parts[1] == "done" {
                    self.done.insert(parts[0].to_string(), parts.get(2).unwrap_or(&"").to_string());
                } else {
                    self.paused.insert(parts[0].to_string(), (stream, parts[1].to_string()));
                }
            }
        }
    }
    /// Wait until loader `id` is paused at a point, has reported its result, or its process is gone.
    fn wait_for(&mut self, id: &str, child: &mut Child, limit: Duration) -> Ev {
        let t0 = Instant::now();
        loop {
            self.pump();
            if let Some((_, pt)) = self.paused.get(id) {
                return Ev::Point(pt.clone());
            }
            if let Some(r) = self.done.get(id) {
                return Ev::Done(r.clone());
            }
            if let Ok(Some(_)) = child.try_wait() {
                self.pump();
                if let Some(r) = self.done.get(id) {
                    return Ev::Done(r.clone());
                }
                return Ev::Dead;
            }
            if t0.elapsed() > limit {
                return Ev::Hang;
            }
            std::thread::sleep(Duration::from_micros(300));
        }
    }
    fn release(&mut self, id: &str, abort: bool) {
        if let Some((mut s, _)) = self.paused.remove(id) {
            let _ = s.write_all(if abort { b"a" } else { b"g" });
        }
    }
}

#[derive(Clone, Debug)]
struct Sched {
    id: String,
    setup: Setup,
    n: usize,
    k: u64,
    steps: Vec<(usize, String)>,
    threads: bool,
    raw: String,
}

fn kv(line: &str) -> HashMap<String, String> {
    line.split_whitespace().filter_map(|w| w.split_once('=')).map(|(a, b)| (a.to_string(), b.to_string())).collect()
}

fn parse_sched(line: &str) -> Option<Sched> {
    // sched <id> lib=.. lock=.. temp=.. n=.. broken=.. K=.. [scanner=..] [threads=..] steps=p:act,...
    let mut it = line.split_whitespace();
    if it.next()? != "sched" {
        return None;
    }
    let id = it.next()?.to_string();
    let m = kv(line);
    let steps = m.get("steps").map(|s| s.split(',').filter(|x| !x.is_empty()).filter_map(|x| x.split_once(':')).map(|(p, a)| (p.parse().unwrap(), a.to_string())).collect()).unwrap_or_default();
    Some(Sched {
        id,
        setup: Setup { lib: m.get("lib")?.clone(), lock: m.get("lock")? == "1", temp: m.get("temp")? == "1", broken: m.get("broken")? == "1", scanner: m.get("scanner").map(|s| s == "1").unwrap_or(false), stalekind: m.get("stalekind").cloned().unwrap_or_else(|| "p".into()), gap: parse_gap(&m) },
        n: m.get("n")?.parse().ok()?,
        k: m.get("K")?.parse().ok()?,
        steps,
        threads: m.get("threads").map(|s| s == "1").unwrap_or(false),
        raw: line.to_string(),
    })
}

/// Timeout given to the real loaders so that the model's `K` is what happens: K = 0 — every poll
/// that sees the lock is past the deadline; K large — no poll ever is.
fn timeout_for_k(k: u64) -> u64 {
    if k == 0 {
        0
    } else {
        600_000
    }
}

/// Testing aid for the stall handling: `C19_TEST_LIMIT_MS=<ms>` replaces every wall-clock limit by
/// `<ms> x patience`, so that first attempts stall artificially.
fn test_limit(normal: Duration, patience: u64) -> Duration {
    match std::env::var("C19_TEST_LIMIT_MS").ok().and_then(|v| v.parse::<u64>().ok()) {
        Some(ms) => Duration::from_millis(ms * patience),
        None => normal,
    }
}

fn run_controlled(work: &Path, sc: &Sched, src: &Sources, patience: u64) -> String {
    setup_case(work, &sc.setup, src);
    let mut ctl = Ctl::new(work);
    let tmo = timeout_for_k(sc.k);
    let ids: Vec<String> = (0..sc.n).map(|i| format!("L{i}")).collect();
    let mut children: Vec<Child> = Vec::new();
    let mut child_of: Vec<usize> = Vec::new();
    if sc.threads {
        children.push(spawn_loader(work, &ids.join(","), true, Some(tmo)));
        child_of = vec![0; sc.n];
    } else {
        for (i, id) in ids.iter().enumerate() {
            children.push(spawn_loader(work, id, true, Some(tmo)));
            child_of.push(i);
        }
    }
    let limit = test_limit(Duration::from_secs(20 * patience), patience);
    let mut points: Vec<String> = Vec::new();
    let mut problem = String::new();
    // every loader first arrives at its first point
    let mut first: Vec<String> = Vec::new();
    for (i, id) in ids.iter().enumerate() {
        match ctl.wait_for(id, &mut children[child_of[i]], limit) {
            Ev::Point(p) => first.push(p),
            Ev::Done(r) => first.push(format!("exit:{r}")),
            Ev::Dead => first.push("dead".into()),
            Ev::Hang => {
                first.push("hang".into());
                problem = format!("{id}-never-arrived");
            }
        }
    }
    let mut results: Vec<String> = vec!["dead".into(); sc.n];
    if problem.is_empty() {
        for (p, act) in &sc.steps {
            let id = &ids[*p];
            let at = match ctl.paused.get(id) {
                Some((_, pt)) => pt.clone(),
                None => {
                    problem = format!("{id}-not-paused-before-{act}");
                    break;
                }
            };
            let abort = act == "crash";
            if !abort && at != *act {
                problem = format!("{id}-at-{at}-expected-{act}");
                break;
            }
            ctl.release(id, abort);
            if abort && sc.threads {
                // the whole process dies
                let _ = children[0].wait();
                points.push("dead".into());
                continue;
            }
            match ctl.wait_for(id, &mut children[child_of[*p]], limit) {
                Ev::Point(pt) => points.push(pt),
                Ev::Done(r) => {
                    results[*p] = r;
                    points.push("exit".into());
                }
                Ev::Dead => points.push("dead".into()),
                Ev::Hang => {
                    points.push("hang".into());
                    problem = format!("{id}-hang-after-{act}");
                    break;
                }
            }
        }
    }
    // whoever is still paused / running is killed (the schedule said so: it is maximal)
    let leftover: Vec<String> = ids.iter().filter(|id| ctl.paused.contains_key(*id)).cloned().collect();
    for c in children.iter_mut() {
        if let Ok(None) = c.try_wait() {
            let _ = c.kill();
        }
        let _ = c.wait();
    }
    ctl.pump();
    for (i, id) in ids.iter().enumerate() {
        if let Some(r) = ctl.done.get(id) {
            results[i] = r.clone();
        }
    }
    drop(ctl);
    let finallib = probe_lib(work);
    let lockleft = lock_path(work).exists();
    let temps = count_temps(work);
    let later = later_load(work, Some(if sc.k == 0 { 0 } else { 400 }), Duration::from_secs(60 * patience));
    format!(
        "first={} points={} results={} finallib={} lockleft={} temps={} later={} leftover={} problem={}",
        first.join(";"),
        if points.is_empty() { "-".into() } else { points.join(";") },
        results.join(";"),
        finallib,
        lockleft as u8,
        temps,
        later,
        if leftover.is_empty() { "-".into() } else { leftover.join(";") },
        if problem.is_empty() { "-" } else { &problem }
    )
}

// --------------------------------------------------------------------------- free runs

#[derive(Clone, Debug)]
struct Free {
    id: String,
    setup: Setup,
    procs: usize,
    threads: usize,
    kill_after_ms: Option<u64>,
    victim: usize,
    later: bool,
}

fn free_spec(f: &Free) -> String {
    format!(
        "free {} lib={} lock={} temp={} broken={} scanner={} stalekind={} gap={} procs={} threads={} kill={} victim={} dolater={}",
        f.id,
        f.setup.lib,
        f.setup.lock as u8,
        f.setup.temp as u8,
        f.setup.broken as u8,
        f.setup.scanner as u8,
        f.setup.stalekind,
        f.setup.gap,
        f.procs,
        f.threads,
        f.kill_after_ms.map(|k| k.to_string()).unwrap_or_else(|| "-".into()),
        f.victim,
        f.later as u8
    )
}

fn parse_free(line: &str) -> Option<Free> {
    let mut it = line.split_whitespace();
    if it.next()? != "free" {
        return None;
    }
    let id = it.next()?.to_string();
    let m = kv(line);
    Some(Free {
        id,
        setup: Setup { lib: m.get("lib")?.clone(), lock: m.get("lock")? == "1", temp: m.get("temp")? == "1", broken: m.get("broken")? == "1", scanner: m.get("scanner")? == "1", stalekind: m.get("stalekind").cloned().unwrap_or_else(|| "p".into()), gap: parse_gap(&m) },
        procs: m.get("procs")?.parse().ok()?,
        threads: m.get("threads")?.parse().ok()?,
        kill_after_ms: m.get("kill").and_then(|s| s.parse().ok()),
        victim: m.get("victim")?.parse().ok()?,
        later: m.get("dolater")? == "1",
    })
}

fn run_free(work: &Path, f: &Free, src: &Sources, hook: bool, patience: u64) -> String {
    setup_case(work, &f.setup, src);
    let tmo = if hook { Some(1500u64) } else { None };
    // Without the hook the lock timeout is the real 30 s.  The quick tier does not sit it out:
    // callers still running after 6 s are killed by the harness (reported as `dead`, and the case
    // counts as one with crashes); the thorough tier waits for the real timeout.
    let patient = hook || tier_is_thorough();
    let limit = test_limit(Duration::from_secs(patience * if hook { 30 } else if patient { 50 } else { 6 }), patience);
    let mut children = Vec::new();
    let mut idsets = Vec::new();
    for p in 0..f.procs {
        let ids: Vec<String> = (0..f.threads).map(|t| format!("P{p}T{t}")).collect();
        children.push(Some(spawn_loader(work, &ids.join(","), false, tmo)));
        idsets.push(ids);
    }
    let mut killed = false;
    if let Some(ms) = f.kill_after_ms {
        std::thread::sleep(Duration::from_millis(ms));
        if let Some(c) = children[f.victim].as_mut() {
            if let Ok(None) = c.try_wait() {
                let _ = c.kill();
                killed = true;
            }
        }
    }
    let mut results = Vec::new();
    let mut hang = false;
    for (p, c) in children.iter_mut().enumerate() {
        let (lines, to) = wait_output(c.take().unwrap(), limit);
        hang |= to;
        for id in &idsets[p] {
            let r = lines.iter().find_map(|l| l.strip_prefix(&format!("{id} ")).map(|s| s.to_string()));
            results.push(r.unwrap_or_else(|| if to && patient { "hang".into() } else { "dead".into() }));
        }
    }
    let finallib = probe_lib(work);
    let lockleft = lock_path(work).exists();
    // a later load against a leftover lock would block for the real timeout
    let stuck = lockleft && finallib != "v2";
    let later = if f.later && (patient || !stuck) { later_load(work, tmo, limit) } else { "skip".into() };
    let later = if later == "hang" && !patient { "skip".to_string() } else { later };
    let hang = hang && patient;
    format!(
        "n={} crash={} killed={} results={} finallib={} lockleft={} later={} problem={}",
        f.procs * f.threads,
        (f.kill_after_ms.is_some() || (!patient && results.iter().any(|r| r == "dead"))) as u8,
        killed as u8,
        results.join(";"),
        finallib,
        lockleft as u8,
        later,
        if hang { "hang" } else { "-" }
    )
}


// --------------------------------------------------------------------------- source-update runs (round 11)

/// A controlled history with a SOURCE UPDATE placed while one loader waits for the lock.
/// `scen=planted`: the lock is a leftover/foreign one; while L0 waits at `poll` the controller plays the
/// lock's owner: installs a library built from the OLD sources, then rewrites the sources (newer than
/// that library), then removes the lock.  `scen=live`: L0 holds the lock and compiles the old sources
/// (paused at `unlock`), L1 waits at `poll`; the sources are rewritten; L0 unlocks and loads, then L1 goes on.
/// `what` = which sources are rewritten (p, s, ps); generation 1 has version 1 of exactly those.
#[derive(Clone, Debug)]
struct Upd {
    id: String,
    scen: String,
    scanner: bool,
    what: String,
    threads: bool,
}

fn upd_spec(u: &Upd) -> String {
    format!("upd {} scen={} scanner={} what={} threads={}", u.id, u.scen, u.scanner as u8, u.what, u.threads as u8)
}

fn parse_upd(line: &str) -> Option<Upd> {
    let mut it = line.split_whitespace();
    if it.next()? != "upd" {
        return None;
    }
    let id = it.next()?.to_string();
    let m = kv(line);
    Some(Upd { id, scen: m.get("scen")?.clone(), scanner: m.get("scanner")? == "1", what: m.get("what").cloned().unwrap_or_else(|| "p".into()), threads: m.get("threads").map(|s| s == "1").unwrap_or(false) })
}

fn run_upd(work: &Path, u: &Upd, src: &Sources, patience: u64) -> String {
    let planted = u.scen == "planted";
    let st = Setup { lib: "none".into(), lock: planted, temp: false, broken: false, scanner: u.scanner, stalekind: "p".into(), gap: GAPS[0] };
    setup_case(work, &st, src);
    let what = if u.scanner { u.what.as_str() } else { "p" };
    let (p1, s1) = (if what.contains('p') { 1u32 } else { 2 }, if !u.scanner { 0u32 } else if what.contains('s') { 1 } else { 2 });
    let s2 = if u.scanner { 2u32 } else { 0 };
    let vers = [p1 + 10 * s1, 2 + 10 * s2];
    let sdir = work.join("src");
    let now_s = SystemTime::now().duration_since(SystemTime::UNIX_EPOCH).unwrap().as_secs();
    let at = |back: u64| SystemTime::UNIX_EPOCH + Duration::from_secs(now_s - back);
    // generation 1 of the sources, 1000 s old
    fs::write(sdir.join("parser.c"), &src.parser_c[&(p1, u.scanner)]).unwrap();
    set_mtime(&sdir.join("parser.c"), at(1000));
    if u.scanner {
        fs::write(sdir.join("scanner.c"), scanner_c(s1)).unwrap();
        set_mtime(&sdir.join("scanner.c"), at(1000));
    }
    let n = if planted { 1 } else { 2 };
    let ids: Vec<String> = (0..n).map(|i| format!("L{i}")).collect();
    let mut ctl = Ctl::new(work);
    let mut children: Vec<Child> = Vec::new();
    let mut child_of: Vec<usize> = Vec::new();
    if u.threads && n > 1 {
        children.push(spawn_loader(work, &ids.join(","), true, Some(600_000)));
        child_of = vec![0; n];
    } else {
        for (i, id) in ids.iter().enumerate() {
            children.push(spawn_loader(work, id, true, Some(600_000)));
            child_of.push(i);
        }
    }
    let limit = test_limit(Duration::from_secs(20 * patience), patience);
    let mut gen = 1usize;
    let mut trace: Vec<String> = Vec::new();
    let mut checkgen = vec![0usize; n];
    let callgen = vec![1usize; n];
    let mut results: Vec<String> = vec!["dead".into(); n];
    let mut problem = String::new();
    // run loader `i` until it is paused at point `until` (None: until it returns)
    fn go(ctl: &mut Ctl, ids: &[String], children: &mut [Child], child_of: &[usize], i: usize, until: Option<&str>, limit: Duration, gen: usize,
          trace: &mut Vec<String>, checkgen: &mut [usize], results: &mut [String], problem: &mut String) {
        if !problem.is_empty() {
            return;
        }
        for _ in 0..64 {
            match ctl.wait_for(&ids[i], &mut children[child_of[i]], limit) {
                Ev::Point(p) => {
                    if Some(p.as_str()) == until {
                        return;
                    }
                    if p == "check" {
                        checkgen[i] = gen;
                    }
                    trace.push(format!("{i}:{p}"));
                    ctl.release(&ids[i], false);
                }
                Ev::Done(r) => {
                    trace.push(format!("{i}:exit"));
                    results[i] = r;
                    if until.is_some() {
                        *problem = format!("L{i}-returned-before-{}", until.unwrap());
                    }
                    return;
                }
                Ev::Dead => {
                    *problem = format!("L{i}-died");
                    return;
                }
                Ev::Hang => {
                    *problem = format!("L{i}-hang-before-{}", until.unwrap_or("exit"));
                    return;
                }
            }
        }
        *problem = format!("L{i}-loops");
    }
    macro_rules! go {
        ($i:expr, $until:expr) => {
            go(&mut ctl, &ids, &mut children, &child_of, $i, $until, limit, gen, &mut trace, &mut checkgen, &mut results, &mut problem)
        };
    }
    let rewrite = |t: SystemTime| {
        if what.contains('p') {
            fs::write(sdir.join("parser.c.new"), &src.parser_c[&(2, u.scanner)]).unwrap();
            set_mtime(&sdir.join("parser.c.new"), t);
            fs::rename(sdir.join("parser.c.new"), sdir.join("parser.c")).unwrap();
        }
        if u.scanner && what.contains('s') {
            fs::write(sdir.join("scanner.c.new"), scanner_c(2)).unwrap();
            set_mtime(&sdir.join("scanner.c.new"), t);
            fs::rename(sdir.join("scanner.c.new"), sdir.join("scanner.c")).unwrap();
        }
    };
    if planted {
        go!(0, Some("poll")); // check (no library) -> lock (taken by someone else) -> waits
        if problem.is_empty() {
            // the lock's owner: library from the OLD sources appears, THEN the sources are regenerated, THEN the lock goes
            let tmp = work.join("lib/.owner.tmp");
            fs::copy(&src.prebuilt[&(p1, s1)], &tmp).unwrap();
            set_mtime(&tmp, at(500));
            fs::rename(&tmp, lib_path(work)).unwrap();
            trace.push("owner:install-old-lib".into());
            rewrite(at(200));
            gen = 2;
            trace.push("UPDATE".into());
            let _ = fs::remove_file(lock_path(work));
            trace.push("owner:unlock".into());
        }
        go!(0, None);
    } else {
        go!(0, Some("compile")); // L0: check, lock (wins)
        go!(1, Some("poll")); // L1: check, lock (loses), waits
        go!(0, Some("unlock")); // L0 compiles the OLD sources and renames the library into place
        if problem.is_empty() {
            let lm = fs::metadata(lib_path(work)).and_then(|m| m.modified()).unwrap_or_else(|_| SystemTime::now());
            rewrite(lm + Duration::from_secs(2));
            gen = 2;
            trace.push("UPDATE".into());
        }
        go!(0, None); // L0 unlocks, loads what it built
        go!(1, None); // L1's wait ends: its re-check happens after the rewrite completed
    }
    for c in children.iter_mut() {
        if let Ok(None) = c.try_wait() {
            if problem.is_empty() {
                // threads of one process: wait for the process to end normally
                let t0 = Instant::now();
                while let Ok(None) = c.try_wait() {
                    if t0.elapsed() > Duration::from_secs(5) {
                        break;
                    }
                    std::thread::sleep(Duration::from_millis(2));
                }
            }
            let _ = c.kill();
        }
        let _ = c.wait();
    }
    drop(ctl);
    let finallib = probe_lib(work);
    let lockleft = lock_path(work).exists();
    let later = if problem.is_empty() { later_load(work, Some(400), Duration::from_secs(60 * patience)) } else { "skip".into() };
    let j = |v: &[usize]| v.iter().map(|x| x.to_string()).collect::<Vec<_>>().join(";");
    format!(
        "n={n} results={} checkgen={} callgen={} srcgen={gen} vers={},{} finallib={finallib} lockleft={} later={later} trace={} problem={}",
        results.join(";"),
        j(&checkgen),
        j(&callgen),
        vers[0],
        vers[1],
        lockleft as u8,
        trace.join(","),
        if problem.is_empty() { "-" } else { &problem }
    )
}

/// The REAL default lock timeout (no `TS_VERIF_LOCK_TIMEOUT_MS`, no schedule): a stale lock left by a
/// dead loader, the library absent, one later loader.  It has to come back with a working language
/// within `bound_ms` (the protocol's 30 s + poll slack + compile time).  Not a timing-sensitive verdict:
/// a loader that is not back in time is retried once with twice the bound (guards against a stalled
/// machine); if it is still not back the case FAILS — there is no "inconclusive" here, the bound is far
/// above the protocol's constant.  Every other case overrides the timeout through the hook, so this is
/// the only place where the default value itself is exercised.
fn run_default(root: &Path, idx: usize, src: &Sources) -> String {
    const BOUND_MS: u64 = 45_000;
    let st = Setup { lib: "none".into(), lock: true, temp: false, broken: false, scanner: false, stalekind: "p".into(), gap: GAPS[0] };
    let mut attempts = 0;
    let mut result = String::from("hang");
    let mut elapsed = 0u128;
    let mut finallib = String::from("-");
    let mut lockleft = true;
    for factor in [1u64, 2] {
        attempts += 1;
        let work = root.join(format!("case{idx}d{attempts}"));
        setup_case(&work, &st, src);
        let t0 = Instant::now();
        let ch = spawn_loader(&work, "P0T0", false, None);
        let (lines, to) = wait_output(ch, Duration::from_millis(BOUND_MS * factor));
        elapsed = t0.elapsed().as_millis();
        result = if to { "hang".into() } else { lines.iter().find_map(|l| l.strip_prefix("P0T0 ").map(|s| s.to_string())).unwrap_or_else(|| "dead".into()) };
        finallib = probe_lib(&work);
        lockleft = lock_path(&work).exists();
        let _ = fs::remove_dir_all(&work);
        if !to {
            break;
        }
    }
    format!(
        "n=1 crash=0 killed=0 results={result} finallib={finallib} lockleft={} later=skip problem=- elapsed_ms={elapsed} bound_ms={} attempts={attempts}",
        lockleft as u8,
        BOUND_MS * attempts as u64
    )
}

fn detect_hook(root: &Path, src: &Sources) -> bool {
    let work = root.join("hookprobe");
    let st = Setup { lib: "fresh".into(), lock: false, temp: false, broken: false, scanner: false, stalekind: "p".into(), gap: GAPS[0] };
    setup_case(&work, &st, src);
    let mut ctl = Ctl::new(&work);
    let mut ch = spawn_loader(&work, "L0", true, None);
    let ev = ctl.wait_for("L0", &mut ch, Duration::from_secs(20));
    let hook = matches!(ev, Ev::Point(_));
    ctl.release("L0", false);
    // let it run to the end, releasing every further point
    let t0 = Instant::now();
    while let Ok(None) = ch.try_wait() {
        ctl.pump();
        let ids: Vec<String> = ctl.paused.keys().cloned().collect();
        for id in ids {
            ctl.release(&id, false);
        }
        if t0.elapsed() > Duration::from_secs(20) {
            let _ = ch.kill();
        }
        std::thread::sleep(Duration::from_millis(1));
    }
    let _ = ch.wait();
    hook
}

fn main() {
    let args: Vec<String> = std::env::args().collect();
    if args.get(1).map(|s| s == "--loader").unwrap_or(false) {
        loader_main(Path::new(&args[2]), &args[3]);
        return;
    }
    if args.get(1).map(|s| s == "--probe").unwrap_or(false) {
        probe_main(Path::new(&args[2]));
        return;
    }
    limit_resources();
    let out_path = args.get(1).expect("usage: c19 <ops-out> <workdir> [--sched f] [--spec f]").clone();
    let root = PathBuf::from(args.get(2).expect("workdir"));
    fs::create_dir_all(&root).unwrap();
    let mut sched_file = None;
    let mut sched_recheck_file = None;
    let mut spec_file = None;
    let mut i = 3;
    while i < args.len() {
        match args[i].as_str() {
            "--sched" => {
                sched_file = Some(args[i + 1].clone());
                i += 2;
            }
            "--sched-recheck" => {
                sched_recheck_file = Some(args[i + 1].clone());
                i += 2;
            }
            "--spec" => {
                spec_file = Some(args[i + 1].clone());
                i += 2;
            }
            _ => i += 1,
        }
    }
    let src = prepare_sources(&root);
    let force_nohook = std::env::var("C19_NO_HOOK").is_ok();
    let hook = !force_nohook && detect_hook(&root, &src);
    let thorough = tier_is_thorough();
    let mut rng = Rng::new(seed_from_env());
    // Which protocol does the code implement?  With a leftover lock and an immediate timeout the
    // unchanged tree gives up (next event: exit), the re-checking repair goes back to `check`.
    let mut variant = "unknown";
    if hook {
        let disc = parse_sched("sched disc lib=stale lock=1 temp=0 n=1 broken=0 K=0 steps=0:check,0:lock,0:poll").unwrap();
        let r = run_controlled(&root.join("disc"), &disc, &src, 2);
        let _ = fs::remove_dir_all(root.join("disc"));
        // neither answer: the code implements something else — compare it with the protocol of
        // the current tree (recheck); the disagreements are then the report
        variant = if r.contains("points=lock;poll;check ") {
            "recheck"
        } else if r.contains("points=lock;poll;exit ") {
            "orig"
        } else {
            "unknown"
        };
        if variant != "orig" {
            sched_file = sched_recheck_file.clone();
        }
    }

    // ---- work list
    let mut scheds: Vec<Sched> = Vec::new();
    let mut frees: Vec<Free> = Vec::new();
    let mut upds: Vec<Upd> = Vec::new();
    if let Some(f) = &spec_file {
        for line in fs::read_to_string(f).unwrap().lines() {
            if let Some(s) = parse_sched(line) {
                scheds.push(s);
            } else if let Some(fr) = parse_free(line) {
                frees.push(fr);
            } else if let Some(u) = parse_upd(line) {
                upds.push(u);
            }
        }
    } else {
        if let Some(corpus) = zoo_corpus("c19") {
            for line in corpus.lines() {
                if let Some(s) = parse_sched(line) {
                    // corpus schedules are written for one protocol variant
                    let want = if variant == "orig" { "orig" } else { "recheck" };
                    if kv(line).get("variant").map(|v| v == want).unwrap_or(true) {
                        scheds.push(s);
                    }
                } else if let Some(fr) = parse_free(line) {
                    frees.push(fr);
                }
            }
        }
        if let Some(f) = &sched_file {
            for line in fs::read_to_string(f).unwrap().lines() {
                if let Some(mut s) = parse_sched(line) {
                    // exploration parameters the model does not care about
                    s.setup.scanner = rng.chance(1, 2);
                    s.setup.stalekind = ["p", "s", "ps", "s"][rng.below(4)].to_string();
                    s.threads = !s.steps.iter().any(|(_, a)| a == "crash") && rng.chance(1, 3);
                    s.setup.gap = GAPS[scheds.len() % 4];
                    s.raw = format!("{} scanner={} stalekind={} gap={} threads={}", s.raw, s.setup.scanner as u8, s.setup.stalekind, s.setup.gap, s.threads as u8);
                    scheds.push(s);
                }
            }
        }
        // source-update histories (round 11): both scenarios x scanner/no scanner x which source is rewritten
        {
            let mut k = 0;
            for scen in ["planted", "live"] {
                for (scanner, what) in [(false, "p"), (true, "p"), (true, "s"), (true, "ps")] {
                    let reps = if thorough { 4 } else { 1 };
                    for _ in 0..reps {
                        upds.push(Upd { id: format!("u{k}"), scen: scen.into(), scanner, what: what.into(), threads: false });
                        k += 1;
                    }
                }
            }
        }
        // free-running cases: every initial cache state x shapes, with and without a kill
        let n_free = if thorough { 150 } else { 36 };
        let libs = ["none", "stale", "fresh"];
        let shapes: [(usize, usize); 6] = [(2, 1), (1, 2), (3, 1), (2, 2), (4, 2), (1, 3)];
        for k in 0..n_free {
            let lib = libs[k % 3].to_string();
            let (procs, threads) = shapes[(k / 3) % shapes.len()];
            // in no-hook mode a leftover lock costs the real 30 s: only one such case (k == 1)
            let lock = if hook || thorough { rng.chance(1, 6) } else { false };
            let broken = rng.chance(1, 7);
            let kill = if rng.chance(if hook { 3 } else { 2 }, 6) { Some(rng.range(0, 260) as u64) } else { None };
            let later = hook || thorough || kill.is_none();
            frees.push(Free {
                id: format!("f{k}"),
                setup: Setup { lib, lock, temp: rng.chance(1, 4), broken, scanner: rng.chance(1, 2), stalekind: ["p", "s", "ps", "s"][rng.below(4)].to_string(), gap: GAPS[(k / 3) % 4] },
                procs,
                threads,
                kill_after_ms: kill,
                victim: rng.below(procs),
                later,
            });
        }
    }

    // ---- run (cases are independent: private directories), in parallel
    enum Job {
        S(Sched),
        F(Free),
        U(Upd),
        D,
    }
    let mut jobs: Vec<(usize, Job)> = Vec::new();
    // first in the queue: it runs for ~31 s next to all the other cases
    let want_default = match &spec_file {
        Some(f) => fs::read_to_string(f).unwrap().lines().any(|l| l.split_whitespace().any(|w| w == "default")),
        None => std::env::var("C19_NO_DEFAULT_CASE").is_err(),
    };
    if want_default {
        jobs.push((0, Job::D));
    }
    if hook {
        for s in scheds {
            jobs.push((jobs.len(), Job::S(s)));
        }
    }
    if hook {
        for u in upds {
            jobs.push((jobs.len(), Job::U(u)));
        }
    }
    let skipped_sched = if hook { 0 } else { 1 };
    let patient = hook || thorough;
    let mut skipped_free = 0;
    for f in frees {
        // a leftover lock with an absent/stale library means sitting out the real 30 s timeout
        if !patient && f.setup.lock && f.setup.lib != "fresh" && spec_file.is_none() {
            skipped_free += 1;
            continue;
        }
        jobs.push((jobs.len(), Job::F(f)));
    }
    let total = jobs.len();
    let queue = Arc::new(Mutex::new(jobs.into_iter().rev().collect::<Vec<_>>()));
    let results: Arc<Mutex<Vec<(usize, String)>>> = Arc::new(Mutex::new(Vec::new()));
    let src = Arc::new(src);
    let workers = if hook { 8 } else { 16 };
    let mut hs = Vec::new();
    for w in 0..workers {
        let queue = queue.clone();
        let results = results.clone();
        let src = src.clone();
        let root = root.clone();
        hs.push(std::thread::spawn(move || loop {
            let job = { queue.lock().unwrap().pop() };
            let Some((idx, job)) = job else { break };
            // one directory per case, never reused: an orphaned `cc` of a killed loader may still be
            // writing into its case's directory after the case ended
            let _ = w;
            let work = root.join(format!("case{idx}"));
            let line = match job {
                Job::S(s) => {
                    // a loader that does not show up within the limit (machine overloaded) is retried once
                    // Verdicts must not depend on wall-clock: a step that does not complete within the
                    // limit (stalled machine) is retried in a fresh directory with a 4x limit; if it
                    // stalls again the case is reported as inconclusive (`timing=1`) and counted.
                    let mut r = run_controlled(&work, &s, &src, 1);
                    if r.contains("-hang-") || r.contains("-never-arrived") || r.contains("later=hang") {
                        let _ = fs::remove_dir_all(&work);
                        r = run_controlled(&root.join(format!("case{idx}r")), &s, &src, 4);
                        let _ = fs::remove_dir_all(root.join(format!("case{idx}r")));
                        if r.contains("-hang-") || r.contains("-never-arrived") || r.contains("later=hang") {
                            r.push_str(" timing=1");
                        } else {
                            r.push_str(" retried=1");
                        }
                    }
                    format!("spec {} {}\ncase {} kind=ctl {} {}", s.id, s.raw, s.id, s.raw.splitn(3, ' ').nth(2).unwrap_or(""), r)
                }
                Job::U(u) => {
                    let mut r = run_upd(&work, &u, &src, 1);
                    if r.contains("-hang-") || r.contains("later=hang") {
                        let _ = fs::remove_dir_all(&work);
                        r = run_upd(&root.join(format!("case{idx}r")), &u, &src, 4);
                        let _ = fs::remove_dir_all(root.join(format!("case{idx}r")));
                        if r.contains("-hang-") || r.contains("later=hang") {
                            r.push_str(" timing=1");
                        } else {
                            r.push_str(" retried=1");
                        }
                    }
                    let spec = upd_spec(&u);
                    format!("spec {} {}\ncase {} kind=upd {} {}", u.id, spec, u.id, spec.splitn(3, ' ').nth(2).unwrap_or(""), r)
                }
                Job::D => {
                    let r = run_default(&root, idx, &src);
                    format!("spec d{idx} default lib=none lock=1 timeout=default\ncase d{idx} kind=default lib=none lock=1 temp=0 broken=0 scanner=0 {r}")
                }
                Job::F(f) => {
                    let mut r = run_free(&work, &f, &src, hook, 1);
                    if r.contains("hang") {
                        let _ = fs::remove_dir_all(&work);
                        r = run_free(&root.join(format!("case{idx}r")), &f, &src, hook, 4);
                        let _ = fs::remove_dir_all(root.join(format!("case{idx}r")));
                        if r.contains("hang") {
                            r.push_str(" timing=1");
                        } else {
                            r.push_str(" retried=1");
                        }
                    }
                    let spec = free_spec(&f);
                    format!("spec {} {}\ncase {} kind=free {} {}", f.id, spec, f.id, spec.splitn(3, ' ').nth(2).unwrap_or(""), r)
                }
            };
            let _ = fs::remove_dir_all(&work);
            results.lock().unwrap().push((idx, line));
        }));
    }
    for h in hs {
        let _ = h.join();
    }
    let mut res = results.lock().unwrap().clone();
    res.sort();
    let mut out = std::io::BufWriter::new(fs::File::create(&out_path).unwrap());
    writeln!(out, "mode hook={} skipped_sched={} variant={} patient={} skipped_free={}", hook as u8, skipped_sched, variant, patient as u8, skipped_free).unwrap();
    for (_, l) in &res {
        writeln!(out, "{l}").unwrap();
    }
    out.flush().unwrap();
    eprintln!("c19: mode={} cases={}", if hook { "controlled+free (hook present)" } else { "free only (hook absent)" }, total);
}
