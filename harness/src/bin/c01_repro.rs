//! Stand-alone reproduction of the C01 finding `column-token-reused-across-range-change`
//! (no harness machinery besides building the zoo language): public Rust API only.
//!
//! Language fx_depends_on_column: `x_is_at = /[ \r\n]*/ (odd_column | even_column) 'x'`, the external
//! scanner returns odd_column / even_column from `lexer->get_column() % 2`.
//! Document " x".  First parse: whole document  → (x_is_at (odd_column))   [x is at column 1].
//! Then the included ranges become [1,2) (only "x"); the text is NOT edited.
//!   from scratch:  get_column counts included characters only → column 0 → (x_is_at (even_column))
//!   incremental :  the zero-width odd_column token is reused (its span [1,2) touches no range
//!                  difference; that the text before it on its line left the ranges is not looked at)
//! exit code 1 iff the two trees differ.
use tree_sitter::{Parser, Point, Range};

fn main() {
    let b = tsv_harness::zoo::load("fx_depends_on_column").expect("language");
    let text = b" x";
    let mut p = Parser::new();
    p.set_language(&b.language).unwrap();
    let old = p.parse(text, None).unwrap();
    println!("old (whole document)      : {}", old.root_node().to_sexp());
    let r = [Range { start_byte: 1, end_byte: 2, start_point: Point { row: 0, column: 1 }, end_point: Point { row: 0, column: 2 } }];
    p.set_included_ranges(&r).unwrap();
    let incr = p.parse(text, Some(&old)).unwrap();
    let mut q = Parser::new();
    q.set_language(&b.language).unwrap();
    q.set_included_ranges(&r).unwrap();
    let scratch = q.parse(text, None).unwrap();
    println!("incremental, ranges [1,2) : {}", incr.root_node().to_sexp());
    println!("from scratch, ranges [1,2): {}", scratch.root_node().to_sexp());
    let same = incr.root_node().to_sexp() == scratch.root_node().to_sexp();
    println!("{}", if same { "SAME" } else { "DIFFERENT (scratch tree has no ERROR/MISSING)" });
    std::process::exit(if same { 0 } else { 1 });
}
