//! Stand-alone reproductions of the two C01 findings (no harness machinery besides building the
//! zoo language): public Rust API only.  Exit code = number of scenarios whose incremental tree
//! differs from the from-scratch tree although the latter has no ERROR/MISSING node.
//!
//! Language fx_depends_on_column: `x_is_at = /[ \r\n]*/ (odd_column | even_column) 'x'`; the
//! external scanner returns odd_column / even_column from `lexer->get_column() % 2` (zero-width).
//!
//! 1. `column-token-range-change`: text " x".  Parse 1, whole document: (x_is_at (odd_column)).
//!    Then the included ranges become [1,2) — the text is NOT edited.  From scratch the column
//!    counts included characters only → column 0 → even_column; incrementally the old
//!    odd_column token is reused (its span [1,2) touches no range difference; that the text
//!    before it on its line left the ranges is not looked at).
//! 2. `empty-range-zero-width`: text "  x".  Parse 1 with the single EMPTY included range [0,0):
//!    the zero-width tokens sit at byte 0.  Then the ranges become [2,3).  From scratch every node
//!    starts at byte 2 (the lexer jumps to the start of the first range); incrementally the two
//!    zero-width tokens are reused at byte 0 — the empty range contributes no "different" byte,
//!    so the gate sees no difference in [0,1) — and the root spans [0,3) instead of [2,3).
//! 3. `range-boundary-splits-character`: language fx_unicode_classes (`lower = /\p{Ll}\p{L}*/` …),
//!    text " aéZ" (é = bytes 2,3).  Parse 1 with the range [1,5): (program (lower [1,5))).  Then the
//!    ranges become [1,3),[3,5) — the same bytes, but the boundary splits é.  From scratch the lexer
//!    decodes each range's bytes separately and reports an ERROR; incrementally nothing differs
//!    byte-wise, the old token is reused and no error is reported (the C13 character-splitting
//!    issue seen through C01's second clause).
//! 4. `eof-lookahead-range-added`: language lst (`word = /[a-zé€]+/`), text "ab cd".  Parse 1 with
//!    the range [0,2): (word [0,2)), the token peeked end-of-input at byte 2 (lookahead 1, span
//!    [0,3)).  Then the ranges become [0,2),[3,5).  From scratch the lexer runs on into the second
//!    range: (word [0,5)).  Incrementally the difference [3,5) does not intersect [0,3), the old
//!    word is reused and a second word [3,5) is lexed.
//! 5. `multibyte-lookahead-char` (an EDIT, no ranges): lst, text "ab" + U+20AD (e2 82 ad, not a word
//!    character).  The word "ab" peeked that character; `lookahead_bytes` records ONE byte (`ts_lexer_finish`:
//!    current position + 1), although the decoder examined all three.  Replacing the LAST byte
//!    (ad -> ac) turns the character into `€`, a word character: from scratch one word "ab€" [0,5);
//!    incrementally the edit at byte 4 lies beyond "ab"'s recorded look-ahead [2,3), the old word is
//!    reused and "€" becomes a second word.
use tree_sitter::{InputEdit, Parser, Point, Range, Tree};

fn rng(a: usize, b: usize) -> Range {
    Range { start_byte: a, end_byte: b, start_point: Point { row: 0, column: a }, end_point: Point { row: 0, column: b } }
}

fn show(t: &Tree) -> String {
    let mut out = String::new();
    let mut c = t.walk();
    loop {
        let n = c.node();
        out.push_str(&format!("({} [{},{}){}) ", n.kind(), n.start_byte(), n.end_byte(), if n.is_missing() { " MISSING" } else if n.is_error() { " ERROR" } else { "" }));
        if c.goto_first_child() {
            continue;
        }
        loop {
            if c.goto_next_sibling() {
                break;
            }
            if !c.goto_parent() {
                return out;
            }
        }
    }
}

fn scenario(lang: &str, name: &str, text: &[u8], first: &[Range], second: &[Range]) -> i32 {
    let b = tsv_harness::zoo::load(lang).expect("language");
    let mut p = Parser::new();
    p.set_language(&b.language).unwrap();
    p.set_included_ranges(first).unwrap();
    let old = p.parse(text, None).unwrap();
    p.set_included_ranges(second).unwrap();
    let incr = p.parse(text, Some(&old)).unwrap();
    let mut q = Parser::new();
    q.set_language(&b.language).unwrap();
    q.set_included_ranges(second).unwrap();
    let scratch = q.parse(text, None).unwrap();
    println!("== {name}: text {:?}", String::from_utf8_lossy(text));
    println!("  first parse            : {}", show(&old));
    println!("  incremental, new ranges: {}", show(&incr));
    println!("  from scratch, new ranges: {}", show(&scratch));
    let same = show(&incr) == show(&scratch);
    let (ie, se) = (incr.root_node().has_error(), scratch.root_node().has_error());
    println!(
        "  {}",
        if same {
            "SAME"
        } else if !se {
            "DIFFERENT (scratch tree has no ERROR/MISSING)"
        } else if !ie {
            "scratch tree reports an error, incremental tree reports NONE"
        } else {
            "different recovery shapes, both report an error (allowed)"
        }
    );
    (!same && (!se || !ie)) as i32
}

fn edit_scenario(lang: &str, name: &str, old_text: &[u8], start: usize, old_end: usize, ins: &[u8]) -> i32 {
    let b = tsv_harness::zoo::load(lang).expect("language");
    let mut p = Parser::new();
    p.set_language(&b.language).unwrap();
    let mut old = p.parse(old_text, None).unwrap();
    let mut new_text = old_text[..start].to_vec();
    new_text.extend_from_slice(ins);
    new_text.extend_from_slice(&old_text[old_end..]);
    let pt = |i: usize| Point { row: 0, column: i };
    old.edit(&InputEdit { start_byte: start, old_end_byte: old_end, new_end_byte: start + ins.len(), start_position: pt(start), old_end_position: pt(old_end), new_end_position: pt(start + ins.len()) });
    let incr = p.parse(&new_text, Some(&old)).unwrap();
    let mut q = Parser::new();
    q.set_language(&b.language).unwrap();
    let scratch = q.parse(&new_text, None).unwrap();
    println!("== {name}: {:?} -> {:?}", String::from_utf8_lossy(old_text), String::from_utf8_lossy(&new_text));
    println!("  incremental : {}", show(&incr));
    println!("  from scratch: {}", show(&scratch));
    let same = show(&incr) == show(&scratch);
    println!("  {}", if same { "SAME" } else if !scratch.root_node().has_error() { "DIFFERENT (scratch tree has no ERROR/MISSING)" } else { "different, scratch has errors" });
    (!same && !scratch.root_node().has_error()) as i32
}

fn main() {
    let mut bad = 0;
    bad += scenario("fx_depends_on_column", "column-token-range-change", b" x", &[], &[rng(1, 2)]);
    bad += scenario("fx_depends_on_column", "empty-range-zero-width", b"  x", &[rng(0, 0)], &[rng(2, 3)]);
    bad += scenario("fx_unicode_classes", "range-boundary-splits-character", " a\u{e9}Z".as_bytes(), &[rng(1, 5)], &[rng(1, 3), rng(3, 5)]);
    bad += scenario("lst", "eof-lookahead-range-added", b"ab cd", &[rng(0, 2)], &[rng(0, 2), rng(3, 5)]);
    bad += edit_scenario("lst", "multibyte-lookahead-char", b"ab\xe2\x82\xad", 4, 5, b"\xac");
    std::process::exit(bad);
}
