//! C14 explorer: random token sets → "token soup" grammar → REAL generator + REAL parser; prints for
//! every input string the leaf sequence of the real parse (or `E` when the tree has an error).
//! usage: c14 <ops-file> [--spec <file>]
//! spec line: `<tokenset> <codepoints-hex-list | ->`   tokenset = `w<idx|->x<extras shape> ; prec,isString,AST ; …` without spaces
//! AST: L61.62 literal | C0:61-63:30-30 class (1 = negated) | S(a,b) | A(a,b) | K(a) star | P(a) plus | O(a) opt | R2.3(a)
use serde_json::{json, Value};
use std::io::Write;
use tree_sitter::Parser;
use tsv_harness::*;

const ALPHA: [u32; 8] = [0x61, 0x62, 0x63, 0x64, 0x30, 0x31, 0xe9, 0x3bb];
const LETTERS: [u32; 6] = [0x61, 0x62, 0x63, 0x64, 0xe9, 0x3bb];

#[derive(Clone, Debug)]
enum Re {
    Lit(Vec<u32>),
    Cls(bool, Vec<(u32, u32)>),
    Seq(Box<Re>, Box<Re>),
    Alt(Box<Re>, Box<Re>),
    Star(Box<Re>),
    Plus(Box<Re>),
    Opt(Box<Re>),
    Rep(usize, usize, Box<Re>),
}

fn esc(c: u32) -> String {
    let ch = char::from_u32(c).unwrap();
    if "\\^$.|?*+()[]{}-/".contains(ch) { format!("\\{ch}") } else { ch.to_string() }
}

impl Re {
    fn nullable(&self) -> bool {
        match self {
            Re::Lit(v) => v.is_empty(),
            Re::Cls(..) => false,
            Re::Seq(a, b) => a.nullable() && b.nullable(),
            Re::Alt(a, b) => a.nullable() || b.nullable(),
            Re::Star(_) | Re::Opt(_) => true,
            Re::Plus(a) => a.nullable(),
            Re::Rep(m, _, a) => *m == 0 || a.nullable(),
        }
    }
    fn atom(&self) -> String {
        match self {
            Re::Cls(..) => self.pattern(),
            Re::Lit(v) if v.len() == 1 => self.pattern(),
            _ => format!("({})", self.pattern()),
        }
    }
    fn pattern(&self) -> String {
        match self {
            Re::Lit(v) => v.iter().map(|c| esc(*c)).collect(),
            Re::Cls(neg, rs) => {
                let mut s = String::from(if *neg { "[^" } else { "[" });
                for (lo, hi) in rs {
                    if lo == hi { s.push_str(&esc(*lo)); } else { s.push_str(&format!("{}-{}", esc(*lo), esc(*hi))); }
                }
                if *neg { s.push_str("\\s"); }
                s.push(']');
                s
            }
            Re::Seq(a, b) => format!("{}{}", a.seq_part(), b.seq_part()),
            Re::Alt(a, b) => format!("{}|{}", a.pattern(), b.pattern()),
            Re::Star(a) => format!("{}*", a.atom()),
            Re::Plus(a) => format!("{}+", a.atom()),
            Re::Opt(a) => format!("{}?", a.atom()),
            Re::Rep(m, n, a) => format!("{}{{{m},{n}}}", a.atom()),
        }
    }
    fn seq_part(&self) -> String {
        match self { Re::Alt(..) => format!("({})", self.pattern()), _ => self.pattern() }
    }
    fn ser(&self) -> String {
        match self {
            Re::Lit(v) => format!("L{}", v.iter().map(|c| format!("{c:x}")).collect::<Vec<_>>().join(".")),
            Re::Cls(neg, rs) => format!("C{}{}", *neg as u8, rs.iter().map(|(a, b)| format!(":{a:x}-{b:x}")).collect::<String>()),
            Re::Seq(a, b) => format!("S({},{})", a.ser(), b.ser()),
            Re::Alt(a, b) => format!("A({},{})", a.ser(), b.ser()),
            Re::Star(a) => format!("K({})", a.ser()),
            Re::Plus(a) => format!("P({})", a.ser()),
            Re::Opt(a) => format!("O({})", a.ser()),
            Re::Rep(m, n, a) => format!("R{m}.{n}({})", a.ser()),
        }
    }
}

fn parse_re(s: &[u8], i: &mut usize) -> Re {
    let c = s[*i];
    *i += 1;
    let num = |s: &[u8], i: &mut usize, radix: u32| -> u32 {
        let st = *i;
        while *i < s.len() && (s[*i] as char).is_digit(radix) { *i += 1; }
        u32::from_str_radix(std::str::from_utf8(&s[st..*i]).unwrap(), radix).unwrap_or(0)
    };
    match c {
        b'L' => {
            let mut v = Vec::new();
            loop {
                if *i < s.len() && (s[*i] as char).is_ascii_hexdigit() { v.push(num(s, i, 16)); }
                if *i < s.len() && s[*i] == b'.' { *i += 1; } else { break; }
            }
            Re::Lit(v)
        }
        b'C' => {
            let neg = s[*i] == b'1';
            *i += 1;
            let mut rs = Vec::new();
            while *i < s.len() && s[*i] == b':' {
                *i += 1;
                let a = num(s, i, 16);
                *i += 1;
                let b = num(s, i, 16);
                rs.push((a, b));
            }
            Re::Cls(neg, rs)
        }
        b'S' | b'A' => {
            *i += 1;
            let a = parse_re(s, i);
            *i += 1;
            let b = parse_re(s, i);
            *i += 1;
            if c == b'S' { Re::Seq(Box::new(a), Box::new(b)) } else { Re::Alt(Box::new(a), Box::new(b)) }
        }
        b'K' | b'P' | b'O' => {
            *i += 1;
            let a = parse_re(s, i);
            *i += 1;
            match c { b'K' => Re::Star(Box::new(a)), b'P' => Re::Plus(Box::new(a)), _ => Re::Opt(Box::new(a)) }
        }
        b'R' => {
            let m = num(s, i, 10) as usize;
            *i += 1;
            let n = num(s, i, 10) as usize;
            *i += 1;
            let a = parse_re(s, i);
            *i += 1;
            Re::Rep(m, n, Box::new(a))
        }
        _ => panic!("bad regex serialisation"),
    }
}

#[derive(Clone, Debug)]
struct Tok { prec: i32, is_string: bool, re: Re }

#[derive(Clone, Debug)]
struct TokSet { word: Option<usize>, extras: usize, toks: Vec<Tok> }

/// extras shapes: 0 /\\s/ | 1 /[ \\n]/ | 2 / / | 3 / / and /\\n/ (two extras) | 4 /[ \\t]/
const EXTRAS_SHAPES: usize = 5;
const PUNCT: [u32; 6] = [0x2b, 0x2d, 0x28, 0x29, 0x3b, 0x2c];

impl TokSet {
    fn ser(&self) -> String {
        let mut s = format!("w{}x{}", self.word.map(|w| w.to_string()).unwrap_or("-".into()), self.extras);
        for t in &self.toks { s.push_str(&format!(";{},{},{}", t.prec, t.is_string as u8, t.re.ser())); }
        s
    }
    fn parse(s: &str) -> TokSet {
        let mut parts = s.split(';');
        let w = parts.next().unwrap();
        let (wpart, xpart) = match w.find('x') { Some(i) => (&w[1..i], &w[i + 1..]), None => (&w[1..], "0") };
        let word = wpart.parse().ok();
        let extras = xpart.parse().unwrap_or(0);
        let toks = parts.map(|p| {
            let mut f = p.splitn(3, ',');
            let prec = f.next().unwrap().parse().unwrap();
            let is_string = f.next().unwrap() == "1";
            let mut i = 0;
            let re = parse_re(f.next().unwrap().as_bytes(), &mut i);
            Tok { prec, is_string, re }
        }).collect();
        TokSet { word, extras, toks }
    }
    fn grammar(&self, name: &str) -> String {
        let mut rules = serde_json::Map::new();
        let members: Vec<Value> = (0..self.toks.len()).map(|i| json!({"type":"SYMBOL","name":format!("t{i}")})).collect();
        rules.insert("source".into(), json!({"type":"REPEAT","content":{"type":"CHOICE","members":members}}));
        for (i, t) in self.toks.iter().enumerate() {
            let inner = if t.is_string {
                let Re::Lit(v) = &t.re else { panic!() };
                json!({"type":"STRING","value": v.iter().map(|c| char::from_u32(*c).unwrap()).collect::<String>()})
            } else {
                json!({"type":"PATTERN","value": t.re.pattern()})
            };
            rules.insert(format!("t{i}"), json!({"type":"TOKEN","content":{"type":"PREC","value":t.prec,"content":inner}}));
        }
        let pat = |p: &str| json!({"type":"PATTERN","value":p});
        let extras: Vec<Value> = match self.extras {
            1 => vec![pat("[ \\n]")],
            2 => vec![pat(" ")],
            3 => vec![pat(" "), pat("\\n")],
            4 => vec![pat("[ \\t]")],
            _ => vec![pat("\\s")],
        };
        let mut g = json!({"name": name, "rules": Value::Object(rules), "extras": extras,
            "conflicts": [], "precedences": [], "externals": [], "inline": [], "supertypes": []});
        if let Some(w) = self.word { g["word"] = json!(format!("t{w}")); }
        serde_json::to_string(&g).unwrap()
    }
}

fn pick_sym(rng: &mut Rng, focus: &[u32]) -> u32 {
    if rng.chance(3, 4) { *rng.pick(focus) } else { *rng.pick(&ALPHA) }
}

fn rand_cls(rng: &mut Rng, focus: &[u32]) -> Re {
    let neg = rng.chance(1, 5);
    let mut rs = Vec::new();
    for _ in 0..rng.range(1, 2) {
        match rng.below(5) {
            0 => rs.push((0x61, 0x61 + rng.below(4) as u32)),
            1 => rs.push((0x30, 0x31)),
            _ => { let c = pick_sym(rng, focus); rs.push((c, c)); }
        }
    }
    Re::Cls(neg, rs)
}

fn rand_re(rng: &mut Rng, depth: usize, focus: &[u32]) -> Re {
    if depth == 0 || rng.chance(1, 3) {
        return if rng.chance(1, 2) { rand_cls(rng, focus) } else { Re::Lit((0..rng.range(1, 2)).map(|_| pick_sym(rng, focus)).collect()) };
    }
    let a = Box::new(rand_re(rng, depth - 1, focus));
    match rng.below(7) {
        0 | 1 => Re::Seq(a, Box::new(rand_re(rng, depth - 1, focus))),
        2 => Re::Alt(a, Box::new(rand_re(rng, depth - 1, focus))),
        3 => Re::Star(a),
        4 => Re::Plus(a),
        5 => Re::Opt(a),
        _ => rand_rep(rng, a),
    }
}

/// counted repetition `{m,n}`, n >= 1, lower bound 0 in half of the cases
fn rand_rep(rng: &mut Rng, a: Box<Re>) -> Re {
    let m = if rng.chance(1, 2) { 0 } else { rng.range(1, 2) };
    Re::Rep(m, (m + rng.below(3)).max(1), a)
}

/// counted repetitions in every syntactic position: at the end / start / middle of alternatives
/// (first or later), nested in groups, under `* + ?`
fn rand_re_with_reps(rng: &mut Rng, focus: &[u32]) -> Re {
    let small = |rng: &mut Rng| -> Re { if rng.chance(1, 2) { rand_cls(rng, focus) } else { Re::Lit(vec![pick_sym(rng, focus)]) } };
    let rep = |rng: &mut Rng| -> Re { let a = Box::new(small(rng)); rand_rep(rng, a) };
    let branch = |rng: &mut Rng| -> Re {
        match rng.below(5) {
            0 => Re::Seq(Box::new(small(rng)), Box::new(rep(rng))),                       // x y{m,n}
            1 => Re::Seq(Box::new(rep(rng)), Box::new(small(rng))),                       // y{m,n} x
            2 => Re::Seq(Box::new(small(rng)), Box::new(Re::Seq(Box::new(rep(rng)), Box::new(small(rng))))),
            3 => Re::Seq(Box::new(small(rng)), Box::new(Re::Seq(Box::new(rep(rng)), Box::new(rep(rng))))),
            _ => Re::Lit((0..rng.range(1, 2)).map(|_| pick_sym(rng, focus)).collect()),
        }
    };
    let mut alt = branch(rng);
    for _ in 0..rng.range(1, 2) { alt = if rng.chance(1, 2) { Re::Alt(Box::new(alt), Box::new(branch(rng))) } else { Re::Alt(Box::new(branch(rng)), Box::new(alt)) }; }
    match rng.below(5) {
        0 => Re::Seq(Box::new(small(rng)), Box::new(alt)),                                  // x(a|b{..})
        1 => Re::Seq(Box::new(alt), Box::new(small(rng))),                                  // (a|b{..})x
        2 => Re::Plus(Box::new(alt)),
        3 => { let inner = Box::new(alt); rand_rep(rng, inner) }                            // (a|b{..}){m,n}
        _ => alt,
    }
}

fn rand_set(rng: &mut Rng) -> TokSet {
    let n = rng.range(3, 7);
    let with_word = rng.chance(1, 3);
    let prec_mode = rng.below(3); // 0: all equal, 1: few different, 2: many different
    let mut toks: Vec<Tok> = Vec::new();
    let mut lits: Vec<Vec<u32>> = Vec::new();
    // most symbols come from a small focus set so that tokens overlap
    let focus: Vec<u32> = (0..rng.range(2, 3)).map(|_| *rng.pick(if with_word { &LETTERS[..] } else { &ALPHA[..] })).collect();
    while toks.len() < n {
        let prec = match prec_mode { 0 => 0, 1 => if rng.chance(1, 4) { 1 } else { 0 }, _ => *rng.pick(&[-1, 0, 0, 1, 2]) };
        if rng.chance(2, 5) {
            let v: Vec<u32> = (0..rng.range(1, 3)).map(|_| pick_sym(rng, &focus)).collect();
            if lits.contains(&v) { continue; }
            lits.push(v.clone());
            toks.push(Tok { prec, is_string: true, re: Re::Lit(v) });
        } else {
            let re = match rng.below(4) { 0 => rand_re_with_reps(rng, &focus), 1 => rand_re(rng, 3, &focus), _ => rand_re(rng, 2, &focus) };
            if re.nullable() { continue; }
            if let Re::Lit(v) = &re { if lits.contains(v) { continue; } lits.push(v.clone()); }
            toks.push(Tok { prec, is_string: false, re });
        }
    }
    // directed family for the precedence cut-off: x (high), x y z (high, keeps the DFA alive), x y+ (low)
    if !with_word && rng.chance(1, 5) {
        let (x, y, z) = (pick_sym(rng, &focus), pick_sym(rng, &focus), *rng.pick(&ALPHA));
        let hi = rng.range(1, 2) as i32;
        let fam = vec![
            Tok { prec: hi, is_string: rng.chance(1, 2), re: Re::Lit(vec![x]) },
            Tok { prec: hi - rng.below(2) as i32, is_string: true, re: Re::Lit(vec![x, y, z]) },
            Tok { prec: 0, is_string: false, re: Re::Seq(Box::new(Re::Lit(vec![x])), Box::new(Re::Plus(Box::new(Re::Lit(vec![y]))))) },
        ];
        for t in fam {
            if let Re::Lit(v) = &t.re { if lits.contains(v) { continue; } lits.push(v.clone()); }
            let at = rng.below(toks.len() + 1);
            toks.insert(at, t);
        }
    }
    // family: many one-character tokens (operators / punctuation) valid in the same state
    if rng.chance(1, 4) {
        let mut pool: Vec<u32> = ALPHA.to_vec();
        pool.extend(PUNCT);
        for i in (1..pool.len()).rev() { let j = rng.below(i + 1); pool.swap(i, j); }
        let k = rng.range(8, 12);
        for c in pool.into_iter().take(k) {
            let v = vec![c];
            if lits.contains(&v) { continue; }
            lits.push(v.clone());
            let at = rng.below(toks.len() + 1);
            let is_string = rng.chance(2, 3);
            toks.insert(at, Tok { prec: if prec_mode == 0 { 0 } else { *rng.pick(&[0, 0, 0, 1]) }, is_string, re: Re::Lit(v) });
        }
    }
    let extras = if rng.chance(1, 2) { 0 } else { rng.range(1, EXTRAS_SHAPES - 1) };
    let mut word = None;
    if with_word {
        let w = rng.below(toks.len() + 1);
        let re = Re::Seq(Box::new(Re::Cls(false, vec![(0x61, 0x64), (0xe9, 0xe9), (0x3bb, 0x3bb)])),
                         Box::new(Re::Star(Box::new(Re::Cls(false, vec![(0x61, 0x64), (0x30, 0x31), (0xe9, 0xe9), (0x3bb, 0x3bb)])))));
        toks.insert(w, Tok { prec: 0, is_string: false, re });
        word = Some(w);
    }
    TokSet { word, extras, toks }
}

/// leaves of an error-free tree as `tok:start:end` in CHARACTER offsets, or "E"
fn real_tokens(parser: &mut Parser, cps: &[u32]) -> String {
    let text: String = cps.iter().map(|c| char::from_u32(*c).unwrap()).collect();
    let mut byte_to_char = vec![0usize; text.len() + 1];
    let mut k = 0;
    for (ci, (bi, ch)) in text.char_indices().enumerate() {
        for j in 0..ch.len_utf8() { byte_to_char[bi + j] = ci; }
        k = ci + 1;
    }
    byte_to_char[text.len()] = k;
    let tree = match parser.parse(text.as_bytes(), None) { Some(t) => t, None => return "E".into() };
    let root = tree.root_node();
    if root.has_error() { return "E".into(); }
    let mut out = Vec::new();
    let mut cur = root.walk();
    if cur.goto_first_child() {
        loop {
            let n = cur.node();
            let kind = n.kind();
            if n.child_count() == 0 && kind.starts_with('t') {
                out.push(format!("{}:{}:{}", &kind[1..], byte_to_char[n.start_byte()], byte_to_char[n.end_byte()]));
            }
            if !cur.goto_next_sibling() { break; }
        }
    }
    if out.is_empty() { "-".into() } else { out.join(",") }
}

fn cps_hex(cps: &[u32]) -> String {
    if cps.is_empty() { "-".into() } else { cps.iter().map(|c| format!("{c:x}")).collect::<Vec<_>>().join(".") }
}

fn parse_cps(s: &str) -> Vec<u32> {
    if s == "-" { vec![] } else { s.split('.').map(|x| u32::from_str_radix(x, 16).unwrap()).collect() }
}

/// tokens a generated lex function can accept, read off parser.c
fn accepted_in(parser_c: &str, func: &str) -> Vec<usize> {
    let mut v = Vec::new();
    if let Some(i) = parser_c.find(&format!("static bool {func}(")) {
        let body = &parser_c[i..];
        let end = body.find("\n}\n").unwrap_or(body.len());
        let mut rest = &body[..end];
        while let Some(j) = rest.find("ACCEPT_TOKEN(sym_t") {
            let tail = &rest[j + 18..];
            let n: String = tail.chars().take_while(|c| c.is_ascii_digit()).collect();
            if let Ok(k) = n.parse() { v.push(k); }
            rest = tail;
        }
    }
    v.sort();
    v.dedup();
    v
}

/// (keyword tokens, tokens accepted by neither lexer).  With a word token the generator moves the
/// keyword tokens from `ts_lex` into `ts_lex_keywords`; a token accepted by neither function cannot
/// be classified from the generated code and makes the set ambiguous (skipped by the driver).
fn keyword_sets(parser_c: &str, ts: &TokSet) -> (Vec<usize>, Vec<usize>) {
    if ts.word.is_none() { return (vec![], vec![]); }
    let main = accepted_in(parser_c, "ts_lex");
    let kws = accepted_in(parser_c, "ts_lex_keywords");
    let ambig = (0..ts.toks.len()).filter(|i| !main.contains(i) && !kws.contains(i)).collect();
    (kws, ambig)
}

fn run_set(out: &mut impl Write, id: &str, ts: &TokSet, strings: &mut dyn FnMut(&mut dyn FnMut(&[u32]))) -> Result<usize, String> {
    let name = format!("c14_{}", id.replace('-', "_"));
    let b = zoo::build_from_json(&ts.grammar(&name), None, tree_sitter_generate::OptLevel::default())?;
    let mut parser = Parser::new();
    parser.set_language(&b.language).map_err(|e| e.to_string())?;
    let (kws, ambig) = keyword_sets(&b.parser_c, ts);
    writeln!(out, "set {id} {}", ts.ser()).unwrap();
    writeln!(out, "kw {}", if kws.is_empty() { "-".to_string() } else { kws.iter().map(|k| k.to_string()).collect::<Vec<_>>().join(",") }).unwrap();
    writeln!(out, "ambig {}", if ambig.is_empty() { "-".to_string() } else { ambig.iter().map(|k| k.to_string()).collect::<Vec<_>>().join(",") }).unwrap();
    let mut n = 0usize;
    strings(&mut |cps: &[u32]| {
        let r = real_tokens(&mut parser, cps);
        writeln!(out, "s {} {r}", cps_hex(cps)).unwrap();
        n += 1;
    });
    writeln!(out, "endset {id}").unwrap();
    Ok(n)
}

fn main() {
    limit_resources();
    let args: Vec<String> = std::env::args().collect();
    let out_path = args.get(1).expect("usage: c14 <ops-file> [--spec file]").clone();
    let mut out = std::io::BufWriter::new(std::fs::File::create(&out_path).unwrap());
    let run_specs = |text: &str, prefix: &str, out: &mut std::io::BufWriter<std::fs::File>| {
        for (i, line) in text.lines().enumerate() {
            let line = line.trim();
            if line.is_empty() || line.starts_with('#') { continue; }
            let parts: Vec<&str> = line.split_whitespace().collect();
            let ts = TokSet::parse(parts[0]);
            let strs: Vec<Vec<u32>> = parts[1..].iter().map(|s| parse_cps(s)).collect();
            let id = format!("{prefix}{i}");
            if let Err(e) = run_set(out, &id, &ts, &mut |f| { for s in &strs { f(s); } }) {
                writeln!(out, "skip {id} {}", e.replace('\n', " ")).unwrap();
            }
        }
    };
    if args.get(2).map(|s| s == "--spec").unwrap_or(false) {
        run_specs(&std::fs::read_to_string(&args[3]).unwrap(), "r", &mut out);
        out.flush().unwrap();
        eprintln!("c14: replayed");
        return;
    }
    if let Some(c) = zoo_corpus("c14") { run_specs(&c, "c", &mut out); }
    let mut rng = Rng::new(seed_from_env());
    let thorough = tier_is_thorough();
    let (n_sets, full_len, n_len_next, n_long) = if thorough { (160, 5, 6000, 600) } else { (60, 4, 1500, 250) };
    let mut syms: Vec<u32> = ALPHA.to_vec();
    syms.extend([0x20, 0x20, 0x20, 0x0a, 0x09]);
    syms.extend(PUNCT);
    let mut enum_syms: Vec<u32> = ALPHA.to_vec();
    enum_syms.push(0x20);
    let (mut built, mut rejected, mut total) = (0usize, 0usize, 0usize);
    for k in 0..n_sets {
        let mut srng = rng.fork();
        let ts = rand_set(&mut srng);
        let id = format!("{}-{k}", seed_from_env() % 100000);
        let mut gen = |f: &mut dyn FnMut(&[u32])| {
            // every string up to `full_len` over the 8 alphabet symbols and the blank
            let mut s: Vec<u32> = Vec::new();
            fn rec(s: &mut Vec<u32>, left: usize, syms: &[u32], f: &mut dyn FnMut(&[u32])) {
                f(s);
                if left == 0 { return; }
                for c in syms { s.push(*c); rec(s, left - 1, syms, f); s.pop(); }
            }
            rec(&mut s, full_len, &enum_syms, f);
            // random strings of the next length, and longer ones with spaces
            for _ in 0..n_len_next { let v: Vec<u32> = (0..full_len + 1).map(|_| *srng.pick(&enum_syms)).collect(); f(&v); }
            for _ in 0..n_long { let len = srng.range(6, 40); let v: Vec<u32> = (0..len).map(|_| *srng.pick(&syms)).collect(); f(&v); }
        };
        match run_set(&mut out, &id, &ts, &mut gen) {
            Ok(n) => { built += 1; total += n; }
            Err(e) => { rejected += 1; writeln!(out, "skip {id} {} {}", ts.ser(), e.replace('\n', " ").chars().take(160).collect::<String>()).unwrap(); }
        }
    }
    out.flush().unwrap();
    eprintln!("c14: {built} token sets built, {rejected} rejected by the generator, {total} strings");
}
