//! C14 explorer: random token sets → "token soup" grammar → REAL generator + REAL parser; prints for
//! every input string the leaf sequence of the real parse (or `E` when the tree has an error).
//! usage: c14 <ops-file> [--spec <file>]
//! spec line: `<tokenset> <codepoints-hex-list | ->`   tokenset = `w<idx|->x<extras shape> ; prec,isString,AST ; …` without spaces
//! AST: L61.62 literal | C0:61-63:30-30 class (1 = negated) | S(a,b) | A(a,b) | K(a) star | P(a) plus | O(a) opt | R2.3(a)
//!      Z(p~a/q~b) = choice(prec(p,a), prec(q,b)) (one member: prec(p,a)); at the top of a token or, since round 11b, anywhere under S/A/K/P/O
use serde_json::{json, Value};
use std::io::Write;
use tree_sitter::Parser;
use tsv_harness::*;

const ALPHA: [u32; 8] = [0x61, 0x62, 0x63, 0x64, 0x30, 0x31, 0xe9, 0x3bb];
const LETTERS: [u32; 6] = [0x61, 0x62, 0x63, 0x64, 0xe9, 0x3bb];

#[derive(Clone, Debug)]
enum Re {
    Lit(Vec<u32>),
    Cls(bool, Vec<(u32, u32)>),
    Seq(Box<Re>, Box<Re>),
    Alt(Box<Re>, Box<Re>),
    Star(Box<Re>),
    Plus(Box<Re>),
    Opt(Box<Re>),
    Rep(usize, usize, Box<Re>),
    /// precedence inside a token: `choice(prec(p1, r1), prec(p2, r2), …)` (only at the top of a token)
    Alts(Vec<(i32, Re)>),
    /// Unicode property class `\\p{NAME}` (L, Lu, Ll, Nd, P)
    Prop(&'static str),
    /// inline flag directive `(?i)` (true) / `(?-i)` (false): in effect up to the end of the enclosing group
    Flag(bool),
    /// an explicit group: 0 `( )`, 1 `(?P<name> )`, 2 `(?: )`, 3 `(?i: )`, 4 `(?-i: )`; flags set inside end with it
    Group(u8, Box<Re>),
}

fn esc(c: u32) -> String {
    if c == 0x0a { return "\\n".into(); }
    if c == 0x09 { return "\\t".into(); }
    let ch = char::from_u32(c).unwrap();
    if "\\^$.|?*+()[]{}-/".contains(ch) { format!("\\{ch}") } else { ch.to_string() }
}

impl Re {
    /// can a match begin with the white-space character `c`?  (negated classes are rendered with `\\s` excluded)
    fn can_start(&self, c: u32) -> bool {
        match self {
            Re::Lit(v) => v.first() == Some(&c),
            Re::Cls(neg, rs) => !*neg && rs.iter().any(|(a, b)| *a <= c && c <= *b),
            Re::Seq(a, b) => a.can_start(c) || (a.nullable() && b.can_start(c)),
            Re::Alt(a, b) => a.can_start(c) || b.can_start(c),
            Re::Star(a) | Re::Plus(a) | Re::Opt(a) => a.can_start(c),
            Re::Rep(_, n, a) => *n > 0 && a.can_start(c),
            Re::Alts(v) => v.iter().any(|(_, r)| r.can_start(c)),
            Re::Prop(_) | Re::Flag(_) => false,
            Re::Group(_, a) => a.can_start(c),
        }
    }
    fn nullable(&self) -> bool {
        match self {
            Re::Lit(v) => v.is_empty(),
            Re::Cls(..) => false,
            Re::Seq(a, b) => a.nullable() && b.nullable(),
            Re::Alt(a, b) => a.nullable() || b.nullable(),
            Re::Star(_) | Re::Opt(_) => true,
            Re::Plus(a) => a.nullable(),
            Re::Rep(m, _, a) => *m == 0 || a.nullable(),
            Re::Alts(v) => v.iter().any(|(_, r)| r.nullable()),
            Re::Prop(_) => false,
            Re::Flag(_) => true,
            Re::Group(_, a) => a.nullable(),
        }
    }
    /// the same language without inline flags and explicit groups: the flag is resolved with the scoping the
    /// regex syntax documents (a directive holds up to the end of the enclosing group, of ANY kind; it carries from one
    /// alternation branch into the next), case-insensitive leaves become classes with both cases
    fn resolve(&self, ci: &mut bool) -> Re {
        fn other_case(c: u32) -> Option<u32> {
            match c { 0x61..=0x7a => Some(c - 0x20), 0x41..=0x5a => Some(c + 0x20), 0xe9 => Some(0xc9), 0xc9 => Some(0xe9), 0x3bb => Some(0x39b), 0x39b => Some(0x3bb), _ => None }
        }
        match self {
            Re::Lit(v) => {
                if !*ci || v.iter().all(|c| other_case(*c).is_none()) { return self.clone(); }
                let mut parts: Vec<Re> = v.iter().map(|c| match other_case(*c) { Some(o) => Re::Cls(false, vec![(*c, *c), (o, o)]), None => Re::Lit(vec![*c]) }).collect();
                let mut acc = parts.pop().unwrap();
                while let Some(p) = parts.pop() { acc = Re::Seq(Box::new(p), Box::new(acc)); }
                acc
            }
            Re::Cls(neg, rs) => {
                if !*ci { return self.clone(); }
                let mut out = rs.clone();
                for (lo, hi) in rs { if hi - lo < 64 { for c in *lo..=*hi { if let Some(o) = other_case(c) { out.push((o, o)); } } } }
                Re::Cls(*neg, out)
            }
            Re::Seq(a, b) => { let ra = a.resolve(ci); let rb = b.resolve(ci); Re::Seq(Box::new(ra), Box::new(rb)) }
            Re::Alt(a, b) => { let ra = a.resolve(ci); let rb = b.resolve(ci); Re::Alt(Box::new(ra), Box::new(rb)) }
            Re::Star(a) => Re::Star(Box::new(a.resolve(&mut ci.clone()))),
            Re::Plus(a) => Re::Plus(Box::new(a.resolve(&mut ci.clone()))),
            Re::Opt(a) => Re::Opt(Box::new(a.resolve(&mut ci.clone()))),
            Re::Rep(m, n, a) => Re::Rep(*m, *n, Box::new(a.resolve(&mut ci.clone()))),
            Re::Alts(v) => Re::Alts(v.iter().map(|(p, r)| (*p, r.resolve(&mut ci.clone()))).collect()),
            Re::Prop(_) => self.clone(),
            Re::Flag(b) => { *ci = *b; Re::Lit(vec![]) }
            Re::Group(k, a) => {
                let mut inner = match k { 3 => true, 4 => false, _ => *ci };
                a.resolve(&mut inner)
            }
        }
    }
    fn has_flags(&self) -> bool { let s = self.ser(); s.contains('F') || s.contains('G') }
    fn atom(&self) -> String {
        match self {
            Re::Cls(..) | Re::Prop(_) | Re::Group(..) => self.pattern(),
            Re::Lit(v) if v.len() == 1 => self.pattern(),
            _ => format!("({})", self.pattern()),
        }
    }
    fn pattern(&self) -> String {
        match self {
            Re::Lit(v) => v.iter().map(|c| esc(*c)).collect(),
            Re::Cls(neg, rs) => {
                let mut s = String::from(if *neg { "[^" } else { "[" });
                for (lo, hi) in rs {
                    if lo == hi { s.push_str(&esc(*lo)); } else { s.push_str(&format!("{}-{}", esc(*lo), esc(*hi))); }
                }
                if *neg { s.push_str("\\s"); }
                s.push(']');
                s
            }
            Re::Seq(a, b) => format!("{}{}", a.seq_part(), b.seq_part()),
            Re::Alt(a, b) => format!("{}|{}", a.pattern(), b.pattern()),
            Re::Star(a) => format!("{}*", a.atom()),
            Re::Plus(a) => format!("{}+", a.atom()),
            Re::Opt(a) => format!("{}?", a.atom()),
            Re::Rep(m, n, a) => format!("{}{{{m},{n}}}", a.atom()),
            Re::Alts(v) => v.iter().map(|(_, r)| r.pattern()).collect::<Vec<_>>().join("|"),
            Re::Prop(n) => format!("\\p{{{n}}}"),
            Re::Flag(b) => if *b { "(?i)".into() } else { "(?-i)".into() },
            Re::Group(k, a) => {
                static NAMES: std::sync::atomic::AtomicUsize = std::sync::atomic::AtomicUsize::new(0);
                match k {
                    1 => format!("(?P<g{}>{})", NAMES.fetch_add(1, std::sync::atomic::Ordering::Relaxed), a.pattern()),
                    2 => format!("(?:{})", a.pattern()),
                    3 => format!("(?i:{})", a.pattern()),
                    4 => format!("(?-i:{})", a.pattern()),
                    _ => format!("({})", a.pattern()),
                }
            }
        }
    }
    fn seq_part(&self) -> String {
        match self { Re::Alt(..) | Re::Alts(..) => format!("({})", self.pattern()), _ => self.pattern() }
    }
    /// does a `prec` stand somewhere inside this expression?
    fn has_alts(&self) -> bool {
        match self {
            Re::Alts(_) => true,
            Re::Seq(a, b) | Re::Alt(a, b) => a.has_alts() || b.has_alts(),
            Re::Star(a) | Re::Plus(a) | Re::Opt(a) | Re::Rep(_, _, a) | Re::Group(_, a) => a.has_alts(),
            _ => false,
        }
    }
    /// grammar rule of an expression with precedences inside (round 11b): SEQ / CHOICE / REPEAT / PREC around PATTERN leaves
    fn to_rule(&self) -> Value {
        if !self.has_alts() {
            if let Re::Lit(v) = self { if v.is_empty() { return json!({"type":"BLANK"}); } }
            return json!({"type":"PATTERN","value": self.pattern()});
        }
        match self {
            Re::Alts(v) => {
                let ms: Vec<Value> = v.iter().map(|(p, r)| json!({"type":"PREC","value":p,"content":r.to_rule()})).collect();
                if ms.len() == 1 { ms.into_iter().next().unwrap() } else { json!({"type":"CHOICE","members":ms}) }
            }
            Re::Seq(a, b) => json!({"type":"SEQ","members":[a.to_rule(), b.to_rule()]}),
            Re::Alt(a, b) => json!({"type":"CHOICE","members":[a.to_rule(), b.to_rule()]}),
            Re::Opt(a) => json!({"type":"CHOICE","members":[a.to_rule(), {"type":"BLANK"}]}),
            Re::Plus(a) => json!({"type":"REPEAT1","content":a.to_rule()}),
            Re::Star(a) => json!({"type":"REPEAT","content":a.to_rule()}),
            _ => panic!("precedence inside a counted repetition / group is not generated"),
        }
    }
    fn ser(&self) -> String {
        match self {
            Re::Lit(v) => format!("L{}", v.iter().map(|c| format!("{c:x}")).collect::<Vec<_>>().join(".")),
            Re::Cls(neg, rs) => format!("C{}{}", *neg as u8, rs.iter().map(|(a, b)| format!(":{a:x}-{b:x}")).collect::<String>()),
            Re::Seq(a, b) => format!("S({},{})", a.ser(), b.ser()),
            Re::Alt(a, b) => format!("A({},{})", a.ser(), b.ser()),
            Re::Star(a) => format!("K({})", a.ser()),
            Re::Plus(a) => format!("P({})", a.ser()),
            Re::Opt(a) => format!("O({})", a.ser()),
            Re::Rep(m, n, a) => format!("R{m}.{n}({})", a.ser()),
            Re::Alts(v) => format!("Z({})", v.iter().map(|(p, r)| format!("{p}~{}", r.ser())).collect::<Vec<_>>().join("/")),
            Re::Prop(n) => format!("U{n}."),
            Re::Flag(b) => format!("F{}", *b as u8),
            Re::Group(k, a) => format!("G{k}({})", a.ser()),
        }
    }
}

fn parse_re(s: &[u8], i: &mut usize) -> Re {
    let c = s[*i];
    *i += 1;
    let num = |s: &[u8], i: &mut usize, radix: u32| -> u32 {
        let st = *i;
        while *i < s.len() && (s[*i] as char).is_digit(radix) { *i += 1; }
        u32::from_str_radix(std::str::from_utf8(&s[st..*i]).unwrap(), radix).unwrap_or(0)
    };
    match c {
        b'L' => {
            let mut v = Vec::new();
            loop {
                if *i < s.len() && (s[*i] as char).is_ascii_hexdigit() { v.push(num(s, i, 16)); }
                if *i < s.len() && s[*i] == b'.' { *i += 1; } else { break; }
            }
            Re::Lit(v)
        }
        b'C' => {
            let neg = s[*i] == b'1';
            *i += 1;
            let mut rs = Vec::new();
            while *i < s.len() && s[*i] == b':' {
                *i += 1;
                let a = num(s, i, 16);
                *i += 1;
                let b = num(s, i, 16);
                rs.push((a, b));
            }
            Re::Cls(neg, rs)
        }
        b'S' | b'A' => {
            *i += 1;
            let a = parse_re(s, i);
            *i += 1;
            let b = parse_re(s, i);
            *i += 1;
            if c == b'S' { Re::Seq(Box::new(a), Box::new(b)) } else { Re::Alt(Box::new(a), Box::new(b)) }
        }
        b'K' | b'P' | b'O' => {
            *i += 1;
            let a = parse_re(s, i);
            *i += 1;
            match c { b'K' => Re::Star(Box::new(a)), b'P' => Re::Plus(Box::new(a)), _ => Re::Opt(Box::new(a)) }
        }
        b'F' => { let b = s[*i] == b'1'; *i += 1; Re::Flag(b) }
        b'G' => {
            let k = s[*i] - b'0';
            *i += 2;
            let a = parse_re(s, i);
            *i += 1;
            Re::Group(k, Box::new(a))
        }
        b'U' => {
            let st = *i;
            while s[*i] != b'.' { *i += 1; }
            let name = std::str::from_utf8(&s[st..*i]).unwrap();
            *i += 1;
            Re::Prop(match name { "L" => "L", "Lu" => "Lu", "Ll" => "Ll", "Nd" => "Nd", _ => "P" })
        }
        b'Z' => {
            *i += 1;
            let mut v = Vec::new();
            loop {
                let st = *i;
                while s[*i] != b'~' { *i += 1; }
                let p: i32 = std::str::from_utf8(&s[st..*i]).unwrap().parse().unwrap();
                *i += 1;
                let r = parse_re(s, i);
                v.push((p, r));
                if s[*i] == b'/' { *i += 1; } else { break; }
            }
            *i += 1;
            Re::Alts(v)
        }
        b'R' => {
            let m = num(s, i, 10) as usize;
            *i += 1;
            let n = num(s, i, 10) as usize;
            *i += 1;
            let a = parse_re(s, i);
            *i += 1;
            Re::Rep(m, n, Box::new(a))
        }
        _ => panic!("bad regex serialisation"),
    }
}

#[derive(Clone, Debug)]
struct Tok { prec: i32, is_string: bool, re: Re, immediate: bool, ci: bool }

#[derive(Clone, Debug)]
struct TokSet { word: Option<usize>, extras: usize, toks: Vec<Tok> }

/// extras shapes: 0 /\\s/ | 1 /[ \\n]/ | 2 / / | 3 / / and /\\n/ (two extras) | 4 /[ \\t]/
const EXTRAS_SHAPES: usize = 5;
const PUNCT: [u32; 7] = [0x2b, 0x2d, 0x28, 0x29, 0x3b, 0x2c, 0x1f600];
/// nine pairwise non-adjacent code points: a class over them has 9 ranges (large character set)
const WIDE: [u32; 9] = [0x28, 0x2b, 0x2d, 0x30, 0x3b, 0x61, 0x63, 0xe9, 0x3bb];

fn extras_chars(shape: usize) -> Vec<u32> {
    match shape { 1 | 3 => vec![0x20, 0x0a], 2 => vec![0x20], 4 => vec![0x20, 0x09], _ => vec![0x20, 0x0a, 0x09] }
}

impl TokSet {
    /// the extras characters some token can begin with (line-break tokens next to white-space extras)
    fn overlap_chars(&self) -> Vec<u32> {
        extras_chars(self.extras).into_iter().filter(|c| self.toks.iter().any(|t| t.re.can_start(*c))).collect()
    }
    fn ser(&self) -> String {
        let mut s = format!("w{}x{}", self.word.map(|w| w.to_string()).unwrap_or("-".into()), self.extras);
        for t in &self.toks { s.push_str(&format!(";{},{},{}", t.prec, t.is_string as u8 + 2 * t.immediate as u8 + 4 * t.ci as u8, t.re.ser())); }
        s
    }
    fn parse(s: &str) -> TokSet {
        let mut parts = s.split(';');
        let w = parts.next().unwrap();
        let (wpart, xpart) = match w.find('x') { Some(i) => (&w[1..i], &w[i + 1..]), None => (&w[1..], "0") };
        let word = wpart.parse().ok();
        let extras = xpart.parse().unwrap_or(0);
        let toks = parts.map(|p| {
            let mut f = p.splitn(3, ',');
            let prec = f.next().unwrap().parse().unwrap();
            let flags: u8 = f.next().unwrap().parse().unwrap_or(0);
            let is_string = flags & 1 == 1;
            let mut i = 0;
            let re = parse_re(f.next().unwrap().as_bytes(), &mut i);
            Tok { prec, is_string, re, immediate: flags & 2 == 2, ci: flags & 4 == 4 }
        }).collect();
        TokSet { word, extras, toks }
    }
    fn grammar(&self, name: &str) -> String {
        let mut rules = serde_json::Map::new();
        let members: Vec<Value> = (0..self.toks.len()).map(|i| json!({"type":"SYMBOL","name":format!("t{i}")})).collect();
        rules.insert("source".into(), json!({"type":"REPEAT","content":{"type":"CHOICE","members":members}}));
        for (i, t) in self.toks.iter().enumerate() {
            let inner = if t.is_string {
                let Re::Lit(v) = &t.re else { panic!() };
                json!({"type":"STRING","value": v.iter().map(|c| char::from_u32(*c).unwrap()).collect::<String>()})
            } else if let Re::Alts(v) = &t.re {
                json!({"type":"CHOICE","members": v.iter().map(|(p, r)| json!({"type":"PREC","value":p,"content":{"type":"PATTERN","value":r.pattern()}})).collect::<Vec<_>>()})
            } else if t.re.has_alts() {
                t.re.to_rule()
            } else if t.ci {
                json!({"type":"PATTERN","value": t.re.pattern(), "flags": "i"})
            } else {
                json!({"type":"PATTERN","value": t.re.pattern()})
            };
            rules.insert(format!("t{i}"), json!({"type": if t.immediate { "IMMEDIATE_TOKEN" } else { "TOKEN" },"content":{"type":"PREC","value":t.prec,"content":inner}}));
        }
        let pat = |p: &str| json!({"type":"PATTERN","value":p});
        let extras: Vec<Value> = match self.extras {
            1 => vec![pat("[ \\n]")],
            2 => vec![pat(" ")],
            3 => vec![pat(" "), pat("\\n")],
            4 => vec![pat("[ \\t]")],
            _ => vec![pat("\\s")],
        };
        let mut g = json!({"name": name, "rules": Value::Object(rules), "extras": extras,
            "conflicts": [], "precedences": [], "externals": [], "inline": [], "supertypes": []});
        if let Some(w) = self.word { g["word"] = json!(format!("t{w}")); }
        serde_json::to_string(&g).unwrap()
    }
}

fn pick_sym(rng: &mut Rng, focus: &[u32]) -> u32 {
    if rng.chance(3, 4) { *rng.pick(focus) } else { *rng.pick(&ALPHA) }
}

fn rand_cls(rng: &mut Rng, focus: &[u32]) -> Re {
    let neg = rng.chance(1, 5);
    let mut rs = Vec::new();
    for _ in 0..rng.range(1, 2) {
        match rng.below(5) {
            0 => rs.push((0x61, 0x61 + rng.below(4) as u32)),
            1 => rs.push((0x30, 0x31)),
            _ => { let c = pick_sym(rng, focus); rs.push((c, c)); }
        }
    }
    Re::Cls(neg, rs)
}

fn rand_re(rng: &mut Rng, depth: usize, focus: &[u32]) -> Re {
    if depth == 0 || rng.chance(1, 3) {
        return if rng.chance(1, 2) { rand_cls(rng, focus) } else { Re::Lit((0..rng.range(1, 2)).map(|_| pick_sym(rng, focus)).collect()) };
    }
    let a = Box::new(rand_re(rng, depth - 1, focus));
    match rng.below(7) {
        0 | 1 => Re::Seq(a, Box::new(rand_re(rng, depth - 1, focus))),
        2 => Re::Alt(a, Box::new(rand_re(rng, depth - 1, focus))),
        3 => Re::Star(a),
        4 => Re::Plus(a),
        5 => Re::Opt(a),
        _ => rand_rep(rng, a),
    }
}

/// counted repetition `{m,n}`, n >= 1, lower bound 0 in half of the cases
fn rand_rep(rng: &mut Rng, a: Box<Re>) -> Re {
    let m = if rng.chance(1, 2) { 0 } else { rng.range(1, 2) };
    Re::Rep(m, (m + rng.below(3)).max(1), a)
}

/// counted repetitions in every syntactic position: at the end / start / middle of alternatives
/// (first or later), nested in groups, under `* + ?`
fn rand_re_with_reps(rng: &mut Rng, focus: &[u32]) -> Re {
    let small = |rng: &mut Rng| -> Re { if rng.chance(1, 2) { rand_cls(rng, focus) } else { Re::Lit(vec![pick_sym(rng, focus)]) } };
    let rep = |rng: &mut Rng| -> Re { let a = Box::new(small(rng)); rand_rep(rng, a) };
    let branch = |rng: &mut Rng| -> Re {
        match rng.below(5) {
            0 => Re::Seq(Box::new(small(rng)), Box::new(rep(rng))),                       // x y{m,n}
            1 => Re::Seq(Box::new(rep(rng)), Box::new(small(rng))),                       // y{m,n} x
            2 => Re::Seq(Box::new(small(rng)), Box::new(Re::Seq(Box::new(rep(rng)), Box::new(small(rng))))),
            3 => Re::Seq(Box::new(small(rng)), Box::new(Re::Seq(Box::new(rep(rng)), Box::new(rep(rng))))),
            _ => Re::Lit((0..rng.range(1, 2)).map(|_| pick_sym(rng, focus)).collect()),
        }
    };
    let mut alt = branch(rng);
    for _ in 0..rng.range(1, 2) { alt = if rng.chance(1, 2) { Re::Alt(Box::new(alt), Box::new(branch(rng))) } else { Re::Alt(Box::new(branch(rng)), Box::new(alt)) }; }
    match rng.below(5) {
        0 => Re::Seq(Box::new(small(rng)), Box::new(alt)),                                  // x(a|b{..})
        1 => Re::Seq(Box::new(alt), Box::new(small(rng))),                                  // (a|b{..})x
        2 => Re::Plus(Box::new(alt)),
        3 => { let inner = Box::new(alt); rand_rep(rng, inner) }                            // (a|b{..}){m,n}
        _ => alt,
    }
}

/// a pattern with INLINE FLAG DIRECTIVES `(?i)` / `(?-i)` at top level and inside capturing, named, non-capturing and
/// flag groups, with pattern text after the groups: a chain of letters, small letter classes, directives and groups
fn rand_flagged(rng: &mut Rng, depth: usize) -> Re {
    let mut items: Vec<Re> = Vec::new();
    let n = rng.range(2, 4);
    for _ in 0..n {
        items.push(match rng.below(8) {
            0 | 1 => Re::Flag(rng.chance(2, 3)),
            2 | 3 if depth < 2 => {
                let mut inner = rand_flagged(rng, depth + 1);
                // often a bare directive directly inside the group, before or after its first element
                if rng.chance(1, 2) {
                    let f = Re::Flag(rng.chance(2, 3));
                    inner = if rng.chance(1, 2) { Re::Seq(Box::new(f), Box::new(inner)) }
                            else if let Re::Seq(a, b) = inner { Re::Seq(a, Box::new(Re::Seq(Box::new(f), b))) } else { Re::Seq(Box::new(f), Box::new(inner)) };
                }
                let g = Re::Group(*rng.pick(&[0u8, 0, 1, 1, 2, 3, 4]), Box::new(inner));
                if rng.chance(1, 5) { Re::Opt(Box::new(g)) } else { g }
            }
            4 => Re::Cls(false, vec![(0x61, 0x61 + rng.below(3) as u32)]),
            _ => Re::Lit((0..rng.range(1, 2)).map(|_| *rng.pick(&[0x61u32, 0x62, 0x63, 0x64, 0xe9])).collect()),
        });
    }
    // text after everything, so that a directive that leaks out of a group is observable
    items.push(Re::Lit(vec![*rng.pick(&[0x61u32, 0x62, 0x63, 0x64])]));
    let mut acc = items.pop().unwrap();
    while let Some(p) = items.pop() { acc = Re::Seq(Box::new(p), Box::new(acc)); }
    acc
}

fn rand_set(rng: &mut Rng) -> TokSet {
    let n = rng.range(3, 7);
    let with_word = rng.chance(1, 3);
    let prec_mode = rng.below(3); // 0: all equal, 1: few different, 2: many different
    let mut toks: Vec<Tok> = Vec::new();
    let mut lits: Vec<Vec<u32>> = Vec::new();
    // most symbols come from a small focus set so that tokens overlap
    let focus: Vec<u32> = (0..rng.range(2, 3)).map(|_| *rng.pick(if with_word { &LETTERS[..] } else { &ALPHA[..] })).collect();
    while toks.len() < n {
        let prec = match prec_mode { 0 => 0, 1 => if rng.chance(1, 4) { 1 } else { 0 }, _ => *rng.pick(&[-1, 0, 0, 1, 2]) };
        if rng.chance(2, 5) {
            let mut v: Vec<u32> = (0..rng.range(1, 3)).map(|_| pick_sym(rng, &focus)).collect();
            // tokens that contain an extras-like character (a blank inside, never at the ends)
            if !with_word && v.len() >= 2 && rng.chance(1, 6) { v.insert(1, 0x20); }
            if lits.contains(&v) { continue; }
            lits.push(v.clone());
            toks.push(Tok { prec, is_string: true, re: Re::Lit(v), immediate: false, ci: false });
        } else {
            let re = match rng.below(4) { 0 => rand_re_with_reps(rng, &focus), 1 => rand_re(rng, 3, &focus), _ => rand_re(rng, 2, &focus) };
            if re.nullable() || toks.iter().any(|t| t.re.ser() == re.ser()) { continue; }
            if let Re::Lit(v) = &re { if lits.contains(v) { continue; } lits.push(v.clone()); }
            toks.push(Tok { prec, is_string: false, re, immediate: false, ci: false });
        }
    }
    // directed family for the precedence cut-off: x (high), x y z (high, keeps the DFA alive), x y+ (low)
    if !with_word && rng.chance(1, 5) {
        let (x, y, z) = (pick_sym(rng, &focus), pick_sym(rng, &focus), *rng.pick(&ALPHA));
        let hi = rng.range(1, 2) as i32;
        let fam = vec![
            Tok { prec: hi, is_string: rng.chance(1, 2), re: Re::Lit(vec![x]), immediate: false, ci: false },
            Tok { prec: hi - rng.below(2) as i32, is_string: true, re: Re::Lit(vec![x, y, z]), immediate: false, ci: false },
            Tok { prec: 0, is_string: false, re: Re::Seq(Box::new(Re::Lit(vec![x])), Box::new(Re::Plus(Box::new(Re::Lit(vec![y]))))), immediate: false, ci: false },
        ];
        for t in fam {
            if let Re::Lit(v) = &t.re { if lits.contains(v) { continue; } lits.push(v.clone()); }
            let at = rng.below(toks.len() + 1);
            toks.insert(at, t);
        }
    }
    // family: many one-character tokens (operators / punctuation) valid in the same state
    if rng.chance(1, 4) {
        let mut pool: Vec<u32> = ALPHA.to_vec();
        pool.extend(PUNCT);
        for i in (1..pool.len()).rev() { let j = rng.below(i + 1); pool.swap(i, j); }
        let k = rng.range(8, 12);
        for c in pool.into_iter().take(k) {
            let v = vec![c];
            if lits.contains(&v) { continue; }
            lits.push(v.clone());
            let at = rng.below(toks.len() + 1);
            let is_string = rng.chance(2, 3);
            toks.insert(at, Tok { prec: if prec_mode == 0 { 0 } else { *rng.pick(&[0, 0, 0, 1]) }, is_string, re: Re::Lit(v), immediate: false, ci: false });
        }
    }
    // family: classes with >= 8 ranges, used by several tokens (rendered as large character sets)
    if !with_word && rng.chance(1, 5) {
        let wide = |neg: bool| Re::Cls(neg, WIDE.iter().map(|c| (*c, *c)).collect());
        let shapes: Vec<Re> = vec![
            Re::Plus(Box::new(wide(false))),
            Re::Seq(Box::new(Re::Lit(vec![pick_sym(rng, &focus)])), Box::new(wide(false))),
            Re::Seq(Box::new(wide(true)), Box::new(Re::Opt(Box::new(wide(false))))),
            Re::Seq(Box::new(wide(false)), Box::new(Re::Lit(vec![pick_sym(rng, &focus)]))),
        ];
        for _ in 0..rng.range(2, 3) {
            let re = rng.pick(&shapes).clone();
            if toks.iter().any(|t| t.re.ser() == re.ser()) { continue; }
            let at = rng.below(toks.len() + 1);
            toks.insert(at, Tok { prec: if prec_mode == 0 { 0 } else { *rng.pick(&[0, 0, 1]) }, is_string: false, re, immediate: false, ci: false });
        }
    }
    // Unicode property classes `\\p{L}`, `\\p{Lu}`, `\\p{Ll}`, `\\p{Nd}`, `\\p{P}` (alone, repeated, after / before a literal)
    if !with_word && rng.chance(1, 5) {
        for _ in 0..rng.range(1, 2) {
            let p = Re::Prop(*rng.pick(&["L", "Lu", "Ll", "Nd", "P"]));
            let re = match rng.below(4) {
                0 => Re::Plus(Box::new(p)),
                1 => Re::Seq(Box::new(Re::Lit(vec![pick_sym(rng, &focus)])), Box::new(p)),
                2 => Re::Seq(Box::new(p), Box::new(Re::Opt(Box::new(Re::Lit(vec![pick_sym(rng, &focus)]))))),
                _ => p,
            };
            if toks.iter().any(|t| t.re.ser() == re.ser()) { continue; }
            let at = rng.below(toks.len() + 1);
            toks.insert(at, Tok { prec: if prec_mode == 0 { 0 } else { *rng.pick(&[0, 0, 1]) }, is_string: false, re, immediate: false, ci: false });
        }
    }
    // token identity: the SAME regex source with different flags (case-insensitive `i`) are different tokens
    if !with_word && rng.chance(1, 4) {
        let has_letter = |t: &Tok| { let s = t.re.ser(); ["61", "62", "63", "64", "e9", "3bb"].iter().any(|h| s.contains(h)) };
        for _ in 0..rng.range(1, 2) {
            let cands: Vec<usize> = (0..toks.len()).filter(|i| !toks[*i].is_string && !toks[*i].re.has_alts() && has_letter(&toks[*i])).collect();
            if cands.is_empty() { break; }
            let i = *rng.pick(&cands);
            match rng.below(3) {
                0 => toks[i].ci = true,
                _ => {
                    // a copy of token i that differs ONLY in the flag, anywhere in the rule order
                    if toks.iter().any(|t| t.re.ser() == toks[i].re.ser() && t.ci != toks[i].ci) { continue; }
                    let mut copy = toks[i].clone();
                    copy.ci = !copy.ci;
                    if rng.chance(1, 3) { copy.prec = *rng.pick(&[0, 1]); }
                    let at = rng.below(toks.len() + 1);
                    toks.insert(at, copy);
                }
            }
        }
    }
    // precedence INSIDE a token: token(prec(p0, choice(prec(p1, r1), prec(p2, r2), …)))
    if !with_word && rng.chance(1, 4) {
        for _ in 0..rng.range(1, 2) {
            let mut alts: Vec<(i32, Re)> = Vec::new();
            for _ in 0..rng.range(2, 3) {
                let r = if rng.chance(1, 2) { Re::Lit((0..rng.range(1, 3)).map(|_| pick_sym(rng, &focus)).collect()) } else { rand_re(rng, 2, &focus) };
                if r.nullable() || matches!(r, Re::Alts(_)) { continue; }
                alts.push((*rng.pick(&[-1, 0, 0, 1, 2]), r));
            }
            if alts.len() < 2 { continue; }
            let re = Re::Alts(alts);
            if toks.iter().any(|t| t.re.ser() == re.ser()) { continue; }
            let at = rng.below(toks.len() + 1);
            toks.insert(at, Tok { prec: *rng.pick(&[0, 0, 1]), is_string: false, re, immediate: false, ci: false });
        }
    }
    // inline flag directives and explicit groups
    if rng.chance(1, 2) {
        for _ in 0..rng.range(1, 3) {
            let re = rand_flagged(rng, 0);
            if re.nullable() || !re.has_flags() || toks.iter().any(|t| t.re.ser() == re.ser()) { continue; }
            let at = rng.below(toks.len() + 1);
            let p0 = toks[0].prec;
            toks.insert(at, Tok { prec: p0, is_string: false, re, immediate: false, ci: rng.chance(1, 6) });
        }
    }
    // immediate tokens (`token.immediate`): recognised only when no extras precede them
    if !with_word && rng.chance(1, 3) {
        for _ in 0..rng.range(1, 3) { let i = rng.below(toks.len()); toks[i].immediate = true; }
        // keep one ordinary token: with ONLY immediate tokens valid the lexer has no separator states at all
        // and does not even skip extras before the end of input
        if toks.iter().all(|t| t.immediate) { toks[0].immediate = false; }
    }
    // WELL-FORMEDNESS the generator must accept: no two rules are the SAME token (same text, wrapper, flags,
    // precedence, immediacy) — identical token rules are one token used by two rules, a genuine conflict
    { let mut seen: Vec<(String, bool, bool, i32, bool)> = Vec::new();
      toks.retain(|t| { let k = (t.re.ser(), t.is_string, t.ci, t.prec, t.immediate); if seen.contains(&k) { false } else { seen.push(k); true } }); }
    let extras = if rng.chance(1, 2) { 0 } else { rng.range(1, EXTRAS_SHAPES - 1) };
    // tokens made of characters that are ALSO extras (a line-break token next to /\\s/): the lexer must return the
    // completed token before it skips further extras, and skip it where it is not the chosen token
    // (only next to tokens of ONE precedence: with mixed precedences the overtake of DIFFERENCE 1 interferes)
    if !with_word && !toks.iter().any(|t| matches!(t.re, Re::Alts(_))) && toks.iter().all(|t| t.prec == toks[0].prec) && rng.chance(1, 2) {
        let e = *rng.pick(&extras_chars(extras));
        let (re, is_string) = match rng.below(5) {
            0 => (Re::Plus(Box::new(Re::Cls(false, vec![(e, e)]))), false),
            1 => (Re::Lit(vec![e, e]), rng.chance(1, 2)),
            2 => (Re::Lit(vec![e]), false),
            _ => (Re::Lit(vec![e]), true),
        };
        if !toks.iter().any(|t| t.re.ser() == re.ser()) {
            let at = rng.below(toks.len() + 1);
            let p0 = toks[0].prec;
            toks.insert(at, Tok { prec: p0, is_string, re, immediate: false, ci: false });
        }
    }
    let mut word = None;
    if with_word {
        let w = rng.below(toks.len() + 1);
        let re = Re::Seq(Box::new(Re::Cls(false, vec![(0x61, 0x64), (0xe9, 0xe9), (0x3bb, 0x3bb)])),
                         Box::new(Re::Star(Box::new(Re::Cls(false, vec![(0x61, 0x64), (0x30, 0x31), (0xe9, 0xe9), (0x3bb, 0x3bb)])))));
        toks.insert(w, Tok { prec: 0, is_string: false, re, immediate: false, ci: false });
        word = Some(w);
    }
    TokSet { word, extras, toks }
}

/// leaves of an error-free tree as `tok:start:end` in CHARACTER offsets, or "E"
fn real_tokens(parser: &mut Parser, cps: &[u32]) -> String {
    let text: String = cps.iter().map(|c| char::from_u32(*c).unwrap()).collect();
    let mut byte_to_char = vec![0usize; text.len() + 1];
    let mut k = 0;
    for (ci, (bi, ch)) in text.char_indices().enumerate() {
        for j in 0..ch.len_utf8() { byte_to_char[bi + j] = ci; }
        k = ci + 1;
    }
    byte_to_char[text.len()] = k;
    let tree = match parser.parse(text.as_bytes(), None) { Some(t) => t, None => return "E".into() };
    let root = tree.root_node();
    if root.has_error() { return "E".into(); }
    let mut out = Vec::new();
    let mut cur = root.walk();
    if cur.goto_first_child() {
        loop {
            let n = cur.node();
            let kind = n.kind();
            if n.child_count() == 0 && kind.starts_with('t') {
                out.push(format!("{}:{}:{}", &kind[1..], byte_to_char[n.start_byte()], byte_to_char[n.end_byte()]));
            }
            if !cur.goto_next_sibling() { break; }
        }
    }
    if out.is_empty() { "-".into() } else { out.join(",") }
}

fn cps_hex(cps: &[u32]) -> String {
    if cps.is_empty() { "-".into() } else { cps.iter().map(|c| format!("{c:x}")).collect::<Vec<_>>().join(".") }
}

fn parse_cps(s: &str) -> Vec<u32> {
    if s == "-" { vec![] } else { s.split('.').map(|x| u32::from_str_radix(x, 16).unwrap()).collect() }
}

/// name of the C function assigned to a field of the TSLanguage initialiser (`.lex_fn = NAME,`)
fn language_field_fn(parser_c: &str, field: &str) -> Option<String> {
    let key = format!(".{field} =");
    let i = parser_c.find(&key)?;
    let rest = parser_c[i + key.len()..].trim_start();
    let name: String = rest.chars().take_while(|c| c.is_ascii_alphanumeric() || *c == '_').collect();
    if name.is_empty() { None } else { Some(name) }
}

/// token indices a generated lex function can accept.  Tolerant of renames inside parser.c: the function
/// is found through the TSLanguage field it is assigned to, its body by brace matching, and every
/// `ACCEPT_TOKEN(IDENT)` is mapped to a token through the `[IDENT] = "tN"` rows of the symbol-name table.
fn accepted_in(parser_c: &str, field: &str) -> Option<Vec<usize>> {
    let func = language_field_fn(parser_c, field)?;
    let mut start = None;
    let mut from = 0;
    while let Some(j) = parser_c[from..].find(&format!("{func}(")) {
        let at = from + j;
        // a definition: followed by a parameter list and `{`, not `;`
        let after = &parser_c[at..];
        if let Some(close) = after.find(')') {
            let tail = after[close + 1..].trim_start();
            if tail.starts_with('{') { start = Some(at + close + 1 + (after[close + 1..].len() - tail.len())); break; }
        }
        from = at + func.len();
    }
    let start = start?;
    let bytes = parser_c.as_bytes();
    let (mut depth, mut end) = (0i32, start);
    for (k, b) in bytes[start..].iter().enumerate() {
        match b { b'{' => depth += 1, b'}' => { depth -= 1; if depth == 0 { end = start + k; break; } } _ => {} }
    }
    let body = &parser_c[start..end];
    let mut v = Vec::new();
    let mut rest = body;
    while let Some(j) = rest.find("ACCEPT_TOKEN(") {
        let tail = &rest[j + 13..];
        let ident: String = tail.chars().take_while(|c| c.is_ascii_alphanumeric() || *c == '_').collect();
        // `[IDENT] = "tN",` in the symbol names table
        if let Some(r) = parser_c.find(&format!("[{ident}] = \"t")) {
            let num: String = parser_c[r + ident.len() + 7..].chars().take_while(|c| c.is_ascii_digit()).collect();
            let closes = parser_c[r + ident.len() + 7 + num.len()..].starts_with('"');
            if closes { if let Ok(k) = num.parse() { v.push(k); } }
        }
        rest = tail;
    }
    v.sort();
    v.dedup();
    Some(v)
}

/// (keyword tokens, tokens accepted by neither lexer).  With a word token the generator moves the
/// keyword tokens from `ts_lex` into `ts_lex_keywords`; a token accepted by neither function cannot
/// be classified from the generated code and makes the set ambiguous (skipped by the driver).
fn keyword_sets(parser_c: &str, ts: &TokSet) -> (Vec<usize>, Vec<usize>) {
    if ts.word.is_none() { return (vec![], vec![]); }
    match (accepted_in(parser_c, "lex_fn"), accepted_in(parser_c, "keyword_lex_fn")) {
        (Some(main), Some(kws)) => {
            let ambig = (0..ts.toks.len()).filter(|i| !main.contains(i) && !kws.contains(i)).collect();
            (kws, ambig)
        }
        // nothing could be read off the generated code: every token other than the word token is unclassified
        // (the driver then infers one assignment for the whole set, or skips the set when there are too many)
        _ => (vec![], (0..ts.toks.len()).filter(|i| Some(*i) != ts.word).collect()),
    }
}

// ------------------------------------------------------------------------------------------------
// context-aware lexing: two-mode grammars.  `(` switches to mode A, `)` to mode B; each token is
// valid in mode A, mode B or both; optionally token y is valid only directly after token x.
// Different parse states therefore have different valid token sets, which exercises lex-state
// construction per token set, lex-state merging and minimisation.

#[derive(Clone, Debug)]
struct ModeSet { extras: usize, follow: Option<(usize, usize)>, word: Option<usize>, reserved: Vec<usize>, reserved_b: Option<Vec<usize>>, toks: Vec<Tok>, masks: Vec<u8> }

impl ModeSet {
    fn marks(&self) -> (usize, usize) { (self.toks.len() - 2, self.toks.len() - 1) }
    fn ser(&self) -> String {
        let mut s = format!("mx{}f{}w{}r{}", self.extras, self.follow.map(|(a, b)| format!("{a}.{b}")).unwrap_or("-".into()),
            self.word.map(|w| w.to_string()).unwrap_or("-".into()),
            if self.reserved.is_empty() { "-".to_string() } else { self.reserved.iter().map(|k| k.to_string()).collect::<Vec<_>>().join(".") });
        if let Some(rb) = &self.reserved_b { s.push_str(&format!("q{}", if rb.is_empty() { "-".to_string() } else { rb.iter().map(|k| k.to_string()).collect::<Vec<_>>().join(".") })); }
        for (t, m) in self.toks.iter().zip(&self.masks) { s.push_str(&format!(";{},{},{},{}", t.prec, t.is_string as u8 + 4 * t.ci as u8, m, t.re.ser())); }
        s
    }
    fn parse(s: &str) -> ModeSet {
        let mut parts = s.split(';');
        let h = parts.next().unwrap();
        let fi = h.find('f').unwrap();
        let wi = h.find('w').unwrap_or(h.len());
        let ri = h.find('r').unwrap_or(h.len());
        let extras = h[2..fi].parse().unwrap_or(0);
        let follow = { let f = &h[fi + 1..wi]; if f == "-" { None } else { let mut it = f.split('.'); Some((it.next().unwrap().parse().unwrap(), it.next().unwrap().parse().unwrap())) } };
        let word: Option<usize> = if wi < h.len() { h[wi + 1..ri].parse().ok() } else { None };
        let qi = h.find('q').unwrap_or(h.len());
        let reserved: Vec<usize> = if ri < h.len() { h[ri + 1..qi].split('.').filter_map(|x| x.parse().ok()).collect() } else { vec![] };
        let reserved_b: Option<Vec<usize>> = if qi < h.len() { Some(h[qi + 1..].split('.').filter_map(|x| x.parse().ok()).collect()) } else { None };
        let mut toks = Vec::new();
        let mut masks = Vec::new();
        for p in parts {
            let mut f = p.splitn(4, ',');
            let prec = f.next().unwrap().parse().unwrap();
            let flags: u8 = f.next().unwrap().parse().unwrap_or(0);
            let is_string = flags & 1 == 1;
            masks.push(f.next().unwrap().parse().unwrap());
            let mut i = 0;
            toks.push(Tok { prec, is_string, re: parse_re(f.next().unwrap().as_bytes(), &mut i), immediate: false, ci: flags & 4 == 4 });
        }
        ModeSet { extras, follow, word, reserved, reserved_b, toks, masks }
    }
    fn grammar(&self, name: &str) -> String {
        let sym = |i: usize| json!({"type":"SYMBOL","name":format!("t{i}")});
        let (ma, mb) = self.marks();
        let mut rules = serde_json::Map::new();
        rules.insert("source".into(), json!({"type":"REPEAT","content":{"type":"CHOICE","members":[{"type":"SYMBOL","name":"_ma"},{"type":"SYMBOL","name":"_mb"}]}}));
        for (mode, (rule, mark)) in [("_ma", ma), ("_mb", mb)].iter().enumerate() {
            let mut items: Vec<Value> = Vec::new();
            for i in 0..self.toks.len() - 2 {
                if self.masks[i] & (1 << mode) == 0 { continue; }
                if mode == 1 && self.reserved_b.is_some() && self.word == Some(i) {
                    items.push(json!({"type":"RESERVED","content":sym(i),"context_name":"alt"}));
                } else {
                    items.push(sym(i));
                }
                if let Some((x, y)) = self.follow { if x == i { items.push(json!({"type":"SEQ","members":[sym(x), sym(y)]})); } }
            }
            rules.insert((*rule).into(), json!({"type":"SEQ","members":[sym(*mark), {"type":"REPEAT","content":{"type":"CHOICE","members":items}}]}));
        }
        let base = TokSet { word: None, extras: self.extras, toks: self.toks.clone() };
        let g: Value = serde_json::from_str(&base.grammar(name)).unwrap();
        for (k, v) in g["rules"].as_object().unwrap() { if k != "source" { rules.insert(k.clone(), v.clone()); } }
        let mut g2 = g.clone();
        // keep `source` first
        let mut ordered = serde_json::Map::new();
        ordered.insert("source".into(), rules["source"].clone());
        for (k, v) in rules { if k != "source" { ordered.insert(k, v); } }
        g2["rules"] = Value::Object(ordered);
        if let Some(w) = self.word { g2["word"] = json!(format!("t{w}")); }
        if !self.reserved.is_empty() {
            let set = |v: &Vec<usize>| v.iter().map(|k| json!({"type":"SYMBOL","name":format!("t{k}")})).collect::<Vec<_>>();
            g2["reserved"] = match &self.reserved_b {
                Some(rb) => json!({"global": set(&self.reserved), "alt": set(rb)}),
                None => json!({"global": set(&self.reserved)}),
            };
        }
        serde_json::to_string(&g2).unwrap()
    }
}

fn sample_re(re: &Re, rng: &mut Rng, out: &mut Vec<u32>) {
    match re {
        Re::Lit(v) => out.extend(v),
        Re::Cls(neg, rs) => {
            if *neg {
                let cand: Vec<u32> = ALPHA.iter().copied().filter(|c| !rs.iter().any(|(a, b)| a <= c && c <= b)).collect();
                out.push(if cand.is_empty() { 0x7a } else { *rng.pick(&cand) });
            } else {
                let (a, b) = *rng.pick(rs);
                out.push(a + rng.below((b - a + 1) as usize) as u32);
            }
        }
        Re::Seq(a, b) => { sample_re(a, rng, out); sample_re(b, rng, out); }
        Re::Alt(a, b) => if rng.chance(1, 2) { sample_re(a, rng, out) } else { sample_re(b, rng, out) },
        Re::Star(a) => for _ in 0..rng.below(3) { sample_re(a, rng, out) },
        Re::Plus(a) => for _ in 0..rng.range(1, 3) { sample_re(a, rng, out) },
        Re::Opt(a) => if rng.chance(1, 2) { sample_re(a, rng, out) },
        Re::Rep(m, n, a) => for _ in 0..rng.range(*m, *n) { sample_re(a, rng, out) },
        Re::Alts(v) => { let k = rng.below(v.len()); sample_re(&v[k].1, rng, out) }
        Re::Flag(_) => {}
        Re::Group(_, a) => sample_re(a, rng, out),
        Re::Prop(n) => out.push(match *n { "L" => *rng.pick(&[0x61, 0x42, 0xe9, 0x39b]), "Lu" => *rng.pick(&[0x41, 0x42, 0xc9, 0x39b]), "Ll" => *rng.pick(&[0x61, 0x62, 0xe9, 0x3bb]), "Nd" => *rng.pick(&[0x30, 0x31]), _ => *rng.pick(&[0x28, 0x29, 0x2d, 0x3b, 0x2c]) }),
    }
}

fn rand_mode_set(rng: &mut Rng) -> ModeSet {
    let base = loop { let b = rand_set(rng); if b.word.is_none() { break b; } };
    let mut toks: Vec<Tok> = base.toks.into_iter().filter(|t| match &t.re { Re::Lit(v) => !(v.len() == 1 && (v[0] == 0x28 || v[0] == 0x29)), r => !r.has_alts() })
        // tokens that begin with an extras character belong to the token-soup family (separator-aware model)
        .filter(|t| ![0x20u32, 0x0a, 0x09].iter().any(|c| t.re.can_start(*c)))
        // inline flag directives / explicit groups likewise (only `run_set` hands the model the resolved pattern)
        .filter(|t| !t.re.has_flags()).collect();
    if toks.len() < 2 { toks.push(Tok { prec: 0, is_string: true, re: Re::Lit(vec![0x61]), immediate: false, ci: false }); toks.push(Tok { prec: 0, is_string: true, re: Re::Lit(vec![0x62]), immediate: false, ci: false }); }
    if toks.len() > 10 { toks.truncate(10); }
    for t in toks.iter_mut() { t.immediate = false; }
    { let mut seen: Vec<(String, bool, bool)> = Vec::new(); toks.retain(|t| { let k = (t.re.ser(), t.is_string, t.ci); if seen.contains(&k) { false } else { seen.push(k); true } }); }
    // token identity: the same text in different wrappers (String vs RegExp, other flag, other precedence);
    // such twins are valid in DIFFERENT modes only (in one state they would be one ambiguous token)
    if rng.chance(1, 2) && !toks.is_empty() {
        let i = rng.below(toks.len());
        if !matches!(toks[i].re, Re::Alts(_)) {
            let mut twin = toks[i].clone();
            match (&twin.re, rng.below(3)) {
                (Re::Lit(_), 0) => { twin.is_string = !twin.is_string; twin.ci = false; }
                (_, 1) if !twin.is_string => twin.ci = !twin.ci,
                _ => { if twin.is_string { twin.is_string = false; } else { twin.ci = !twin.ci; } twin.prec = 1 - twin.prec.min(1).max(0); }
            }
            if !toks.iter().any(|t| t.re.ser() == twin.re.ser() && t.is_string == twin.is_string && t.ci == twin.ci) { toks.push(twin); }
        }
    }
    let n = toks.len();
    let mut masks: Vec<u8> = (0..n).map(|_| *rng.pick(&[1u8, 2, 3, 1, 2])).collect();
    // tokens with the same AST (twins) get disjoint modes
    for i in 0..n { for j in 0..i { if toks[i].re.ser() == toks[j].re.ser() { masks[j] = 1; masks[i] = 2; } } }
    let twin_of = |i: usize| (0..n).any(|j| j != i && toks[j].re.ser() == toks[i].re.ser());
    if !masks.iter().any(|m| m & 1 != 0) { if let Some(i) = (0..n).find(|i| !twin_of(*i)) { masks[i] |= 1; } }
    if !masks.iter().any(|m| m & 2 != 0) { if let Some(i) = (0..n).rev().find(|i| !twin_of(*i)) { masks[i] |= 2; } }
    let mut follow = None;
    if n >= 3 && rng.chance(1, 2) {
        let x = rng.below(n);
        let y = (x + 1 + rng.below(n - 1)) % n;
        let twin = |i: usize| (0..n).any(|j| j != i && toks[j].re.ser() == toks[i].re.ser());
        // y is not a plain item of the modes in which x is valid: it is valid only after x there
        let keep = masks[y] & !masks[x];
        if masks[x] != 0 && !twin(x) && !twin(y) {
            masks[y] = keep;
            follow = Some((x, y));
            // every other token must still leave both modes non-empty
            if !masks.iter().enumerate().any(|(i, m)| i != y && m & 1 != 0) || !masks.iter().enumerate().any(|(i, m)| i != y && m & 2 != 0) {
                for (i, m) in masks.iter_mut().enumerate() { if i != y && !(0..n).any(|j| j != i && toks[j].re.ser() == toks[i].re.ser()) { *m = 3; } }
                // x became valid in both modes: `seq(x, y)` next to a plain item y would be a real LR conflict, so
                // this set gets no follow pair
                follow = None;
            }
        }
    }
    // word token + keywords whose validity differs from the word token's, optionally reserved words
    let mut word = None;
    let mut reserved = Vec::new();
    let mut reserved_b: Option<Vec<usize>> = None;
    if rng.chance(1, 2) {
        let wre = Re::Seq(Box::new(Re::Cls(false, vec![(0x61, 0x64), (0xe9, 0xe9), (0x3bb, 0x3bb)])),
                          Box::new(Re::Star(Box::new(Re::Cls(false, vec![(0x61, 0x64), (0x30, 0x31), (0xe9, 0xe9), (0x3bb, 0x3bb)])))));
        let mut kw_idx = Vec::new();
        for _ in 0..rng.range(2, 3) {
            let v: Vec<u32> = (0..rng.range(1, 3)).map(|_| *rng.pick(&LETTERS)).collect();
            if toks.iter().any(|t| matches!(&t.re, Re::Lit(x) if *x == v)) { continue; }
            // a PATTERN token that matches keyword-like strings and shares a string with the literal (`/i[a-d]/` next to
            // "ib"): it is shadowed by the literal, so it must NOT become a keyword; defined before or after the literal,
            // and valid in a mode where the literal is not
            let partner = if v.len() >= 2 && rng.chance(1, 2) {
                let last = *v.last().unwrap();
                let mut re = Re::Cls(false, vec![(0x61, 0x64), (last, last)]);
                for c in v[..v.len() - 1].iter().rev() { re = Re::Seq(Box::new(Re::Lit(vec![*c])), Box::new(re)); }
                if toks.iter().any(|t| t.re.ser() == re.ser()) { None } else { Some(re) }
            } else { None };
            let lit_mask = if partner.is_some() { *rng.pick(&[1u8, 2]) } else { *rng.pick(&[1u8, 2, 3]) };
            let before = rng.chance(1, 2);
            if let (Some(re), true) = (&partner, before) {
                toks.push(Tok { prec: 0, is_string: false, re: re.clone(), immediate: false, ci: false });
                masks.push(if rng.chance(2, 3) { 3 - lit_mask } else { 3 });
            }
            kw_idx.push(toks.len());
            toks.push(Tok { prec: 0, is_string: true, re: Re::Lit(v), immediate: false, ci: false });
            masks.push(lit_mask);
            if let (Some(re), false) = (&partner, before) {
                toks.push(Tok { prec: 0, is_string: false, re: re.clone(), immediate: false, ci: false });
                masks.push(if rng.chance(2, 3) { 3 - lit_mask } else { 3 });
            }
        }
        word = Some(toks.len());
        toks.push(Tok { prec: 0, is_string: false, re: wre, immediate: false, ci: false });
        masks.push(*rng.pick(&[1u8, 2, 3, 3]));
        if rng.chance(1, 2) { for k in &kw_idx { if rng.chance(2, 3) { reserved.push(*k); } } }
        // `reserved(wordset, rule)`: in mode B the word token is used under another reserved-word set
        if !reserved.is_empty() && masks[word.unwrap()] & 2 != 0 && rng.chance(1, 2) {
            reserved_b = Some(kw_idx.iter().copied().filter(|_| rng.chance(1, 2)).collect());
        }
    }
    toks.push(Tok { prec: 0, is_string: true, re: Re::Lit(vec![0x28]), immediate: false, ci: false });
    toks.push(Tok { prec: 0, is_string: true, re: Re::Lit(vec![0x29]), immediate: false, ci: false });
    masks.push(3);
    masks.push(3);
    ModeSet { extras: base.extras, follow, word, reserved, reserved_b, toks, masks }
}

/// Every lexing step of the real parser, from the parse log: `tok:pos:end:state` where `pos` is the
/// position the lexer started from (before skipping extras), `end` the end of the token (character
/// offsets) and `state` the parse state the parser was in.  Recorded while the parser runs a single
/// stack version and until the first error; prefix `E` / `K` = tree with / without error.
fn real_lex_events(parser: &mut Parser, cps: &[u32]) -> String {
    use std::sync::{Arc, Mutex};
    let text: String = cps.iter().map(|c| char::from_u32(*c).unwrap()).collect();
    let mut byte_to_char = vec![0usize; text.len() + 2];
    let mut k = 0;
    for (ci, (bi, ch)) in text.char_indices().enumerate() {
        for j in 0..ch.len_utf8() { byte_to_char[bi + j] = ci; }
        k = ci + 1;
    }
    byte_to_char[text.len()] = k;
    byte_to_char[text.len() + 1] = k;
    #[derive(Default)]
    struct Rec { state: i64, col: usize, armed: bool, stopped: bool, events: Vec<(String, usize, usize, i64)> }
    let rec = Arc::new(Mutex::new(Rec::default()));
    let r2 = rec.clone();
    parser.set_logger(Some(Box::new(move |ty, msg| {
        if ty != tree_sitter::LogType::Parse { return; }
        let mut r = r2.lock().unwrap();
        if r.stopped { return; }
        if let Some(rest) = msg.strip_prefix("process version:") {
            // "V, version_count:C, state:S, row:R, col:C"
            let num = |key: &str| -> i64 { rest.split(key).nth(1).map(|x| x.split(',').next().unwrap().trim().parse().unwrap_or(-1)).unwrap_or(-1) };
            if num("version_count:") != 1 || num("row:") != 0 { r.stopped = true; return; }
            r.state = num("state:");
            r.col = num("col:") as usize;
            r.armed = true;
        } else if let Some(rest) = msg.strip_prefix("lexed_lookahead sym:") {
            if !r.armed { return; }
            r.armed = false;
            if let Some(i) = rest.rfind(", size:") {
                let size: usize = rest[i + 7..].parse().unwrap_or(0);
                let (st, col) = (r.state, r.col);
                r.events.push((rest[..i].to_string(), col, col + size, st));
            }
        } else if msg.starts_with("detect_error") || msg.starts_with("recover") || msg.starts_with("skip_token") {
            r.stopped = true;
        }
    })));
    let tree = parser.parse(text.as_bytes(), None);
    parser.set_logger(None);
    let err = match &tree { Some(t) => t.root_node().has_error(), None => true };
    let r = rec.lock().unwrap();
    let mut out = vec![if err { "E".to_string() } else { "K".to_string() }];
    for (name, pos, end, st) in &r.events {
        if *st == 0 || *pos > text.len() || *end > text.len() + 1 { break; }
        let tok = if name == "end" { "end".to_string() } else if let Some(n) = name.strip_prefix('t') { if n.chars().all(|c| c.is_ascii_digit()) { n.to_string() } else { "other".into() } } else { "other".into() };
        out.push(format!("{tok}:{}:{}:{st}", byte_to_char[*pos], byte_to_char[(*end).min(text.len())]));
    }
    out.join(",")
}

fn run_mode_set(out: &mut impl Write, id: &str, ms: &ModeSet, strings: &mut dyn FnMut(&mut dyn FnMut(&[u32]))) -> Result<usize, String> {
    let name = format!("c14m_{}", id.replace('-', "_"));
    let b = zoo::build_from_json(&ms.grammar(&name), None, tree_sitter_generate::OptLevel::default())?;
    let mut parser = Parser::new();
    parser.set_language(&b.language).map_err(|e| e.to_string())?;
    if let Ok(p) = std::env::var("C14_DUMP") { let _ = std::fs::write(p, &b.parser_c); }
    writeln!(out, "mset {id} {}", ms.ser()).unwrap();
    let as_soup = TokSet { word: ms.word, extras: ms.extras, toks: ms.toks.clone() };
    let (kws, ambig) = keyword_sets(&b.parser_c, &as_soup);
    let join = |v: &Vec<usize>| if v.is_empty() { "-".to_string() } else { v.iter().map(|k| k.to_string()).collect::<Vec<_>>().join(",") };
    writeln!(out, "mkw {}", join(&kws)).unwrap();
    writeln!(out, "mambig {}", join(&ambig)).unwrap();
    // valid token set of every parse state, from the real look-ahead iterator (= the parse table rows)
    let l = &b.language;
    for st in 0..l.parse_state_count() {
        let mut v: Vec<String> = Vec::new();
        if let Some(it) = l.lookahead_iterator(st as u16) {
            for sym in it.take(l.node_kind_count() + 8) {
                if let Some(k) = l.node_kind_for_id(sym) { if let Some(num) = k.strip_prefix('t') { if num.chars().all(|c| c.is_ascii_digit()) && !num.is_empty() { v.push(num.to_string()); } } }
            }
        }
        writeln!(out, "vs {st} {}", if v.is_empty() { "-".to_string() } else { v.join(",") }).unwrap();
    }
    let mut n = 0usize;
    strings(&mut |cps: &[u32]| {
        let r = real_lex_events(&mut parser, cps);
        writeln!(out, "m {} {r}", cps_hex(cps)).unwrap();
        n += 1;
    });
    writeln!(out, "endmset {id}").unwrap();
    Ok(n)
}

fn mode_strings(ms: &ModeSet, rng: &mut Rng, n_random: usize, enum_len: usize, f: &mut dyn FnMut(&[u32])) {
    let (ma, mb) = ms.marks();
    let mut enum_syms: Vec<u32> = ALPHA.to_vec();
    enum_syms.push(0x20);
    // marker followed by every short string
    fn rec(s: &mut Vec<u32>, left: usize, syms: &[u32], f: &mut dyn FnMut(&[u32])) {
        f(s);
        if left == 0 { return; }
        for c in syms { s.push(*c); rec(s, left - 1, syms, f); s.pop(); }
    }
    if ms.toks.iter().any(|t| t.ci) { enum_syms.extend([0x41, 0x42, 0xc9]); }
    for mark in [0x28u32, 0x29] { let mut s = vec![mark]; rec(&mut s, enum_len, &enum_syms, f); }
    // random sentences of the grammar, tokens glued or separated by blanks
    for _ in 0..n_random {
        let mut s: Vec<u32> = Vec::new();
        for _ in 0..rng.range(1, 4) {
            let mode = rng.below(2);
            s.push(if mode == 0 { 0x28 } else { 0x29 });
            let items: Vec<usize> = (0..ms.toks.len() - 2).filter(|i| ms.masks[*i] & (1 << mode) != 0).collect();
            for _ in 0..rng.below(5) {
                if rng.chance(1, 2) { s.push(0x20); }
                let i = if rng.chance(1, 8) { rng.below(ms.toks.len() - 2) } else { *rng.pick(&items) };
                let from = s.len();
                sample_re(&ms.toks[i].re, rng, &mut s);
                if ms.toks[i].ci || rng.chance(1, 10) { for c in s[from..].iter_mut() { if rng.chance(1, 2) { *c = match *c { 0x61..=0x64 => *c - 0x20, 0xe9 => 0xc9, 0x3bb => 0x39b, o => o }; } } }
                if let Some((x, y)) = ms.follow { if x == i && rng.chance(1, 2) { if rng.chance(1, 2) { s.push(0x20); } sample_re(&ms.toks[y].re, rng, &mut s); } }
            }
        }
        let _ = (ma, mb);
        f(&s);
    }
}

// ------------------------------------------------------------------------------------------------
// family: classes with many (9-20) ranges; pairs of tokens whose large classes overlap (one is the
// other with gaps punched / ranges dropped / a few characters added), so that the rendered
// conditions need `additions` / `removals` relative to a shared large character set.  The input
// alphabet is derived from the classes: every range boundary and its neighbours.

fn ranges_of(chars: &[u32]) -> Vec<(u32, u32)> {
    let mut v: Vec<u32> = chars.to_vec();
    v.sort();
    v.dedup();
    let mut rs: Vec<(u32, u32)> = Vec::new();
    for c in v {
        match rs.last_mut() { Some((_, hi)) if *hi + 1 == c => *hi = c, _ => rs.push((c, c)) }
    }
    rs
}

fn rand_large_class_set(rng: &mut Rng) -> (TokSet, Vec<u32>) {
    let universe: Vec<u32> = (0x30..=0x39).chain(0x61..=0x7a).collect();
    // C1: alternating runs in / out, at least 9 ranges
    let c1: Vec<u32> = loop {
        let mut v = Vec::new();
        let mut i = 0usize;
        let mut inside = rng.chance(1, 2);
        while i < universe.len() {
            let run = rng.range(1, 3);
            if inside { for k in i..(i + run).min(universe.len()) { v.push(universe[k]); } }
            i += run;
            inside = !inside;
        }
        let n = ranges_of(&v).len();
        if (9..=20).contains(&n) { break v; }
    };
    // variants of C1: punch gaps, drop ranges, add a few characters
    let variant = |rng: &mut Rng| -> Vec<u32> {
        let mut v = c1.clone();
        for _ in 0..rng.range(1, 3) { if v.len() > 6 { let i = rng.below(v.len()); v.remove(i); } }
        if rng.chance(1, 2) { let rs = ranges_of(&v); let (lo, hi) = *rng.pick(&rs); v.retain(|c| *c < lo || *c > hi); }
        for _ in 0..rng.below(3) { let c = *rng.pick(&universe); if !v.contains(&c) { v.push(c); } }
        v
    };
    let cls = |chars: &[u32]| Re::Cls(false, ranges_of(chars));
    let suffixes = [0x21u32, 0x2b, 0x3b];
    let mut toks: Vec<Tok> = Vec::new();
    let p = |rng: &mut Rng| if rng.chance(1, 4) { 1 } else { 0 };
    toks.push(Tok { prec: p(rng), is_string: false, re: Re::Plus(Box::new(cls(&c1))), immediate: false, ci: false });
    for k in 0..rng.range(1, 3) {
        let v = variant(rng);
        let body = Re::Plus(Box::new(cls(&v)));
        let re = match rng.below(3) {
            0 => Re::Seq(Box::new(body), Box::new(Re::Lit(vec![suffixes[k % 3]]))),
            1 => Re::Seq(Box::new(Re::Lit(vec![suffixes[k % 3]])), Box::new(body)),
            _ => Re::Seq(Box::new(cls(&v)), Box::new(Re::Seq(Box::new(Re::Lit(vec![suffixes[k % 3]])), Box::new(Re::Opt(Box::new(cls(&c1))))))),
        };
        if toks.iter().any(|t| t.re.ser() == re.ser()) { continue; }
        let at = rng.below(toks.len() + 1);
        toks.insert(at, Tok { prec: p(rng), is_string: false, re, immediate: false, ci: false });
    }
    if rng.chance(1, 2) {
        let v: Vec<u32> = universe.iter().copied().filter(|c| !c1.contains(c)).collect();
        toks.push(Tok { prec: 0, is_string: false, re: Re::Plus(Box::new(cls(&v))), immediate: false, ci: false });
    }
    if rng.chance(1, 2) { toks.push(Tok { prec: 0, is_string: true, re: Re::Lit(vec![*rng.pick(&suffixes)]), immediate: false, ci: false }); }
    // alphabet: all range boundaries of all classes and their neighbours, the suffix characters, the blank
    let mut alpha: Vec<u32> = vec![0x20];
    alpha.extend(suffixes);
    fn bounds(re: &Re, out: &mut Vec<u32>) {
        match re {
            Re::Cls(_, rs) => for (a, b) in rs { out.extend([a.saturating_sub(1), *a, *b, b + 1]); },
            Re::Seq(a, b) | Re::Alt(a, b) => { bounds(a, out); bounds(b, out); }
            Re::Star(a) | Re::Plus(a) | Re::Opt(a) | Re::Rep(_, _, a) => bounds(a, out),
            Re::Lit(_) => {}
            Re::Alts(v) => for (_, r) in v { bounds(r, out); },
            Re::Prop(_) | Re::Flag(_) => {}
            Re::Group(_, a) => bounds(a, out),
        }
    }
    for t in &toks { bounds(&t.re, &mut alpha); }
    alpha.retain(|c| *c == 0x20 || (0x21..0x7f).contains(c));
    alpha.sort();
    alpha.dedup();
    let extras = if rng.chance(1, 2) { 0 } else { rng.range(1, EXTRAS_SHAPES - 1) };
    (TokSet { word: None, extras, toks }, alpha)
}

/// round 11b: a `prec` on an INNER branch of a token whose branches rejoin a common continuation —
/// `seq(head, choice(a, prec(p_in, b)), tail)`, `seq(head, optional(prec(p_in, b)), tail)`, `seq(head, repeat(choice(a, prec(p_in, b))), tail)`
/// — next to a competitor that completes on `head` (or on `head` + the first branch character) with a precedence between
/// the outer and the inner one (or equal to one of them), plus filler tokens.  Returns the set and directed strings
/// (samples of the nested tokens through every branch).
fn rand_nested_set(rng: &mut Rng) -> (TokSet, Vec<Vec<u32>>) {
    let mut focus: Vec<u32> = Vec::new();
    while focus.len() < 4 { let c = *rng.pick(&ALPHA); if !focus.contains(&c) { focus.push(c); } }
    let piece = |rng: &mut Rng| -> Re {
        loop {
            let r = match rng.below(4) { 0 | 1 => Re::Lit(vec![*rng.pick(&focus)]), 2 => Re::Lit((0..2).map(|_| *rng.pick(&focus)).collect()), _ => rand_re(rng, 1, &focus) };
            if !r.nullable() && !r.has_alts() { return r; }
        }
    };
    let mut toks: Vec<Tok> = Vec::new();
    let mut directed: Vec<Vec<u32>> = Vec::new();
    for _ in 0..rng.range(1, 2) {
        let p_out: i32 = *rng.pick(&[-1, 0, 0, 0, 1]);
        let p_in: i32 = p_out + *rng.pick(&[2, 2, 1, -1]);
        let p_mid: i32 = if p_in - p_out == 2 && rng.chance(3, 4) { p_out + 1 } else { *rng.pick(&[p_out, p_in, p_out + 1]) };
        let inner = Re::Alts(vec![(p_in, piece(rng))]);
        let mid = match rng.below(6) {
            0 | 1 => if rng.chance(1, 2) { Re::Alt(Box::new(piece(rng)), Box::new(inner)) } else { Re::Alt(Box::new(inner), Box::new(piece(rng))) },
            2 => Re::Alts(vec![(p_in, piece(rng)), (*rng.pick(&[p_out, p_mid, p_out - 1]), piece(rng))]),
            3 => Re::Opt(Box::new(inner)),
            4 => Re::Plus(Box::new(if rng.chance(1, 2) { Re::Alt(Box::new(piece(rng)), Box::new(inner)) } else { inner })),
            _ => Re::Star(Box::new(Re::Alt(Box::new(piece(rng)), Box::new(inner)))),
        };
        let head = piece(rng);
        let with_tail = rng.chance(3, 4);
        let body = if with_tail { Re::Seq(Box::new(mid), Box::new(piece(rng))) } else { mid };
        let re = Re::Seq(Box::new(head.clone()), Box::new(body));
        if re.nullable() || toks.iter().any(|t| t.re.ser() == re.ser()) { continue; }
        // competitor: completes where the branches begin (or one character later)
        let mut comp = head.clone();
        if rng.chance(1, 4) { comp = Re::Seq(Box::new(comp), Box::new(Re::Lit(vec![*rng.pick(&focus)]))); }
        if let Re::Seq(a, b) = &comp { if let (Re::Lit(x), Re::Lit(y)) = (&**a, &**b) { let mut v = x.clone(); v.extend(y); comp = Re::Lit(v); } }
        let comp_is_string = matches!(comp, Re::Lit(_)) && rng.chance(1, 2);
        for _ in 0..12 { let mut v = Vec::new(); sample_re(&re, rng, &mut v); directed.push(v); }
        let nested = Tok { prec: p_out, is_string: false, re, immediate: false, ci: false };
        let competitor = Tok { prec: p_mid, is_string: comp_is_string, re: comp, immediate: false, ci: false };
        if rng.chance(1, 2) { toks.push(competitor); toks.push(nested); } else { toks.push(nested); toks.push(competitor); }
    }
    for _ in 0..rng.range(0, 2) {
        let r = piece(rng);
        let is_string = matches!(r, Re::Lit(_)) && rng.chance(1, 2);
        let at = rng.below(toks.len() + 1);
        toks.insert(at, Tok { prec: *rng.pick(&[-1, 0, 0, 1, 2]), is_string, re: r, immediate: false, ci: false });
    }
    { let mut seen: Vec<String> = Vec::new();
      toks.retain(|t| { let k = t.re.ser(); if seen.contains(&k) { false } else { seen.push(k); true } }); }
    let extras = if rng.chance(2, 3) { 0 } else { rng.range(1, EXTRAS_SHAPES - 1) };
    (TokSet { word: None, extras, toks }, directed)
}

fn run_set(out: &mut impl Write, id: &str, ts: &TokSet, strings: &mut dyn FnMut(&mut dyn FnMut(&[u32]))) -> Result<usize, String> {
    let name = format!("c14_{}", id.replace('-', "_"));
    let b = zoo::build_from_json(&ts.grammar(&name), None, tree_sitter_generate::OptLevel::default())?;
    let mut parser = Parser::new();
    parser.set_language(&b.language).map_err(|e| e.to_string())?;
    let (kws, ambig) = keyword_sets(&b.parser_c, ts);
    writeln!(out, "set {id} {}", ts.ser()).unwrap();
    if ts.toks.iter().any(|t| t.re.has_flags()) {
        // the model gets the pattern with the flag directives RESOLVED (scoped to the enclosing group) and without groups
        let mut m = ts.clone();
        for t in m.toks.iter_mut() { if t.re.has_flags() { let mut ci = t.ci; t.re = t.re.resolve(&mut ci); t.ci = false; } }
        writeln!(out, "setm {id} {}", m.ser()).unwrap();
    }
    writeln!(out, "kw {}", if kws.is_empty() { "-".to_string() } else { kws.iter().map(|k| k.to_string()).collect::<Vec<_>>().join(",") }).unwrap();
    writeln!(out, "ambig {}", if ambig.is_empty() { "-".to_string() } else { ambig.iter().map(|k| k.to_string()).collect::<Vec<_>>().join(",") }).unwrap();
    // how many lex states of the emitted lexer use the ADVANCE_MAP table (render.rs emits it for a state with ≥ 8
    // single-character transitions); the macro itself comes from the parser.h the generator embeds
    writeln!(out, "amap {id} {}", b.parser_c.matches("ADVANCE_MAP(").count()).unwrap();
    let mut n = 0usize;
    strings(&mut |cps: &[u32]| {
        let r = real_tokens(&mut parser, cps);
        writeln!(out, "s {} {r}", cps_hex(cps)).unwrap();
        n += 1;
    });
    // SUPPLEMENTARY-plane characters that alias a character of the token set modulo 2^16 (U+40000 + c, U+D0000 + c;
    // planes 4 and 13 are unassigned, so no Unicode property class of a token contains them):
    // a lexer table that keeps only 16 bits of the look-ahead would take them for c
    let mut base: Vec<u32> = Vec::new();
    fn chars_of(re: &Re, out: &mut Vec<u32>) {
        match re {
            Re::Lit(v) => out.extend(v.iter().copied()),
            Re::Cls(_, rs) => for (a, b) in rs { out.push(*a); out.push(*b); },
            Re::Seq(a, b) | Re::Alt(a, b) => { chars_of(a, out); chars_of(b, out); }
            Re::Star(a) | Re::Plus(a) | Re::Opt(a) | Re::Rep(_, _, a) => chars_of(a, out),
            Re::Alts(v) => for (_, r) in v { chars_of(r, out); },
            Re::Prop(_) | Re::Flag(_) => {}
            Re::Group(_, a) => chars_of(a, out),
        }
    }
    for t in &ts.toks { chars_of(&t.re, &mut base); }
    base.extend(extras_chars(ts.extras));
    base.sort(); base.dedup();
    base.retain(|c| *c < 0x10000);
    let first = base.iter().copied().find(|c| *c > 0x20).unwrap_or(0x61);
    for c in base.iter().copied().take(40) {
        for plane in [0x40000u32, 0xD0000] {
            let x = plane + c;
            if char::from_u32(x).is_none() { continue; }
            for v in [vec![x], vec![first, x], vec![x, first], vec![first, 0x20, x, 0x20, first], vec![c, x, c]] {
                let r = real_tokens(&mut parser, &v);
                writeln!(out, "s {} {r}", cps_hex(&v)).unwrap();
                n += 1;
            }
        }
    }
    writeln!(out, "endset {id}").unwrap();
    Ok(n)
}

fn main() {
    limit_resources();
    let args: Vec<String> = std::env::args().collect();
    let out_path = args.get(1).expect("usage: c14 <ops-file> [--spec file]").clone();
    let mut out = std::io::BufWriter::new(std::fs::File::create(&out_path).unwrap());
    let run_specs = |text: &str, prefix: &str, out: &mut std::io::BufWriter<std::fs::File>| {
        for (i, line) in text.lines().enumerate() {
            let line = line.trim();
            if line.is_empty() || line.starts_with('#') { continue; }
            let parts: Vec<&str> = line.split_whitespace().collect();
            let strs: Vec<Vec<u32>> = parts[1..].iter().map(|s| parse_cps(s)).collect();
            let id = format!("{prefix}{i}");
            if parts[0].starts_with('m') {
                let ms = ModeSet::parse(parts[0]);
                if let Err(e) = run_mode_set(out, &id, &ms, &mut |f| { for s in &strs { f(s); } }) {
                    writeln!(out, "skip {id} {} {}", parts[0], e.replace('\n', " ").chars().take(160).collect::<String>()).unwrap();
                }
                continue;
            }
            let ts = TokSet::parse(parts[0]);
            if let Err(e) = run_set(out, &id, &ts, &mut |f| { for s in &strs { f(s); } }) {
                writeln!(out, "skip {id} {} {}", parts[0], e.replace('\n', " ").chars().take(160).collect::<String>()).unwrap();
            }
        }
    };
    if args.get(2).map(|s| s == "--spec").unwrap_or(false) {
        run_specs(&std::fs::read_to_string(&args[3]).unwrap(), "r", &mut out);
        out.flush().unwrap();
        eprintln!("c14: replayed");
        return;
    }
    if let Some(c) = zoo_corpus("c14") { run_specs(&c, "c", &mut out); }
    let mut rng = Rng::new(seed_from_env());
    let thorough = tier_is_thorough();
    let (n_sets, full_len, n_len_next, n_long) = if thorough { (160, 5, 6000, 600) } else { (60, 4, 1500, 250) };
    let mut syms: Vec<u32> = ALPHA.to_vec();
    syms.extend([0x20, 0x20, 0x20, 0x0a, 0x09]);
    syms.extend(PUNCT);
    let mut enum_syms: Vec<u32> = ALPHA.to_vec();
    enum_syms.push(0x20);
    let (mut built, mut rejected, mut total) = (0usize, 0usize, 0usize);
    for k in 0..n_sets {
        let mut srng = rng.fork();
        let ts = rand_set(&mut srng);
        let id = format!("{}-{k}", seed_from_env() % 100000);
        let mut gen = |f: &mut dyn FnMut(&[u32])| {
            // every string up to `full_len` over the 8 alphabet symbols and the blank
            let mut s: Vec<u32> = Vec::new();
            fn rec(s: &mut Vec<u32>, left: usize, syms: &[u32], f: &mut dyn FnMut(&[u32])) {
                f(s);
                if left == 0 { return; }
                for c in syms { s.push(*c); rec(s, left - 1, syms, f); s.pop(); }
            }
            let over = ts.overlap_chars();
            if over.is_empty() { rec(&mut s, full_len, &enum_syms, f); }
            else {
                // the white-space characters tokens can begin with join the enumerated alphabet, and longer
                // strings are made of short words separated by runs of white space
                let mut es = enum_syms.clone();
                for c in &over { if !es.contains(c) { es.push(*c); } }
                rec(&mut s, full_len, &es, f);
                let ws = extras_chars(ts.extras);
                for _ in 0..n_long {
                    let mut v: Vec<u32> = Vec::new();
                    for _ in 0..srng.range(2, 6) {
                        for _ in 0..srng.range(1, 2) { v.push(*srng.pick(&ALPHA)); }
                        for _ in 0..srng.range(0, 3) { let from_over = srng.chance(1, 2); v.push(*srng.pick(if from_over { &over[..] } else { &ws[..] })); }
                    }
                    f(&v);
                }
            }
            if ts.toks.iter().any(|t| t.ci || t.re.ser().contains('U') || t.re.has_flags()) {
                // case-insensitive tokens: upper-case letters (and mixed case) in the enumerated alphabet
                let upper: Vec<u32> = vec![0x41, 0x42, 0x61, 0x62, 0xc9, 0xe9, 0x39b, 0x30, 0x20];
                let mut s2: Vec<u32> = Vec::new();
                rec(&mut s2, full_len.min(4), &upper, f);
                for _ in 0..n_long { let len = srng.range(4, 20); let v: Vec<u32> = (0..len).map(|_| { let c = *srng.pick(&syms); if srng.chance(1, 2) { match c { 0x61..=0x64 => c - 0x20, 0xe9 => 0xc9, 0x3bb => 0x39b, _ => c } } else { c } }).collect(); f(&v); }
            }
            // matches of the tokens with inline flags, every letter in a random case, alone and between other text
            for t in ts.toks.iter().filter(|t| t.re.has_flags()) {
                for _ in 0..60 {
                    let mut v: Vec<u32> = Vec::new();
                    sample_re(&t.re, &mut srng, &mut v);
                    for c in v.iter_mut() { if srng.chance(1, 2) { *c = match *c { 0x61..=0x64 => *c - 0x20, 0xe9 => 0xc9, 0x3bb => 0x39b, o => o }; } }
                    f(&v);
                    let mut w = vec![*srng.pick(&ALPHA), 0x20];
                    w.extend(&v); w.push(0x20); w.push(*srng.pick(&ALPHA));
                    f(&w);
                }
            }
            // random strings of the next length, and longer ones with spaces
            for _ in 0..n_len_next { let v: Vec<u32> = (0..full_len + 1).map(|_| *srng.pick(&enum_syms)).collect(); f(&v); }
            for _ in 0..n_long { let len = srng.range(6, 40); let v: Vec<u32> = (0..len).map(|_| *srng.pick(&syms)).collect(); f(&v); }
        };
        match run_set(&mut out, &id, &ts, &mut gen) {
            Ok(n) => { built += 1; total += n; }
            Err(e) => { rejected += 1; writeln!(out, "skip {id} {} {}", ts.ser(), e.replace('\n', " ").chars().take(160).collect::<String>()).unwrap(); }
        }
    }
    // many-range classes with overlapping variants, alphabet derived from the class boundaries
    let (n_large, n_rand_large) = if thorough { (60, 6000) } else { (12, 2500) };
    for k in 0..n_large {
        let mut srng = rng.fork();
        let (ts, alpha) = rand_large_class_set(&mut srng);
        let id = format!("L{}-{k}", seed_from_env() % 100000);
        let mut gen = |f: &mut dyn FnMut(&[u32])| {
            f(&[]);
            for a in &alpha { f(&[*a]); for b in &alpha { f(&[*a, *b]); } }
            for _ in 0..n_rand_large { let len = srng.range(3, 6); let v: Vec<u32> = (0..len).map(|_| *srng.pick(&alpha)).collect(); f(&v); }
        };
        match run_set(&mut out, &id, &ts, &mut gen) {
            Ok(n) => { built += 1; total += n; }
            Err(e) => { rejected += 1; writeln!(out, "skip {id} {} {}", ts.ser(), e.replace('\n', " ").chars().take(160).collect::<String>()).unwrap(); }
        }
    }
    // context-aware lexing: two-mode grammars
    let (n_modes, n_sent, enum_len) = if thorough { (120, 1500, 4) } else { (30, 600, 3) };
    let mut mbuilt = 0usize;
    for k in 0..n_modes {
        let mut srng = rng.fork();
        let ms = rand_mode_set(&mut srng);
        let id = format!("m{}-{k}", seed_from_env() % 100000);
        let mut gen = |f: &mut dyn FnMut(&[u32])| mode_strings(&ms, &mut srng.clone(), n_sent, enum_len, f);
        match run_mode_set(&mut out, &id, &ms, &mut gen) {
            Ok(n) => { mbuilt += 1; total += n; }
            Err(e) => { rejected += 1; writeln!(out, "skip {id} {} {}", ms.ser(), e.replace('\n', " ").chars().take(160).collect::<String>()).unwrap(); }
        }
    }
    // round 11b: precedence on an inner branch that rejoins a common continuation (own random stream: the families above
    // keep theirs)
    let n_nested = if thorough { 120 } else { 36 };
    let mut nrng = Rng::new(seed_from_env() ^ 0x11b_c14_5eed);
    let mut nbuilt = 0usize;
    for k in 0..n_nested {
        let mut srng = nrng.fork();
        let (ts, directed) = rand_nested_set(&mut srng);
        if !ts.toks.iter().any(|t| t.re.has_alts()) { continue; }
        let id = format!("N{}-{k}", seed_from_env() % 100000);
        let mut gen = |f: &mut dyn FnMut(&[u32])| {
            let mut s: Vec<u32> = Vec::new();
            fn rec(s: &mut Vec<u32>, left: usize, syms: &[u32], f: &mut dyn FnMut(&[u32])) {
                f(s);
                if left == 0 { return; }
                for c in syms { s.push(*c); rec(s, left - 1, syms, f); s.pop(); }
            }
            // every string up to length 4 (5) over the symbols of the set and the blank
            let mut es: Vec<u32> = Vec::new();
            for t in &ts.toks { let mut v = Vec::new(); for _ in 0..8 { sample_re(&t.re, &mut srng, &mut v); } for c in v { if !es.contains(&c) && es.len() < 6 { es.push(c); } } }
            es.push(0x20);
            rec(&mut s, full_len, &es, f);
            for d in &directed {
                f(d);
                let mut w = vec![*srng.pick(&ALPHA), 0x20]; w.extend(d); w.push(0x20); w.extend(d); f(&w);
                let mut w = d.clone(); w.extend(d); f(&w);
                let mut w = d.clone(); w.push(*srng.pick(&ALPHA)); f(&w);
            }
            for _ in 0..n_long { let len = srng.range(3, 12); let v: Vec<u32> = (0..len).map(|_| *srng.pick(&es)).collect(); f(&v); }
        };
        match run_set(&mut out, &id, &ts, &mut gen) {
            Ok(n) => { nbuilt += 1; built += 1; total += n; }
            Err(e) => { rejected += 1; writeln!(out, "skip {id} {} {}", ts.ser(), e.replace('\n', " ").chars().take(160).collect::<String>()).unwrap(); }
        }
    }
    out.flush().unwrap();
    eprintln!("c14: {nbuilt} nested-precedence token sets built;");
    eprintln!("c14: {mbuilt} two-mode grammars built;");
    eprintln!("c14: {built} token sets built, {rejected} rejected by the generator, {total} strings");
}
