//! C17 explorer: drives the REAL `LossyUtf8`, `HtmlRenderer` and `Highlighter::highlight` of /repo.
//!
//! usage: c17 <ops-file> [--spec <file>]
//!
//! Case kinds (one `spec <id> …` line + one block per case in the ops file, consumed by `tsv-c17`):
//!   L <hex>                                   LossyUtf8 on a byte string (+ String::from_utf8_lossy)
//!   R <crh|-> <srchex|-> <events>             HtmlRenderer on a synthetic event stream
//!   H <root> <variant> <names> <crh|-> <hex>  Highlighter::highlight (+ HtmlRenderer) on a document;
//!                                             root ∈ stmt|tmpl|host, variant ∈ 0|1|2 (injection queries; 2 = tmpl code with
//!                                             holes excluded + stmt strings re-injected as tmpl),
//!                                             names = all | none | generic | sub<seed>
//!   M <lang> <names> <hex>                    single-layer highlight (highlights query only) + the layer's
//!                                             capture list through the public query API, for the merge model
//!   N <root> <variant> <names> <hex>          multi-layer highlight WITHOUT locals queries + every layer's raw
//!                                             capture sequence (public query API), for the multi-layer merge model
//!   K <lang> <names> <hex>                    single layer WITH its locals query (no injections) + the raw
//!                                             captures classified as the code does, for the locals model
//!   F <root> <variant> <names> <hex>          multi-layer highlight WITH locals queries, variant 0..3 (3 = injection.self /
//!                                             injection.parent), + all layers, raw matches and the `new` table for the end-to-end model
//!   C <root> <variant> <names> <crname 0|1> <hex>  the C API (ts_highlighter_* / ts_highlight_buffer_*): html + line
//!                                             offsets through FFI, rendered again by the Rust API and the model
//!   S <variant> <step>|<step>|…               a HISTORY over ONE fresh Highlighter; step = <root>:<cancel>:<hex> with cancel =
//!                                             N (none) | P (flag preset) | K<k> (flag raised after k events); cancelled runs must end
//!                                             in Cancelled with a well-formed prefix, every completed run gets the full judge + model
//! Events are written `S<start>-<end>`, `H<highlight>`, `E`, comma separated.
use std::collections::BTreeMap;
use std::io::Write;
use std::panic;
use std::sync::Mutex;
use std::time::{Duration, Instant};
use streaming_iterator::StreamingIterator;
use tree_sitter::{Language, LossyUtf8, Node, Parser, Point, Query, QueryCursor, Range};
use tree_sitter_highlight::{Highlight, HighlightConfiguration, HighlightEvent, Highlighter, HtmlRenderer};
use tsv_harness::*;

const STMT_HL: &str = include_str!("stmt_highlights.scm");
const STMT_LOCALS: &str = include_str!("stmt_locals.scm");
const STMT_INJ_B: &str = include_str!("stmt_injections_b.scm");
const LANGS: [&str; 3] = ["stmt", "tmpl", "host"];

/// Watchdog: the case currently running in the real code (start time, replayable spec).  If one case
/// exceeds the limit the process prints `HANG <spec>` and exits with code 3, so that a change making
/// the highlighter loop forever becomes a reported input instead of a stuck check.
static CURRENT: Mutex<Option<(Instant, String)>> = Mutex::new(None);

fn watch_begin(spec: String) {
    *CURRENT.lock().unwrap() = Some((Instant::now(), spec));
}
fn watch_end() {
    *CURRENT.lock().unwrap() = None;
}
fn start_watchdog() {
    let secs: u64 = std::env::var("VERIF_C17_CASE_TIMEOUT").ok().and_then(|s| s.parse().ok()).unwrap_or(20);
    std::thread::spawn(move || loop {
        std::thread::sleep(Duration::from_millis(200));
        if let Some((t, spec)) = &*CURRENT.lock().unwrap() {
            if t.elapsed() > Duration::from_secs(secs) {
                eprintln!("HANG {spec}");
                std::process::exit(3);
            }
        }
    });
}

struct LangDef {
    language: Language,
    highlights: String,
    locals: String,
    inj: [String; 5],
}

fn load_langs() -> Vec<LangDef> {
    let q = |id: &str, f: &str| zoo::read_zoo_file(id, &format!("queries/{f}")).unwrap_or_default();
    let stmt = zoo::load("stmt").expect("zoo stmt");
    let tmpl = zoo::load("tmpl").expect("zoo tmpl");
    let host = zoo::load("host").expect("zoo host");
    vec![
        LangDef { language: stmt.language, highlights: STMT_HL.into(), locals: STMT_LOCALS.into(), inj: [String::new(), STMT_INJ_B.into(), STMT_INJ_B.into(), STMT_INJ_B.into(), STMT_INJ_B.into()] },
        LangDef { language: tmpl.language, highlights: q("tmpl", "highlights.scm"), locals: String::new(), inj: [q("tmpl", "injections.scm"), q("tmpl", "injections_b.scm"), q("tmpl", "injections.scm"), q("tmpl", "injections_c.scm"), q("tmpl", "injections_d.scm")] },
        LangDef { language: host.language, highlights: q("host", "highlights.scm"), locals: q("host", "locals.scm"), inj: [q("host", "injections.scm"), q("host", "injections.scm"), q("host", "injections.scm"), q("host", "injections_c.scm"), q("host", "injections.scm")] },
    ]
}

fn lang_index(name: &str) -> Option<usize> {
    LANGS.iter().position(|l| *l == name)
}

fn evs_to_string(evs: &[HighlightEvent]) -> String {
    let mut parts = Vec::with_capacity(evs.len());
    for e in evs {
        parts.push(match e {
            HighlightEvent::Source { start, end } => format!("S{start}-{end}"),
            HighlightEvent::HighlightStart(h) => format!("H{}", h.0),
            HighlightEvent::HighlightEnd => "E".to_string(),
        });
    }
    if parts.is_empty() {
        "-".into()
    } else {
        parts.join(",")
    }
}

fn parse_evs(s: &str) -> Vec<HighlightEvent> {
    if s == "-" {
        return vec![];
    }
    s.split(',')
        .filter_map(|t| {
            if t == "E" {
                Some(HighlightEvent::HighlightEnd)
            } else if let Some(h) = t.strip_prefix('H') {
                Some(HighlightEvent::HighlightStart(Highlight(h.parse().ok()?)))
            } else if let Some(r) = t.strip_prefix('S') {
                let (a, b) = r.split_once('-')?;
                Some(HighlightEvent::Source { start: a.parse().ok()?, end: b.parse().ok()? })
            } else {
                None
            }
        })
        .collect()
}

fn hx(b: &[u8]) -> String {
    if b.is_empty() {
        "-".into()
    } else {
        hex(b)
    }
}
fn unhx(s: &str) -> Vec<u8> {
    if s == "-" {
        vec![]
    } else {
        unhex(s)
    }
}

/// The REAL renderer on an event stream. None = it panicked (slice index out of range).
/// What the attribute callback writes: 0 `class=c<h>`, 1 quotes and `&`, 2 nothing, 3 contains `>`
/// (outside the renderer's contract: correspondence only, no text judge).
fn attr_bytes(mode: usize, h: usize) -> Vec<u8> {
    match mode {
        1 => format!("class=\"h{h}\" data-q='a&b'").into_bytes(),
        2 => Vec::new(),
        3 => format!("x>y{h}").into_bytes(),
        _ => format!("class=c{h}").into_bytes(),
    }
}

fn real_render(evs: &[HighlightEvent], src: &[u8], crh: Option<usize>) -> Option<(Vec<u8>, Vec<u32>)> {
    real_render_attr(evs, src, crh, 0)
}

fn real_render_attr(evs: &[HighlightEvent], src: &[u8], crh: Option<usize>, mode: usize) -> Option<(Vec<u8>, Vec<u32>)> {
    let evs = evs.to_vec();
    let src = src.to_vec();
    panic::catch_unwind(move || {
        let mut r = HtmlRenderer::new();
        r.set_carriage_return_highlight(crh.map(Highlight));
        r.render(evs.into_iter().map(Ok), &src, &|h: Highlight, out: &mut Vec<u8>| {
            out.extend(attr_bytes(mode, h.0));
        })
        .unwrap();
        (r.html.clone(), r.line_offsets.clone())
    })
    .ok()
}

fn emit_lossy(out: &mut impl Write, id: &str, bytes: &[u8]) {
    let mut got = Vec::new();
    let mut pieces = 0usize;
    for p in LossyUtf8::new(bytes) {
        got.extend_from_slice(p.as_bytes());
        pieces += 1;
        if pieces > 4 * bytes.len() + 8 {
            break;
        }
    }
    let std_ = String::from_utf8_lossy(bytes).into_owned().into_bytes();
    writeln!(out, "spec {id} L {}", hx(bytes)).unwrap();
    writeln!(out, "case {id}\nbytes {}\nimpl {}\nstd {}\nrun lossy", hx(bytes), hx(&got), hx(&std_)).unwrap();
}

fn emit_render(out: &mut impl Write, id: &str, crh: Option<usize>, src: &[u8], evs: &[HighlightEvent]) {
    emit_render_attr(out, id, crh, src, evs, 0)
}

fn emit_render_attr(out: &mut impl Write, id: &str, crh: Option<usize>, src: &[u8], evs: &[HighlightEvent], mode: usize) {
    let crs = crh.map(|c| c.to_string()).unwrap_or("-".into());
    writeln!(out, "spec {id} R {crs} {} {} {mode}", hx(src), evs_to_string(evs)).unwrap();
    writeln!(out, "case {id}\nsrc {}\nevs {}\ncrh {crs}\nattr {mode}", hx(src), evs_to_string(evs)).unwrap();
    match real_render_attr(evs, src, crh, mode) {
        Some((html, lines)) => {
            let l: Vec<String> = lines.iter().map(|x| x.to_string()).collect();
            writeln!(out, "html {}\nlines {}", hx(&html), if l.is_empty() { "-".into() } else { l.join(",") }).unwrap();
        }
        None => writeln!(out, "html PANIC").unwrap(),
    }
    writeln!(out, "run render").unwrap();
}

// ---------------------------------------------------------------------------------------------
// independent computation of injection content ranges and local references (public query API)

fn to_range(src: &[u8], s: usize, e: usize) -> Range {
    if e == usize::MAX {
        Range { start_byte: s, end_byte: e, start_point: point_at(src, s.min(src.len())), end_point: Point::new(usize::MAX, usize::MAX) }
    } else {
        Range { start_byte: s, end_byte: e, start_point: point_at(src, s.min(src.len())), end_point: point_at(src, e.min(src.len())) }
    }
}

fn content_ranges(parent: &[(usize, usize)], nodes: &[Node], include_children: bool) -> Vec<(usize, usize)> {
    let mut out = Vec::new();
    for n in nodes {
        let mut segs = vec![(n.start_byte(), n.end_byte())];
        if !include_children {
            let mut c = n.walk();
            for ch in n.children(&mut c) {
                let (cs, ce) = (ch.start_byte(), ch.end_byte());
                let mut next = Vec::new();
                for (s, e) in segs {
                    if ce <= s || e <= cs {
                        next.push((s, e));
                    } else {
                        if s < cs {
                            next.push((s, cs));
                        }
                        if ce < e {
                            next.push((ce, e));
                        }
                    }
                }
                segs = next;
            }
        }
        for (s, e) in segs {
            for &(ps, pe) in parent {
                let a = s.max(ps);
                let b = e.min(pe);
                if a < b {
                    out.push((a, b));
                }
            }
        }
    }
    out.sort();
    out
}

fn collect_injections(langs: &[LangDef], variant: usize, li: usize, ranges: &[(usize, usize)], src: &[u8], depth: usize, root: usize, out: &mut Vec<(usize, Vec<(usize, usize)>)>) {
    if depth > 10 || out.len() > 400 {
        return;
    }
    let ld = &langs[li];
    let qsrc = &ld.inj[variant];
    if qsrc.trim().is_empty() {
        return;
    }
    let mut parser = Parser::new();
    parser.set_language(&ld.language).unwrap();
    let rr: Vec<Range> = ranges.iter().map(|&(s, e)| to_range(src, s, e)).collect();
    if parser.set_included_ranges(&rr).is_err() {
        return;
    }
    let tree = match parser.parse(src, None) {
        Some(t) => t,
        None => return,
    };
    let query = Query::new(&ld.language, qsrc).expect("injection query");
    let content_ix = query.capture_index_for_name("injection.content");
    let lang_ix = query.capture_index_for_name("injection.language");
    let mut cursor = QueryCursor::new();
    let mut found: Vec<(usize, Vec<(usize, usize)>)> = Vec::new();
    // pattern -> (language, nodes, include_children) for combined patterns
    let mut combined: BTreeMap<usize, (Option<String>, Vec<Node>, bool)> = BTreeMap::new();
    let mut matches = cursor.matches(&query, tree.root_node(), src);
    while let Some(m) = matches.next() {
        let mut lang_name: Option<String> = None;
        let mut content: Option<Node> = None;
        for c in m.captures {
            if Some(c.index) == lang_ix {
                lang_name = c.node.utf8_text(src).ok().map(|s| s.to_string());
            } else if Some(c.index) == content_ix {
                content = Some(c.node);
            }
        }
        let mut include_children = false;
        let mut is_combined = false;
        for p in query.property_settings(m.pattern_index) {
            match p.key.as_ref() {
                "injection.language" if lang_name.is_none() => lang_name = p.value.as_ref().map(|v| v.to_string()),
                "injection.self" if lang_name.is_none() => lang_name = Some(LANGS[li].to_string()),
                "injection.parent" if lang_name.is_none() => lang_name = Some(LANGS[root].to_string()),
                "injection.include-children" => include_children = true,
                "injection.combined" => is_combined = true,
                _ => {}
            }
        }
        if is_combined {
            let e = combined.entry(m.pattern_index).or_insert((None, Vec::new(), false));
            if lang_name.is_some() {
                e.0 = lang_name;
            }
            if let Some(n) = content {
                e.1.push(n);
            }
            e.2 = include_children;
        } else if let (Some(name), Some(node)) = (lang_name, content) {
            if let Some(ci) = lang_index(&name) {
                let r = content_ranges(ranges, &[node], include_children);
                if !r.is_empty() {
                    found.push((ci, r));
                }
            }
        }
    }
    for (_, (name, nodes, incl)) in combined {
        if let (Some(name), false) = (name, nodes.is_empty()) {
            if let Some(ci) = lang_index(&name) {
                let r = content_ranges(ranges, &nodes, incl);
                if !r.is_empty() {
                    found.push((ci, r));
                }
            }
        }
    }
    drop(matches);
    for (ci, r) in found {
        out.push((ci, r.clone()));
        collect_injections(langs, variant, ci, &r, src, depth + 1, root, out);
    }
}

/// (ref_start, ref_end, def_start, def_end) for references of the ROOT layer that resolve to a
/// definition, by the documented scoping rules (innermost enclosing scope first, last matching
/// definition in it, the reference must start at or after the end of the definition's value).
fn local_pairs(ld: &LangDef, src: &[u8]) -> Vec<(usize, usize, usize, usize)> {
    if ld.locals.trim().is_empty() {
        return vec![];
    }
    let mut parser = Parser::new();
    parser.set_language(&ld.language).unwrap();
    let tree = match parser.parse(src, None) {
        Some(t) => t,
        None => return vec![],
    };
    let query = Query::new(&ld.language, &ld.locals).expect("locals query");
    let scope_ix = query.capture_index_for_name("local.scope");
    let def_ix = query.capture_index_for_name("local.definition");
    let val_ix = query.capture_index_for_name("local.definition-value");
    let ref_ix = query.capture_index_for_name("local.reference");
    let mut scopes: Vec<(usize, usize, bool)> = vec![(0, usize::MAX, false)];
    let mut defs: Vec<(usize, usize, usize, Vec<u8>)> = Vec::new(); // start, end, value_end, name
    let mut refs: Vec<(usize, usize, Vec<u8>)> = Vec::new();
    let mut cursor = QueryCursor::new();
    let mut matches = cursor.matches(&query, tree.root_node(), src);
    while let Some(m) = matches.next() {
        let mut value_end = 0usize;
        for c in m.captures {
            if Some(c.index) == val_ix {
                value_end = c.node.end_byte();
            }
        }
        for c in m.captures {
            let (s, e) = (c.node.start_byte(), c.node.end_byte());
            if Some(c.index) == scope_ix {
                let mut inherits = true;
                for p in query.property_settings(m.pattern_index) {
                    if p.key.as_ref() == "local.scope-inherits" {
                        inherits = p.value.as_ref().map_or(true, |v| v.as_ref() == "true");
                    }
                }
                scopes.push((s, e, inherits));
            } else if Some(c.index) == def_ix {
                if std::str::from_utf8(&src[s..e]).is_ok() {
                    defs.push((s, e, value_end, src[s..e].to_vec()));
                }
            } else if Some(c.index) == ref_ix && std::str::from_utf8(&src[s..e]).is_ok() {
                refs.push((s, e, src[s..e].to_vec()));
            }
        }
    }
    scopes.sort();
    scopes.dedup();
    // innermost scope on the stack when a node starting at p is processed
    let enclosing = |p: usize| -> Vec<(usize, usize, bool)> {
        let mut v: Vec<(usize, usize, bool)> = scopes.iter().copied().filter(|&(s, e, _)| s <= p && p <= e).collect();
        v.sort_by(|a, b| b.0.cmp(&a.0).then(a.1.cmp(&b.1)));
        v
    };
    let mut pairs = Vec::new();
    for (rs, re, name) in &refs {
        if defs.iter().any(|d| d.0 == *rs && d.1 == *re) {
            continue; // the definition node itself
        }
        'scopes: for sc in enclosing(*rs) {
            let mut best: Option<&(usize, usize, usize, Vec<u8>)> = None;
            for d in &defs {
                if d.0 < *rs && &d.3 == name && *rs >= d.2 && enclosing(d.0).first() == Some(&sc) {
                    if best.map(|b| d.0 > b.0).unwrap_or(true) {
                        best = Some(d);
                    }
                }
            }
            if let Some(d) = best {
                pairs.push((*rs, *re, d.0, d.1));
                break 'scopes;
            }
            if !sc.2 {
                break 'scopes; // a scope that does not inherit hides the outer definitions
            }
        }
    }
    pairs
}

// ---------------------------------------------------------------------------------------------

struct World {
    langs: Vec<LangDef>,
    highlighter: Highlighter, // reused across all documents
    /// when a document is run as a step of a history, the replay spec of its cases is the whole history
    spec_override: Option<String>,
}

fn names_of(langs: &[LangDef], variant: usize) -> Vec<String> {
    let mut all = Vec::new();
    for (i, ld) in langs.iter().enumerate() {
        let cfg = HighlightConfiguration::new(ld.language.clone(), LANGS[i], &ld.highlights, &ld.inj[variant], &ld.locals).expect("config");
        for n in cfg.names() {
            if n.starts_with("s.") || n.starts_with("t.") || n.starts_with("h.") {
                all.push(n.to_string());
            }
        }
    }
    all.sort();
    all.dedup();
    all
}

fn pick_names(all: &[String], mode: &str) -> Vec<String> {
    match mode {
        "all" => all.to_vec(),
        "none" => vec![],
        "generic" => vec!["s".into(), "t".into(), "h".into()],
        m => {
            let seed: u64 = m.trim_start_matches("sub").parse().unwrap_or(1);
            let mut r = Rng::new(seed);
            all.iter().filter(|_| r.chance(1, 2)).cloned().collect()
        }
    }
}

fn emit_highlight(w: &mut World, out: &mut impl Write, id: &str, root: usize, variant: usize, names_mode: &str, crh: Option<usize>, src: &[u8]) -> bool {
    let all = names_of(&w.langs, variant);
    let names = pick_names(&all, names_mode);
    let mut cfgs = Vec::new();
    for (i, ld) in w.langs.iter().enumerate() {
        let mut cfg = HighlightConfiguration::new(ld.language.clone(), LANGS[i], &ld.highlights, &ld.inj[variant], &ld.locals).expect("config");
        cfg.configure(&names);
        cfgs.push(cfg);
    }
    let crs = crh.map(|c| c.to_string()).unwrap_or("-".into());
    watch_begin(w.spec_override.clone().unwrap_or_else(|| format!("H {} {variant} {names_mode} {crs} {}", LANGS[root], hx(src))));
    let mut evs = Vec::new();
    let mut err = None;
    {
        let cfgs_ref = &cfgs;
        let hl = &mut w.highlighter;
        let res = panic::catch_unwind(panic::AssertUnwindSafe(|| {
            let mut evs = Vec::new();
            let mut err = None;
            match hl.highlight(&cfgs_ref[root], src, None, None, move |name| lang_index(name).map(|i| &cfgs_ref[i])) {
                Ok(it) => {
                    for e in it {
                        match e {
                            Ok(e) => evs.push(e),
                            Err(e) => {
                                err = Some(format!("{e}"));
                                break;
                            }
                        }
                        if evs.len() > 200_000 {
                            err = Some("too-many-events".into());
                            break;
                        }
                    }
                }
                Err(e) => err = Some(format!("{e}")),
            }
            (evs, err)
        }));
        match res {
            Ok((e, r)) => {
                evs = e;
                err = r;
            }
            Err(_) => {
                // the real code panicked: report it with this input, continue with a fresh highlighter
                err = Some("panic".into());
                w.highlighter = Highlighter::new();
            }
        }
    }
    match &w.spec_override {
        Some(sp) => writeln!(out, "spec {id} {sp}").unwrap(),
        None => writeln!(out, "spec {id} H {} {variant} {names_mode} {crs} {}", LANGS[root], hx(src)).unwrap(),
    }
    writeln!(out, "case {id}\nsrc {}\nevs {}\ncrh {crs}", hx(src), evs_to_string(&evs)).unwrap();
    if let Some(e) = &err {
        writeln!(out, "error {}", e.replace(' ', "_")).unwrap();
    }
    match real_render(&evs, src, crh) {
        Some((html, lines)) => {
            let l: Vec<String> = lines.iter().map(|x| x.to_string()).collect();
            writeln!(out, "html {}\nlines {}", hx(&html), if l.is_empty() { "-".into() } else { l.join(",") }).unwrap();
        }
        None => writeln!(out, "html PANIC").unwrap(),
    }
    // language of every highlight index (0 = root language)
    let langof: Vec<String> = names
        .iter()
        .map(|n| {
            let li = match n.split('.').next().unwrap() {
                "s" => 0,
                "t" => 1,
                _ => 2,
            };
            (if li == root { 0 } else { li + 1 }).to_string()
        })
        .collect();
    writeln!(out, "langof {}", if langof.is_empty() { "-".into() } else { langof.join(",") }).unwrap();
    let mut injs = Vec::new();
    collect_injections(&w.langs, variant, root, &[(0, usize::MAX)], src, 0, root, &mut injs);
    for (li, rs) in &injs {
        let r: Vec<String> = rs.iter().map(|(s, e)| format!("{s}-{e}")).collect();
        writeln!(out, "inj {} {}", li + 1, r.join(",")).unwrap();
    }
    // (only when every capture name is recognised: then every definition leaf has its own Start)
    let pairs = if names_mode == "all" || names_mode == "generic" { local_pairs(&w.langs[root], src) } else { vec![] };
    if !pairs.is_empty() {
        let p: Vec<String> = pairs.iter().map(|(a, b, c, d)| format!("{a}-{b}-{c}-{d}")).collect();
        writeln!(out, "locals {}", p.join(",")).unwrap();
    }
    writeln!(out, "run hl").unwrap();
    watch_end();
    !injs.is_empty()
}

/// `HighlightConfiguration::configure`'s name matching (best = recognised name with most parts, all
/// of which occur in the capture name), recomputed here because `highlight_indices` is private.
fn highlight_index(capture_name: &str, names: &[String]) -> Option<usize> {
    let parts: Vec<&str> = capture_name.split('.').collect();
    let mut best = None;
    let mut best_len = 0;
    for (i, n) in names.iter().enumerate() {
        let mut len = 0;
        let mut ok = true;
        for p in n.split('.') {
            len += 1;
            if !parts.contains(&p) {
                ok = false;
                break;
            }
        }
        if ok && len > best_len {
            best = Some(i);
            best_len = len;
        }
    }
    best
}

/// Single layer: highlights query only.  Real events + the collapsed capture list of the layer.
fn emit_merge(w: &mut World, out: &mut impl Write, id: &str, li: usize, names_mode: &str, src: &[u8]) {
    let ld = &w.langs[li];
    let all = names_of(&w.langs, 0);
    let names = pick_names(&all, names_mode);
    let mut cfg = HighlightConfiguration::new(ld.language.clone(), LANGS[li], &ld.highlights, "", "").expect("config");
    cfg.configure(&names);
    watch_begin(format!("M {} {names_mode} {}", LANGS[li], hx(src)));
    let mut evs = Vec::new();
    let mut err = None;
    match w.highlighter.highlight(&cfg, src, None, None, |_| None) {
        Ok(it) => {
            for e in it {
                match e {
                    Ok(e) => evs.push(e),
                    Err(e) => {
                        err = Some(format!("{e}"));
                        break;
                    }
                }
            }
        }
        Err(e) => err = Some(format!("{e}")),
    }
    let mut parser = Parser::new();
    parser.set_language(&ld.language).unwrap();
    let tree = parser.parse(src, None).expect("parse");
    let query = Query::new(&ld.language, &ld.highlights).expect("highlights query");
    let cap_names = query.capture_names();
    let mut cursor = QueryCursor::new();
    let mut caps: Vec<(Node, Option<usize>)> = Vec::new();
    let mut it = cursor.captures(&query, tree.root_node(), src);
    while let Some((m, ci)) = it.next() {
        let c = m.captures[*ci];
        let h = highlight_index(cap_names[c.index as usize], &names);
        match caps.last_mut() {
            Some(last) if last.0 == c.node => last.1 = h, // later patterns for the same node win
            _ => caps.push((c.node, h)),
        }
    }
    let cs: Vec<String> = caps.iter().map(|(n, h)| format!("{}-{}-{}", n.start_byte(), n.end_byte(), h.map(|x| x.to_string()).unwrap_or("n".into()))).collect();
    writeln!(out, "spec {id} M {} {names_mode} {}", LANGS[li], hx(src)).unwrap();
    writeln!(out, "case {id}\nsrc {}\nevs {}", hx(src), evs_to_string(&evs)).unwrap();
    if let Some(e) = &err {
        writeln!(out, "error {}", e.replace(' ', "_")).unwrap();
    }
    writeln!(out, "caps {}\nrun merge", if cs.is_empty() { "-".into() } else { cs.join(",") }).unwrap();
    watch_end();
}

/// One call of the injection-range computation as data for the Lean port of `intersect_ranges`:
/// `ir <incl> <parent ranges> <nodes: s-e:child:child;…> <ranges the harness used>`.
fn ir_line(src: &[u8], parents: &[(usize, usize)], nodes: &[Node], incl: bool, result: &[(usize, usize)]) -> String {
    let _ = src;
    let rg = |v: &[(usize, usize)]| if v.is_empty() { "-".to_string() } else { v.iter().map(|(s, e)| format!("{s}-{e}")).collect::<Vec<_>>().join(",") };
    let ns: Vec<String> = nodes
        .iter()
        .map(|n| {
            let mut parts = vec![format!("{}-{}", n.start_byte(), n.end_byte())];
            let mut c = n.walk();
            for ch in n.children(&mut c) {
                parts.push(format!("{}-{}", ch.start_byte(), ch.end_byte()));
            }
            parts.join(":")
        })
        .collect();
    // with hooks/C17-reexport.diff in /repo (and `--cfg tsv_c17_hook`): also the REAL private function's answer
    #[cfg(tsv_c17_hook)]
    {
        let pr: Vec<Range> = parents.iter().map(|&(s, e)| to_range(src, s, e)).collect();
        let real: Vec<(usize, usize)> = tree_sitter_highlight::verif::intersect_ranges(&pr, nodes, incl).iter().map(|r| (r.start_byte, r.end_byte)).collect();
        return format!("ir {} {} {} {} {}", incl as u8, rg(parents), ns.join(";"), rg(result), rg(&real));
    }
    #[allow(unreachable_code)]
    format!("ir {} {} {} {}", incl as u8, rg(parents), ns.join(";"), rg(result))
}

struct LayerOut {
    depth: usize,
    caps: Vec<String>,
}

/// Mirror of `HighlightIterLayer::new` + the injection branch of `HighlightIter::next`, through the
/// public API only: returns the ids of the layers that `new` would return for (language, depth,
/// ranges), having appended them (and, recursively, the layers of their injections) to `out`.
/// Each layer's caps are its RAW captures in cursor order: `s-e-node-<h|n>` for a highlight pattern,
/// `s-e-node-I<id+id..>` for the first capture of an injection match (the match is removed).
#[allow(clippy::too_many_arguments)]
fn build_layers(langs: &[LangDef], cfgs: &[HighlightConfiguration], variant: usize, names: &[String], li0: usize, depth0: usize, ranges0: Vec<(usize, usize)>, src: &[u8], out: &mut Vec<LayerOut>, overflow: &mut bool, irs: &mut Vec<String>) -> Vec<usize> {
    let mut result = Vec::new();
    let mut queue: Vec<(usize, usize, Vec<(usize, usize)>)> = Vec::new();
    let (mut li, mut depth, mut ranges) = (li0, depth0, ranges0);
    loop {
        if depth > 12 || out.len() > 250 {
            *overflow = true;
            return result;
        }
        let ld = &langs[li];
        let mut parser = Parser::new();
        parser.set_language(&ld.language).unwrap();
        let rr: Vec<Range> = ranges.iter().map(|&(s, e)| to_range(src, s, e)).collect();
        if parser.set_included_ranges(&rr).is_ok() {
            let tree = parser.parse(src, None).expect("parse");
            let inj_src = &ld.inj[variant];
            let inj_patterns = if inj_src.trim().is_empty() { 0 } else { Query::new(&ld.language, inj_src).expect("inj query").pattern_count() };
            // combined injections of this layer (processed eagerly, queued behind this layer)
            if inj_patterns > 0 {
                let cq = Query::new(&ld.language, inj_src).unwrap();
                let content_ix = cq.capture_index_for_name("injection.content");
                let lang_ix = cq.capture_index_for_name("injection.language");
                let mut entries: Vec<(Option<String>, Vec<Node>, bool)> = vec![(None, Vec::new(), false); cq.pattern_count()];
                let mut cursor = QueryCursor::new();
                let mut matches = cursor.matches(&cq, tree.root_node(), src);
                while let Some(m) = matches.next() {
                    if !cq.property_settings(m.pattern_index).iter().any(|p| p.key.as_ref() == "injection.combined") {
                        continue;
                    }
                    let mut lang_name: Option<String> = None;
                    let mut content = None;
                    for c in m.captures {
                        if Some(c.index) == lang_ix {
                            lang_name = c.node.utf8_text(src).ok().map(|s| s.to_string());
                        } else if Some(c.index) == content_ix {
                            content = Some(c.node);
                        }
                    }
                    let mut incl = false;
                    for p in cq.property_settings(m.pattern_index) {
                        match p.key.as_ref() {
                            "injection.language" if lang_name.is_none() => lang_name = p.value.as_ref().map(|v| v.to_string()),
                            "injection.include-children" => incl = true,
                            _ => {}
                        }
                    }
                    let e = &mut entries[m.pattern_index];
                    if lang_name.is_some() {
                        e.0 = lang_name;
                    }
                    if let Some(n) = content {
                        e.1.push(n);
                    }
                    e.2 = incl;
                }
                drop(matches);
                for (name, nodes, incl) in entries {
                    if let (Some(name), false) = (name, nodes.is_empty()) {
                        if let Some(ci) = lang_index(&name) {
                            let r = content_ranges(&ranges, &nodes, incl);
                            irs.push(ir_line(src, &ranges, &nodes, incl, &r));
                            if !r.is_empty() {
                                queue.push((ci, depth + 1, r));
                            }
                        }
                    }
                }
            }
            // the layer itself: raw captures of the configuration's query
            let id = out.len();
            out.push(LayerOut { depth, caps: Vec::new() });
            let query = &cfgs[li].query;
            let content_ix = query.capture_index_for_name("injection.content");
            let lang_ix = query.capture_index_for_name("injection.language");
            let cap_names = query.capture_names();
            let mut caps = Vec::new();
            let mut cursor = QueryCursor::new();
            let mut it = cursor.captures(query, tree.root_node(), src);
            while let Some((m, ci)) = it.next() {
                let c = m.captures[*ci];
                let (s, e, nid) = (c.node.start_byte(), c.node.end_byte(), c.node.id());
                if m.pattern_index < inj_patterns {
                    let mut lang_name: Option<String> = None;
                    let mut content = None;
                    for c2 in m.captures {
                        if Some(c2.index) == lang_ix {
                            lang_name = c2.node.utf8_text(src).ok().map(|s| s.to_string());
                        } else if Some(c2.index) == content_ix {
                            content = Some(c2.node);
                        }
                    }
                    let mut incl = false;
                    for p in query.property_settings(m.pattern_index) {
                        match p.key.as_ref() {
                            "injection.language" if lang_name.is_none() => lang_name = p.value.as_ref().map(|v| v.to_string()),
                            "injection.include-children" => incl = true,
                            _ => {}
                        }
                    }
                    m.remove();
                    let mut ids = Vec::new();
                    if let (Some(name), Some(node)) = (lang_name, content) {
                        if let Some(ci2) = lang_index(&name) {
                            let r = content_ranges(&ranges, &[node], incl);
                            irs.push(ir_line(src, &ranges, &[node], incl, &r));
                            if !r.is_empty() {
                                ids = build_layers(langs, cfgs, variant, names, ci2, depth + 1, r, src, out, overflow, irs);
                            }
                        }
                    }
                    let idstr: Vec<String> = ids.iter().map(|x| x.to_string()).collect();
                    caps.push(format!("{s}-{e}-{nid}-I{}", idstr.join("+")));
                } else {
                    let h = highlight_index(cap_names[c.index as usize], names);
                    caps.push(format!("{s}-{e}-{nid}-{}", h.map(|x| x.to_string()).unwrap_or("n".into())));
                }
            }
            out[id].caps = caps;
            result.push(id);
        }
        if queue.is_empty() {
            break;
        }
        let (a, b, c) = queue.remove(0);
        li = a;
        depth = b;
        ranges = c;
    }
    result
}

/// Multi-layer highlight without locals queries: real events + all layers as data.
fn emit_multi(w: &mut World, out: &mut impl Write, id: &str, root: usize, variant: usize, names_mode: &str, src: &[u8]) -> bool {
    let all = names_of(&w.langs, variant);
    let names = pick_names(&all, names_mode);
    let mut cfgs = Vec::new();
    for (i, ld) in w.langs.iter().enumerate() {
        let mut cfg = HighlightConfiguration::new(ld.language.clone(), LANGS[i], &ld.highlights, &ld.inj[variant], "").expect("config");
        cfg.configure(&names);
        cfgs.push(cfg);
    }
    watch_begin(format!("N {} {variant} {names_mode} {}", LANGS[root], hx(src)));
    let mut evs = Vec::new();
    let mut err = None;
    {
        let cfgs_ref = &cfgs;
        match w.highlighter.highlight(&cfgs[root], src, None, None, move |name| lang_index(name).map(|i| &cfgs_ref[i])) {
            Ok(it) => {
                for e in it {
                    match e {
                        Ok(e) => evs.push(e),
                        Err(e) => {
                            err = Some(format!("{e}"));
                            break;
                        }
                    }
                    if evs.len() > 200_000 {
                        err = Some("too-many-events".into());
                        break;
                    }
                }
            }
            Err(e) => err = Some(format!("{e}")),
        }
    }
    let mut layers = Vec::new();
    let mut overflow = false;
    let mut irs = Vec::new();
    let top = build_layers(&w.langs, &cfgs, variant, &names, root, 0, vec![(0, usize::MAX)], src, &mut layers, &mut overflow, &mut irs);
    watch_end();
    if overflow {
        return false;
    }
    writeln!(out, "spec {id} N {} {variant} {names_mode} {}", LANGS[root], hx(src)).unwrap();
    writeln!(out, "case {id}\nsrc {}\nevs {}", hx(src), evs_to_string(&evs)).unwrap();
    if let Some(e) = &err {
        writeln!(out, "error {}", e.replace(' ', "_")).unwrap();
    }
    for (i, l) in layers.iter().enumerate() {
        writeln!(out, "layer {i} {} {}", l.depth, if l.caps.is_empty() { "-".into() } else { l.caps.join(",") }).unwrap();
    }
    for l in &irs {
        writeln!(out, "{l}").unwrap();
    }
    let t: Vec<String> = top.iter().map(|x| x.to_string()).collect();
    writeln!(out, "top {}\nrun mmerge", if t.is_empty() { "-".into() } else { t.join(",") }).unwrap();
    layers.len() > 1
}

/// Single layer with highlights + locals queries (no injections): real events + the raw captures
/// classified like `HighlightIter::next` does (pattern range first, then capture name).
fn emit_locals(w: &mut World, out: &mut impl Write, id: &str, li: usize, names_mode: &str, src: &[u8]) {
    let ld = &w.langs[li];
    let all = names_of(&w.langs, 0);
    let names = pick_names(&all, names_mode);
    let mut cfg = HighlightConfiguration::new(ld.language.clone(), LANGS[li], &ld.highlights, "", &ld.locals).expect("config");
    cfg.configure(&names);
    watch_begin(format!("K {} {names_mode} {}", LANGS[li], hx(src)));
    let mut evs = Vec::new();
    let mut err = None;
    match w.highlighter.highlight(&cfg, src, None, None, |_| None) {
        Ok(it) => {
            for e in it {
                match e {
                    Ok(e) => evs.push(e),
                    Err(e) => {
                        err = Some(format!("{e}"));
                        break;
                    }
                }
            }
        }
        Err(e) => err = Some(format!("{e}")),
    }
    let locals_patterns = if ld.locals.trim().is_empty() { 0 } else { Query::new(&ld.language, &ld.locals).expect("locals query").pattern_count() };
    let mut parser = Parser::new();
    parser.set_language(&ld.language).unwrap();
    let tree = parser.parse(src, None).expect("parse");
    let query = &cfg.query;
    let scope_ix = query.capture_index_for_name("local.scope");
    let def_ix = query.capture_index_for_name("local.definition");
    let val_ix = query.capture_index_for_name("local.definition-value");
    let ref_ix = query.capture_index_for_name("local.reference");
    let cap_names = query.capture_names();
    let mut interned: Vec<Vec<u8>> = Vec::new();
    let mut intern = |b: &[u8]| -> usize {
        if let Some(i) = interned.iter().position(|x| x == b) {
            i
        } else {
            interned.push(b.to_vec());
            interned.len() - 1
        }
    };
    let mut caps = Vec::new();
    let mut cursor = QueryCursor::new();
    let mut it = cursor.captures(query, tree.root_node(), src);
    while let Some((m, ci)) = it.next() {
        let c = m.captures[*ci];
        let (s, e, nid) = (c.node.start_byte(), c.node.end_byte(), c.node.id());
        let text = &src[s.min(src.len())..e.min(src.len())];
        let ok = std::str::from_utf8(text).is_ok() as u8;
        let kind = if m.pattern_index < locals_patterns {
            if Some(c.index) == scope_ix {
                let mut inherits = true;
                for p in query.property_settings(m.pattern_index) {
                    if p.key.as_ref() == "local.scope-inherits" {
                        inherits = p.value.as_ref().map_or(true, |v| v.as_ref() == "true");
                    }
                }
                format!("S{}", inherits as u8)
            } else if Some(c.index) == def_ix {
                let mut value_end = 0usize;
                for c2 in m.captures {
                    if Some(c2.index) == val_ix {
                        value_end = c2.node.end_byte();
                    }
                }
                if std::env::var("VERIF_C17_DEBUG").is_ok() {
                    eprintln!("def capture: match has {} captures, value_ix={:?}, indices={:?}", m.captures.len(), val_ix, m.captures.iter().map(|c| c.index).collect::<Vec<_>>());
                }
                format!("D{}:{}:{}", intern(text), value_end, ok)
            } else if Some(c.index) == ref_ix {
                format!("R{}:{}", intern(text), ok)
            } else {
                "O".to_string()
            }
        } else {
            let nonlocal = query.property_predicates(m.pattern_index).iter().any(|(p, positive)| !*positive && p.key.as_ref() == "local");
            let h = highlight_index(cap_names[c.index as usize], &names);
            format!("H{}:{}", h.map(|x| x.to_string()).unwrap_or("n".into()), nonlocal as u8)
        };
        caps.push(format!("{s}-{e}-{nid}-{kind}"));
    }
    watch_end();
    writeln!(out, "spec {id} K {} {names_mode} {}", LANGS[li], hx(src)).unwrap();
    writeln!(out, "case {id}\nsrc {}\nevs {}", hx(src), evs_to_string(&evs)).unwrap();
    if let Some(e) = &err {
        writeln!(out, "error {}", e.replace(' ', "_")).unwrap();
    }
    writeln!(out, "lcaps {}\nrun lmerge", if caps.is_empty() { "-".into() } else { caps.join(",") }).unwrap();
}

struct FullOut {
    defs: Vec<(usize, usize, Vec<(usize, usize)>, Vec<String>)>, // lang, depth, ranges, caps
    news: Vec<(usize, usize, Vec<(usize, usize)>, Vec<usize>)>,   // lang, depth, ranges, ids
    names: Vec<Vec<u8>>,                                          // interned strings; 0..3 = LANGS
    overflow: bool,
}

impl FullOut {
    fn intern(&mut self, b: &[u8]) -> usize {
        if let Some(i) = self.names.iter().position(|x| x == b) {
            i
        } else {
            self.names.push(b.to_vec());
            self.names.len() - 1
        }
    }
}

/// What the real `injection_for_match` + injection branch would do (mirror), AND the raw data of the
/// match for the model's own `injectionForMatch`.
struct InjData {
    lang_name: Option<String>,
    content: Option<(usize, usize)>,
    include_children: bool,
    kind: String,
}

fn inj_data<'t>(fo: &mut FullOut, query: &Query, m: &tree_sitter::QueryMatch<'_, 't>, src: &[u8], self_lang: &str, root_lang: &str) -> (InjData, Option<Node<'t>>) {
    let content_ix = query.capture_index_for_name("injection.content");
    let lang_ix = query.capture_index_for_name("injection.language");
    let mut lang_name: Option<String> = None;
    let mut lang_cap: Option<usize> = None;
    let mut content: Option<Node<'t>> = None;
    for c in m.captures {
        if Some(c.index) == lang_ix {
            lang_name = c.node.utf8_text(src).ok().map(|s| s.to_string());
            lang_cap = lang_name.as_ref().map(|s| fo.intern(s.as_bytes()));
        } else if Some(c.index) == content_ix {
            content = Some(c.node);
        }
    }
    let mut include_children = false;
    let mut props = Vec::new();
    for p in query.property_settings(m.pattern_index) {
        match p.key.as_ref() {
            "injection.language" => {
                if let Some(v) = p.value.as_ref() {
                    props.push(format!("L{}", fo.intern(v.as_bytes())));
                    if lang_name.is_none() {
                        lang_name = Some(v.to_string());
                    }
                } else {
                    props.push("O".into());
                }
            }
            "injection.self" => {
                props.push("S".into());
                if lang_name.is_none() {
                    lang_name = Some(self_lang.to_string());
                }
            }
            "injection.parent" => {
                props.push("P".into());
                if lang_name.is_none() {
                    lang_name = Some(root_lang.to_string());
                }
            }
            "injection.include-children" => {
                props.push("C".into());
                include_children = true;
            }
            _ => props.push("O".into()),
        }
    }
    let content_s = match content {
        Some(n) => {
            let mut parts = vec![format!("{}~{}", n.start_byte(), n.end_byte())];
            let mut c = n.walk();
            for ch in n.children(&mut c) {
                parts.push(format!("{}~{}", ch.start_byte(), ch.end_byte()));
            }
            parts.join(":")
        }
        None => "n".into(),
    };
    let kind = format!("I{};{};{}", lang_cap.map(|x| x.to_string()).unwrap_or("n".into()), content_s, if props.is_empty() { "_".into() } else { props.join(".") });
    (InjData { lang_name, content: content.map(|n| (n.start_byte(), n.end_byte())), include_children, kind }, content)
}

/// Mirror of `HighlightIterLayer::new` for configurations WITH locals; fills `fo`.
#[allow(clippy::too_many_arguments)]
fn build_full(langs: &[LangDef], cfgs: &[HighlightConfiguration], variant: usize, names: &[String], li0: usize, depth0: usize, ranges0: Vec<(usize, usize)>, src: &[u8], root: usize, fo: &mut FullOut) -> Vec<usize> {
    let mut result = Vec::new();
    let mut queue: Vec<(usize, usize, Vec<(usize, usize)>)> = Vec::new();
    let (mut li, mut depth, mut ranges) = (li0, depth0, ranges0.clone());
    loop {
        if depth > 12 || fo.defs.len() > 250 {
            fo.overflow = true;
            return result;
        }
        let ld = &langs[li];
        let mut parser = Parser::new();
        parser.set_language(&ld.language).unwrap();
        let rr: Vec<Range> = ranges.iter().map(|&(s, e)| to_range(src, s, e)).collect();
        if parser.set_included_ranges(&rr).is_ok() {
            let tree = parser.parse(src, None).expect("parse");
            let inj_src = &ld.inj[variant];
            let inj_patterns = if inj_src.trim().is_empty() { 0 } else { Query::new(&ld.language, inj_src).expect("inj query").pattern_count() };
            let locals_patterns = if ld.locals.trim().is_empty() { 0 } else { Query::new(&ld.language, &ld.locals).expect("locals query").pattern_count() };
            if inj_patterns > 0 {
                let cq = Query::new(&ld.language, inj_src).unwrap();
                let mut entries: Vec<(Option<String>, Vec<Node>, bool)> = vec![(None, Vec::new(), false); cq.pattern_count()];
                let mut cursor = QueryCursor::new();
                let mut matches = cursor.matches(&cq, tree.root_node(), src);
                while let Some(m) = matches.next() {
                    if !cq.property_settings(m.pattern_index).iter().any(|p| p.key.as_ref() == "injection.combined") {
                        continue;
                    }
                    // `new` passes its own `parent_name` (None from `highlight`, the root language from `next`)
                    let parent = if depth0 == 0 { "" } else { LANGS[root] };
                    let (d, node) = inj_data(fo, &cq, m, src, LANGS[li], parent);
                    let e = &mut entries[m.pattern_index];
                    if d.lang_name.is_some() {
                        e.0 = d.lang_name;
                    }
                    if let Some(n) = node {
                        e.1.push(n);
                    }
                    e.2 = d.include_children;
                }
                drop(matches);
                for (name, nodes, incl) in entries {
                    if let (Some(name), false) = (name, nodes.is_empty()) {
                        if let Some(ci) = lang_index(&name) {
                            let r = content_ranges(&ranges, &nodes, incl);
                            if !r.is_empty() {
                                queue.push((ci, depth + 1, r));
                            }
                        }
                    }
                }
            }
            let id = fo.defs.len();
            fo.defs.push((li, depth, ranges.clone(), Vec::new()));
            let query = &cfgs[li].query;
            let scope_ix = query.capture_index_for_name("local.scope");
            let def_ix = query.capture_index_for_name("local.definition");
            let val_ix = query.capture_index_for_name("local.definition-value");
            let ref_ix = query.capture_index_for_name("local.reference");
            let cap_names = query.capture_names();
            let mut caps = Vec::new();
            let mut cursor = QueryCursor::new();
            let mut it = cursor.captures(query, tree.root_node(), src);
            while let Some((m, ci)) = it.next() {
                let c = m.captures[*ci];
                let (s, e, nid) = (c.node.start_byte(), c.node.end_byte(), c.node.id());
                let text = &src[s.min(src.len())..e.min(src.len())];
                let ok = std::str::from_utf8(text).is_ok() as u8;
                let kind = if m.pattern_index < inj_patterns {
                    let (d, node) = inj_data(fo, query, m, src, LANGS[li], LANGS[root]);
                    m.remove();
                    if let (Some(name), Some(node)) = (&d.lang_name, node) {
                        if let Some(ci2) = lang_index(name) {
                            let r = content_ranges(&ranges, &[node], d.include_children);
                            if !r.is_empty() && !fo.news.iter().any(|n| n.0 == ci2 && n.1 == depth + 1 && n.2 == r) {
                                let ids = build_full(langs, cfgs, variant, names, ci2, depth + 1, r.clone(), src, root, fo);
                                fo.news.push((ci2, depth + 1, r, ids));
                            } else if !r.is_empty() {
                                // the same (language, depth, ranges) again: `new` would build an identical set of layers;
                                // the table has one entry per key, so give up on this document
                                fo.overflow = true;
                            }
                        }
                    }
                    let _ = d.content;
                    d.kind
                } else if m.pattern_index < inj_patterns + locals_patterns {
                    if Some(c.index) == scope_ix {
                        let mut inherits = true;
                        for p in query.property_settings(m.pattern_index) {
                            if p.key.as_ref() == "local.scope-inherits" {
                                inherits = p.value.as_ref().map_or(true, |v| v.as_ref() == "true");
                            }
                        }
                        format!("S{}", inherits as u8)
                    } else if Some(c.index) == def_ix {
                        let mut value_end = 0usize;
                        for c2 in m.captures {
                            if Some(c2.index) == val_ix {
                                value_end = c2.node.end_byte();
                            }
                        }
                        format!("D{}:{}:{}", fo.intern(text), value_end, ok)
                    } else if Some(c.index) == ref_ix {
                        format!("R{}:{}", fo.intern(text), ok)
                    } else {
                        "O".to_string()
                    }
                } else {
                    let nonlocal = query.property_predicates(m.pattern_index).iter().any(|(p, positive)| !*positive && p.key.as_ref() == "local");
                    let h = highlight_index(cap_names[c.index as usize], names);
                    format!("H{}:{}", h.map(|x| x.to_string()).unwrap_or("n".into()), nonlocal as u8)
                };
                caps.push(format!("{s}-{e}-{nid}-{kind}"));
            }
            fo.defs[id].3 = caps;
            result.push(id);
        }
        if queue.is_empty() {
            break;
        }
        let (a, b, c) = queue.remove(0);
        li = a;
        depth = b;
        ranges = c;
    }
    result
}

/// Multi-layer highlight with locals AND injections: real events + everything the end-to-end model needs.
fn emit_full(w: &mut World, out: &mut impl Write, id: &str, root: usize, variant: usize, names_mode: &str, src: &[u8]) -> bool {
    let all = names_of(&w.langs, variant);
    let names = pick_names(&all, names_mode);
    let mut cfgs = Vec::new();
    for (i, ld) in w.langs.iter().enumerate() {
        let mut cfg = HighlightConfiguration::new(ld.language.clone(), LANGS[i], &ld.highlights, &ld.inj[variant], &ld.locals).expect("config");
        cfg.configure(&names);
        cfgs.push(cfg);
    }
    watch_begin(w.spec_override.clone().unwrap_or_else(|| format!("F {} {variant} {names_mode} {}", LANGS[root], hx(src))));
    let mut evs = Vec::new();
    let mut err = None;
    {
        let cfgs_ref = &cfgs;
        match w.highlighter.highlight(&cfgs[root], src, None, None, move |name| lang_index(name).map(|i| &cfgs_ref[i])) {
            Ok(it) => {
                for e in it {
                    match e {
                        Ok(e) => evs.push(e),
                        Err(e) => {
                            err = Some(format!("{e}"));
                            break;
                        }
                    }
                    if evs.len() > 200_000 {
                        err = Some("too-many-events".into());
                        break;
                    }
                }
            }
            Err(e) => err = Some(format!("{e}")),
        }
    }
    let mut fo = FullOut { defs: Vec::new(), news: Vec::new(), names: LANGS.iter().map(|l| l.as_bytes().to_vec()).collect(), overflow: false };
    let top = build_full(&w.langs, &cfgs, variant, &names, root, 0, vec![(0, usize::MAX)], src, root, &mut fo);
    watch_end();
    if fo.overflow {
        return false;
    }
    let rg = |v: &[(usize, usize)]| if v.is_empty() { "-".to_string() } else { v.iter().map(|(s, e)| format!("{s}-{e}")).collect::<Vec<_>>().join(",") };
    let idl = |v: &[usize]| if v.is_empty() { "-".to_string() } else { v.iter().map(|x| x.to_string()).collect::<Vec<_>>().join(",") };
    match &w.spec_override {
        Some(sp) => writeln!(out, "spec {id} {sp}").unwrap(),
        None => writeln!(out, "spec {id} F {} {variant} {names_mode} {}", LANGS[root], hx(src)).unwrap(),
    }
    writeln!(out, "case {id}\nsrc {}\nevs {}", hx(src), evs_to_string(&evs)).unwrap();
    if let Some(e) = &err {
        writeln!(out, "error {}", e.replace(' ', "_")).unwrap();
    }
    for (i, d) in fo.defs.iter().enumerate() {
        writeln!(out, "fdef {i} {} {} {} {}", d.0, d.1, rg(&d.2), if d.3.is_empty() { "-".into() } else { d.3.join(",") }).unwrap();
    }
    for nw in &fo.news {
        writeln!(out, "fnew {} {} {} {}", nw.0, nw.1, rg(&nw.2), idl(&nw.3)).unwrap();
    }
    writeln!(out, "ftop {root} {}", idl(&top)).unwrap();
    fo.defs.len() > 1
}

/// The C API of crates/highlight/src/c_lib.rs, called through its `extern "C"` entry points.
struct CApi {
    hl: *mut tree_sitter_highlight::c::TSHighlighter,
    buf: *mut tree_sitter_highlight::c::TSHighlightBuffer, // one buffer reused for every document
    _keep: Vec<std::ffi::CString>,
    _ptrs: Vec<Vec<*const std::os::raw::c_char>>,
    names: Vec<String>,
}

fn capi_new(langs: &[LangDef], variant: usize, names: &[String]) -> (CApi, Vec<i32>) {
    use std::ffi::CString;
    use tree_sitter_highlight::c;
    let mut keep: Vec<CString> = Vec::new();
    let name_c: Vec<CString> = names.iter().map(|n| CString::new(n.as_str()).unwrap()).collect();
    let attr_c: Vec<CString> = (0..names.len()).map(|i| CString::new(format!("class=c{i}")).unwrap()).collect();
    let name_p: Vec<*const std::os::raw::c_char> = name_c.iter().map(|c| c.as_ptr()).collect();
    let attr_p: Vec<*const std::os::raw::c_char> = attr_c.iter().map(|c| c.as_ptr()).collect();
    let hl = unsafe { c::ts_highlighter_new(name_p.as_ptr(), attr_p.as_ptr(), names.len() as u32) };
    let mut codes = Vec::new();
    for (i, ld) in langs.iter().enumerate() {
        let lname = CString::new(LANGS[i]).unwrap();
        let scope = CString::new(format!("scope.{}", LANGS[i])).unwrap();
        let regex = CString::new(format!("^{}$", LANGS[i])).unwrap();
        let (h, j, l) = (&ld.highlights, &ld.inj[variant], &ld.locals);
        let rc = unsafe {
            c::ts_highlighter_add_language(hl, lname.as_ptr(), scope.as_ptr(), regex.as_ptr(), ld.language.clone(), h.as_ptr().cast(), j.as_ptr().cast(), l.as_ptr().cast(), h.len() as u32, j.len() as u32, l.len() as u32)
        };
        codes.push(rc as i32);
        keep.extend([lname, scope, regex]);
    }
    keep.extend(name_c);
    keep.extend(attr_c);
    let buf = c::ts_highlight_buffer_new();
    (CApi { hl, buf, _keep: keep, _ptrs: vec![name_p, attr_p], names: names.to_vec() }, codes)
}

impl CApi {
    /// (error code, html, line offsets)
    fn highlight(&self, scope: &str, src: &[u8], flag: Option<&std::sync::atomic::AtomicUsize>) -> (i32, Vec<u8>, Vec<u32>) {
        use tree_sitter_highlight::c;
        let sc = std::ffi::CString::new(scope).unwrap();
        unsafe {
            let rc = c::ts_highlighter_highlight(self.hl, sc.as_ptr(), src.as_ptr().cast(), src.len() as u32, self.buf, flag.map_or(std::ptr::null(), |f| f as *const _));
            let len = c::ts_highlight_buffer_len(self.buf) as usize;
            let html = std::slice::from_raw_parts(c::ts_highlight_buffer_content(self.buf), len).to_vec();
            let nl = c::ts_highlight_buffer_line_count(self.buf) as usize;
            let lines = std::slice::from_raw_parts(c::ts_highlight_buffer_line_offsets(self.buf), nl).to_vec();
            (rc as i32, html, lines)
        }
    }
}

impl Drop for CApi {
    fn drop(&mut self) {
        unsafe {
            tree_sitter_highlight::c::ts_highlight_buffer_delete(self.buf);
            tree_sitter_highlight::c::ts_highlighter_delete(self.hl);
        }
    }
}

fn capi_err(out: &mut impl Write, id: &str, name: &str, got: i32, want: i32) {
    writeln!(out, "spec {id} E {name}").unwrap();
    writeln!(out, "case {id}\ncapierr {name} {got} {want}").unwrap();
}

/// Error codes of the C API (ErrorCode: Ok 0, UnknownScope 1, Timeout 2, InvalidLanguage 3, InvalidUtf8 4,
/// InvalidRegex 5, InvalidQuery 6, InvalidLanguageName 7).
fn emit_capi_errors(w: &mut World, out: &mut impl Write) -> usize {
    use std::ffi::CString;
    use tree_sitter_highlight::c;
    let names = names_of(&w.langs, 0);
    let (api, codes) = capi_new(&w.langs, 0, &names);
    for (i, rc) in codes.iter().enumerate() {
        capi_err(out, &format!("E-add-{}", LANGS[i]), "add_language_ok", *rc, 0);
    }
    let (rc, _, _) = api.highlight("scope.nosuch", b"x = 1;", None);
    capi_err(out, "E-unknown-scope", "unknown_scope", rc, 1);
    let flag = std::sync::atomic::AtomicUsize::new(1);
    // the flag is polled every 100 iterations of the event loop (and by the parser's progress callback),
    // so it is honoured on a document with a few hundred captures, not on a tiny one
    let big: Vec<u8> = "x = x + 1;\n".repeat(300).into_bytes();
    let (rc, _, _) = api.highlight("scope.stmt", &big, Some(&flag));
    capi_err(out, "E-cancelled", "cancellation_flag_set", rc, 2);
    // a document on which the parse is not cancelled but the event loop is (the flag is then seen by
    // `render`, the other Timeout branch of the C API): found by running the Rust API with the same flag
    {
        let mut cfg = HighlightConfiguration::new(w.langs[0].language.clone(), "stmt", &w.langs[0].highlights, &w.langs[0].inj[0], &w.langs[0].locals).expect("config");
        cfg.configure(&names);
        let mut found = None;
        for k in 1..80usize {
            let doc: Vec<u8> = "x = x + 1;\n".repeat(k).into_bytes();
            let mut hl = Highlighter::new();
            let outcome = match hl.highlight(&cfg, &doc, None, Some(&flag), |_| None) {
                Ok(mut it) => {
                    if it.any(|e| e.is_err()) {
                        1
                    } else {
                        0
                    }
                }
                Err(_) => 2,
            };
            if outcome == 1 {
                found = Some(doc);
                break;
            }
        }
        if let Some(doc) = found {
            let (rc, _, _) = api.highlight("scope.stmt", &doc, Some(&flag));
            capi_err(out, "E-cancel-in-render", "cancelled_during_render", rc, 2);
        } else {
            capi_err(out, "E-cancel-in-render", "cancelled_during_render_not_reachable", 0, 0);
        }
    }
    let zero = std::sync::atomic::AtomicUsize::new(0);
    let (rc, _, _) = api.highlight("scope.stmt", &big, Some(&zero));
    capi_err(out, "E-not-cancelled", "cancellation_flag_clear", rc, 0);
    // the same buffer is usable after a cancelled call
    let (rc, html, _) = api.highlight("scope.stmt", b"x", None);
    capi_err(out, "E-after-cancel", "ok_after_cancel", rc, 0);
    capi_err(out, "E-after-cancel-html", "html_nonempty_after_cancel", (!html.is_empty()) as i32, 1);
    let ld = &w.langs[0];
    let lname = CString::new("stmt").unwrap();
    let scope = CString::new("scope.x").unwrap();
    let add = |hq: &[u8], regex: Option<&CString>, scope: &CString, lname: &CString| -> i32 {
        unsafe { c::ts_highlighter_add_language(api.hl, lname.as_ptr(), scope.as_ptr(), regex.map_or(std::ptr::null(), |r| r.as_ptr()), ld.language.clone(), hq.as_ptr().cast(), std::ptr::null(), std::ptr::null(), hq.len() as u32, 0, 0) as i32 }
    };
    capi_err(out, "E-bad-query", "invalid_query", add(b"(no_such_node) @x", None, &scope, &lname), 6);
    let bad_re = CString::new("(").unwrap();
    capi_err(out, "E-bad-regex", "invalid_regex", add(b"(number) @s.number", Some(&bad_re), &scope, &lname), 5);
    let bad_scope = CString::new(vec![0xffu8, 0x41]).unwrap();
    capi_err(out, "E-bad-scope-utf8", "invalid_utf8_scope", add(b"(number) @s.number", None, &bad_scope, &lname), 4);
    let bad_name = CString::new(vec![0xffu8, 0x41]).unwrap();
    capi_err(out, "E-bad-lang-name", "invalid_language_name", add(b"(number) @s.number", None, &scope, &bad_name), 7);
    capi_err(out, "E-bad-query-utf8", "invalid_utf8_query", add(&[0x28, 0xff, 0x29], None, &scope, &lname), 4);
    capi_err(out, "E-null-regex-ok", "null_regex_ok", add(b"(number) @s.number", None, &scope, &lname), 0);
    14 + codes.len()
}

/// One document through the C API; the html must be what the Rust API renders for the same
/// configuration, and goes to the driver as a render case (model renderer + judge).
fn emit_capi(w: &mut World, api: &CApi, out: &mut impl Write, id: &str, root: usize, variant: usize, names_mode: &str, src: &[u8]) {
    let names = &api.names;
    let mut cfgs = Vec::new();
    for (i, ld) in w.langs.iter().enumerate() {
        let mut cfg = HighlightConfiguration::new(ld.language.clone(), LANGS[i], &ld.highlights, &ld.inj[variant], &ld.locals).expect("config");
        cfg.configure(names);
        cfgs.push(cfg);
    }
    watch_begin(format!("C {} {variant} {names_mode} {}", LANGS[root], hx(src)));
    let mut evs = Vec::new();
    {
        let cfgs_ref = &cfgs;
        if let Ok(it) = w.highlighter.highlight(&cfgs[root], src, None, None, move |name| lang_index(name).map(|i| &cfgs_ref[i])) {
            for e in it.flatten() {
                evs.push(e);
            }
        }
    }
    let crh = names.iter().position(|n| n == "carriage-return");
    let (rc, html, lines) = api.highlight(&format!("scope.{}", LANGS[root]), src, None);
    watch_end();
    let crs = crh.map(|c| c.to_string()).unwrap_or("-".into());
    writeln!(out, "spec {id} C {} {variant} {names_mode} {}", LANGS[root], hx(src)).unwrap();
    writeln!(out, "case {id}\nsrc {}\nevs {}\ncrh {crs}", hx(src), evs_to_string(&evs)).unwrap();
    let l: Vec<String> = lines.iter().map(|x| x.to_string()).collect();
    writeln!(out, "html {}\nlines {}\ncapirc {rc}\nrun render", hx(&html), if l.is_empty() { "-".into() } else { l.join(",") }).unwrap();
}

/// One step of a history.
#[derive(Clone)]
struct Step {
    root: usize,
    cancel: String, // N | P | K<k>
    doc: Vec<u8>,
}

fn history_spec(variant: usize, steps: &[Step]) -> String {
    let parts: Vec<String> = steps.iter().map(|s| format!("{}:{}:{}", LANGS[s.root], s.cancel, hx(&s.doc))).collect();
    format!("S {variant} {}", parts.join("|"))
}

fn parse_history(s: &str) -> Vec<Step> {
    s.split('|')
        .filter_map(|p| {
            let f: Vec<&str> = p.split(':').collect();
            if f.len() != 3 {
                return None;
            }
            Some(Step { root: lang_index(f[0])?, cancel: f[1].to_string(), doc: unhx(f[2]) })
        })
        .collect()
}

/// Runs a history over ONE fresh Highlighter.  Steps with a cancellation: the run is consumed with the
/// flag preset / raised after k events; the emitted prefix is judged (`run prefix`).  Steps without:
/// the document goes through `emit_full` (exact correspondence with the end-to-end model) and
/// `emit_highlight` (full judge), both with the history's highlighter and the history as replay spec.
fn emit_history(w: &mut World, out: &mut impl Write, id: &str, variant: usize, steps: &[Step]) {
    use std::sync::atomic::{AtomicUsize, Ordering};
    let spec = history_spec(variant, steps);
    let mut session = Highlighter::new();
    for (j, st) in steps.iter().enumerate() {
        if st.cancel == "N" {
            std::mem::swap(&mut w.highlighter, &mut session);
            w.spec_override = Some(spec.clone());
            emit_full(w, out, &format!("{id}.{j}f"), st.root, variant, "all", &st.doc);
            emit_highlight(w, out, &format!("{id}.{j}h"), st.root, variant, "all", None, &st.doc);
            w.spec_override = None;
            std::mem::swap(&mut w.highlighter, &mut session);
            continue;
        }
        let all = names_of(&w.langs, variant);
        let mut cfgs = Vec::new();
        for (i, ld) in w.langs.iter().enumerate() {
            let mut cfg = HighlightConfiguration::new(ld.language.clone(), LANGS[i], &ld.highlights, &ld.inj[variant], &ld.locals).expect("config");
            cfg.configure(&all);
            cfgs.push(cfg);
        }
        let flag = AtomicUsize::new(if st.cancel == "P" { 1 } else { 0 });
        let k: usize = st.cancel.trim_start_matches('K').parse().unwrap_or(usize::MAX);
        watch_begin(spec.clone());
        let mut evs = Vec::new();
        let mut outcome = "completed".to_string();
        {
            let cfgs_ref = &cfgs;
            if k == 0 {
                flag.store(1, Ordering::SeqCst);
            }
            match session.highlight(&cfgs[st.root], &st.doc, None, Some(&flag), move |name| lang_index(name).map(|i| &cfgs_ref[i])) {
                Ok(it) => {
                    for e in it {
                        match e {
                            Ok(e) => {
                                evs.push(e);
                                if evs.len() == k {
                                    flag.store(1, Ordering::SeqCst);
                                }
                            }
                            Err(tree_sitter_highlight::Error::Cancelled) => {
                                outcome = "cancelled".into();
                                break;
                            }
                            Err(e) => {
                                outcome = format!("error:{e}").replace(' ', "_");
                                break;
                            }
                        }
                        if evs.len() > 400_000 {
                            outcome = "error:too-many-events".into();
                            break;
                        }
                    }
                }
                Err(tree_sitter_highlight::Error::Cancelled) => outcome = "cancelled".into(),
                Err(e) => outcome = format!("error:{e}").replace(' ', "_"),
            }
        }
        watch_end();
        // a preset flag must stop any document that is large enough for the first poll
        // K<k>: the flag is polled every 100 iterations of the event loop, so a run that goes on for much
        // longer after the flag was raised has ignored it (decided by the driver from the event count)
        let expect = if st.cancel == "P" && st.doc.len() >= 2000 { "cancel".to_string() } else if st.cancel.starts_with('K') { st.cancel.to_lowercase() } else { "any".to_string() };
        writeln!(out, "spec {id}.{j}p {spec}").unwrap();
        writeln!(out, "case {id}.{j}p\nsrc {}\nevs {}\noutcome {outcome} {expect}\nrun prefix", hx(&st.doc), evs_to_string(&evs)).unwrap();
    }
}

fn gen_doc(gg: &gen::GrammarGen, rng: &mut Rng, root: usize, big: bool) -> Vec<u8> {
    let mut d = String::new();
    let reps = if big { rng.range(25, 60) } else { 1 };
    for _ in 0..reps {
        match root {
            0 => d.push_str(&gen_stmt_locals(rng, 2)),
            1 => d.push_str(&gen_tmpl(gg, rng, 2)),
            _ => {
                d.push_str(&gen_host(gg, rng, 2));
                if big && rng.chance(1, 3) {
                    // a big injected layer: its parse can be the one that is abandoned
                    let mut inner = String::new();
                    for _ in 0..rng.range(40, 90) {
                        inner.push_str(&gen_stmt_locals(rng, 1));
                    }
                    d.push_str(&format!(" $stmt`{}` ", inner.replace('`', "'")));
                }
            }
        }
    }
    let mut b = d.into_bytes();
    b.truncate(12000);
    b
}

// ---------------------------------------------------------------------------------------------
// generators
/// Long inputs: `prefix` ASCII filler bytes, then `mid`, then a short tail.  The filler has no
/// newline/CR/escaped characters so that the position of `mid` is the only thing that varies.
fn long_bytes(prefix: usize, mid: &[u8], tail: &[u8]) -> Vec<u8> {
    let mut v = Vec::with_capacity(prefix + mid.len() + tail.len());
    for i in 0..prefix {
        v.push(b"abcdefghijklmnopqrstuvwxyz_0123456789"[i % 37]);
    }
    v.extend_from_slice(mid);
    v.extend_from_slice(tail);
    v
}

const MB_CHARS: [&[u8]; 3] = ["é".as_bytes(), "€".as_bytes(), "😀".as_bytes()];

/// Offsets at which a multi-byte character is placed in long inputs: around every power of two
/// from 1 KiB to 64 KiB (and some odd multiples of 1 KiB) by a few bytes either side, plus a
/// thinned-out sweep of all residues mod 1024.
fn long_offsets(rng: &mut Rng, thorough: bool) -> Vec<usize> {
    let mut v = Vec::new();
    let bases: &[usize] = if thorough { &[512, 1024, 2048, 3072, 4096, 5120, 8192, 16384, 32768, 65536] } else { &[1024, 2048, 3072, 4096, 8192, 65536] };
    for &b in bases {
        for d in 0..=5usize {
            v.push(b - d);
        }
        v.push(b + 1);
        v.push(b + 2);
    }
    let step = if thorough { 7 } else { 41 };
    let start = rng.below(step);
    for k in [1usize, 2, 5] {
        let mut r = start;
        while r < 1024 {
            v.push(k * 1024 + r);
            r += step;
        }
    }
    v
}

/// Random long byte string: valid multi-byte characters, ASCII runs, invalid and truncated sequences.
fn long_random(rng: &mut Rng, target: usize) -> Vec<u8> {
    let mut v = Vec::with_capacity(target + 8);
    let dirty = rng.chance(1, 2);
    while v.len() < target {
        match rng.below(10) {
            0..=4 => {
                for _ in 0..rng.range(1, 200) {
                    v.push(b"abcdefghij klmnop"[rng.below(17)]);
                }
            }
            5 | 6 => {
                for _ in 0..rng.range(1, 40) {
                    v.extend_from_slice(MB_CHARS[rng.below(3)]);
                }
            }
            7 => v.extend_from_slice(MB_CHARS[rng.below(3)]),
            8 if dirty => v.extend(spice(rng)),
            _ => v.push(b'y'),
        }
    }
    v
}



const WORDS: [&str; 10] = ["a", "b", "foo", "x", "count", "tmp", "y", "n", "val", "k"];

fn spice(rng: &mut Rng) -> Vec<u8> {
    match rng.below(14) {
        0 => b"\r\n".to_vec(),
        1 => b"\r".to_vec(),
        2 => "é".as_bytes().to_vec(),
        3 => "€".as_bytes().to_vec(),
        4 => "😀".as_bytes().to_vec(),
        5 => vec![0xFF],
        6 => vec![0xE2, 0x82],
        7 => vec![0xC3],
        8 => vec![0xF0, 0x9F, 0x98],
        9 => b"<&>'\"".to_vec(),
        10 => vec![0xC0, 0xAF],
        11 => vec![0xED, 0xA0, 0x80],
        12 => b"\n".to_vec(),
        _ => b" ".to_vec(),
    }
}

fn spice_doc(rng: &mut Rng, mut doc: Vec<u8>, level: usize) -> Vec<u8> {
    // level 0: untouched; 1: CR/CRLF line ends; 2: a few insertions anywhere; 3: byte noise; 4: truncated tail
    match level {
        1 => {
            let crlf = rng.chance(1, 2);
            let mut o = Vec::new();
            for b in doc {
                if b == b'\n' && rng.chance(2, 3) {
                    o.push(b'\r');
                    if crlf {
                        o.push(b'\n');
                    }
                } else {
                    o.push(b);
                }
            }
            if rng.chance(1, 3) {
                o.push(b'\r');
            }
            o
        }
        2 => {
            for _ in 0..rng.range(1, 4) {
                let p = rng.below(doc.len() + 1);
                let s = spice(rng);
                doc.splice(p..p, s);
            }
            doc
        }
        3 => gen::mutate_bytes(rng, &doc),
        4 => {
            let tail: &[u8] = match rng.below(4) {
                0 => &[0xE2],
                1 => &[0xE2, 0x82],
                2 => &[0xF0, 0x9F, 0x98],
                _ => &[0xFF],
            };
            doc.extend_from_slice(tail);
            doc
        }
        _ => doc,
    }
}

fn gen_stmt(gg: &gen::GrammarGen, rng: &mut Rng, budget: usize) -> Vec<u8> {
    let toks = gg.sentence(rng, budget);
    gg.render(&toks, rng).0
}

fn gen_stmt_locals(rng: &mut Rng, depth: usize) -> String {
    // statements with definitions and later references, nested blocks
    let mut s = String::new();
    for _ in 0..rng.range(1, 5) {
        let w = *rng.pick(&WORDS);
        match rng.below(6) {
            0 | 1 => s.push_str(&format!("{w} = {} + {};\n", rng.pick(&WORDS), rng.below(100))),
            2 => s.push_str(&format!("{w}({}, 'q{}');\n", rng.pick(&WORDS), rng.pick(&WORDS))),
            3 if depth > 0 => s.push_str(&format!("if {w} < {} {{\n{}}} else {{ return {w}; }}\n", rng.below(9), gen_stmt_locals(rng, depth - 1))),
            4 if depth > 0 => s.push_str(&format!("while {w} {{ {} }}\n", gen_stmt_locals(rng, depth - 1))),
            5 if rng.chance(1, 2) => {
                // boundary shapes: a reference that starts exactly where a scope ends, and a
                // reference inside / right after the value of a re-definition
                match rng.below(3) {
                    0 => s.push_str(&format!("{{ {w} = {}; }}{w};\n", rng.below(9))),
                    1 => s.push_str(&format!("{w} = 1;\n{w} = {w} + {w};{w};\n")),
                    _ => s.push_str(&format!("{{{w} = 2;{{ {w}; }}}}{w};\n")),
                }
            }
            _ => s.push_str(&format!("return {w}; // {}\n", rng.pick(&WORDS))),
        }
    }
    s
}

fn gen_tmpl(gg: &gen::GrammarGen, rng: &mut Rng, depth: usize) -> String {
    let mut s = String::new();
    for _ in 0..rng.range(1, 5) {
        match rng.below(7) {
            0 | 1 => {
                for _ in 0..rng.range(1, 4) {
                    s.push_str(*rng.pick(&WORDS));
                    s.push_str(*rng.pick(&[" ", "\n", " < ", " & ", ", "]));
                }
            }
            2 if depth > 0 => {
                if rng.chance(1, 3) {
                    // a host embed whose raw content continues after a directive: in the combined host
                    // layer (variant 1) the `raw` node spans the gap between two text chunks
                    s.push_str(&format!("$stmt`{} = {}; <% {} %> {} = {};` ", rng.pick(&WORDS), rng.below(9), rng.pick(&WORDS), rng.pick(&WORDS), rng.below(9)));
                } else {
                    s.push_str(&gen_host(gg, rng, depth - 1))
                }
            }
            3 => s.push_str(&format!("<%= {} + [[{}]] %>", rng.pick(&WORDS), rng.pick(&WORDS))),
            4 => {
                if rng.chance(1, 2) {
                    s.push_str(&format!("<%={} %>", rng.pick(&WORDS)))
                } else {
                    // code consisting of a single hole: two distinct nodes with the same range
                    s.push_str(&format!("<%[[{}]]%>", rng.pick(&WORDS)))
                }
            }
            5 => {
                if rng.chance(1, 3) {
                    // a string that spans a hole: in the stmt layer (holes excluded) the string node spans a gap
                    s.push_str(&format!("<% {} = 'a {} [[{}]] <%= {} b'; %>", rng.pick(&WORDS), rng.pick(&WORDS), rng.pick(&WORDS), rng.pick(&WORDS)))
                } else {
                    s.push_str(&format!("<% {} [[{}]] {} %>", gen_stmt_locals(rng, 0), rng.pick(&WORDS), gen_stmt_locals(rng, 0)))
                }
            }
            _ => s.push_str(&format!("<% {} %>", String::from_utf8_lossy(&gen_stmt(gg, rng, 8)))),
        }
    }
    s
}

fn gen_host(gg: &gen::GrammarGen, rng: &mut Rng, depth: usize) -> String {
    let mut s = String::new();
    for _ in 0..rng.range(1, 6) {
        let w = *rng.pick(&WORDS);
        match rng.below(9) {
            0 => s.push_str(&format!("{w} ")),
            1 => s.push_str(&format!("{} ", rng.below(1000))),
            2 => {
                match rng.below(4) {
                    // value ends exactly where the reference starts; scope ends exactly where a reference starts;
                    // two definitions of one name with different highlights in one scope
                    0 => s.push_str(&format!("let {w} = f({}){w} ", rng.below(9))),
                    1 => s.push_str(&format!("g(let {w} = 1){w} ")),
                    2 => s.push_str(&format!("{w}(let {w} = 1 {w}) {w} ")),
                    _ => s.push_str(&format!("let {w} = {}\n", rng.below(50))),
                }
            }
            3 if depth > 0 => s.push_str(&format!("{w}({} {})\n", gen_host(gg, rng, depth - 1), rng.pick(&WORDS))),
            4 => s.push_str(&format!("# note {w}\n")),
            // (content with or without leading white space: with it, the content node and the injected layer's
            // first node do not start at the same byte)
            5 if depth > 0 => s.push_str(&format!("$tmpl`{}{}` ", *rng.pick(&["", "", " ", "\n"]), gen_tmpl(gg, rng, depth - 1).replace('`', "'"))),
            6 => s.push_str(&format!("$stmt`{}{}` ", *rng.pick(&["", " ", "\n", "  "]), gen_stmt_locals(rng, 1).replace('`', "'"))),
            7 if depth > 0 => s.push_str(&format!("$host`{}{}` ", *rng.pick(&["", " ", "\n", " "]), gen_host(gg, rng, depth - 1).replace('`', "'"))),
            8 if rng.chance(1, 2) => {
                if rng.chance(1, 2) {
                    s.push_str(&format!("two($a`{w} = 1;` $b`{} = 2;`) ", rng.pick(&WORDS)))
                } else {
                    s.push_str(&format!("me($x`let {w} = 1 {w}` {w}) "))
                }
            }
            _ => s.push_str(&format!("$nolang`{w}` {w}\n")),
        }
    }
    s
}

fn gen_stream(rng: &mut Rng, src: &[u8], shape: usize) -> Vec<HighlightEvent> {
    // shape 0: well-formed; 1: extra End; 2: unclosed Start; 3: gap/overlap; 4: out of range (panics); 5: empty sources
    let n = src.len();
    let mut cuts = vec![0usize, n];
    for _ in 0..rng.below(6) {
        cuts.push(rng.below(n + 1));
    }
    cuts.sort();
    if shape != 5 {
        cuts.dedup();
    }
    let mut evs = Vec::new();
    let mut depth = 0usize;
    let between = |rng: &mut Rng, evs: &mut Vec<HighlightEvent>, depth: &mut usize| {
        for _ in 0..rng.below(3) {
            if *depth > 0 && rng.chance(1, 2) {
                evs.push(HighlightEvent::HighlightEnd);
                *depth -= 1;
            } else if *depth < 4 {
                evs.push(HighlightEvent::HighlightStart(Highlight(rng.below(12))));
                *depth += 1;
            }
        }
    };
    between(rng, &mut evs, &mut depth);
    for w in cuts.windows(2) {
        let (mut a, mut b) = (w[0], w[1]);
        if shape == 3 && rng.chance(1, 3) {
            a = a.saturating_sub(rng.below(3));
            b = (b + rng.below(3)).min(n);
        }
        if a < b || shape == 5 {
            evs.push(HighlightEvent::Source { start: a, end: b });
        }
        between(rng, &mut evs, &mut depth);
    }
    if shape != 2 {
        for _ in 0..depth {
            evs.push(HighlightEvent::HighlightEnd);
        }
    }
    if shape == 1 {
        let p = rng.below(evs.len() + 1);
        evs.insert(p, HighlightEvent::HighlightEnd);
    }
    if shape == 4 {
        let p = rng.below(evs.len() + 1);
        let e = if rng.chance(1, 2) { HighlightEvent::Source { start: n, end: n + 1 + rng.below(3) } } else { HighlightEvent::Source { start: rng.below(n + 1) + 1, end: 0 } };
        evs.insert(p, e);
    }
    evs
}

fn gen_render_src(rng: &mut Rng) -> Vec<u8> {
    let mut s = Vec::new();
    for _ in 0..rng.below(10) {
        if rng.chance(1, 2) {
            s.extend_from_slice(rng.pick(&WORDS).as_bytes());
        } else {
            s.extend(spice(rng));
        }
    }
    s
}

fn run_spec(w: &mut World, out: &mut impl Write, id: &str, fields: &[&str]) -> bool {
    let crh = |s: &str| if s == "-" { None } else { s.parse().ok() };
    match fields {
        ["L", h] => {
            emit_lossy(out, id, &unhx(h));
            true
        }
        ["R", c, s, e] => {
            emit_render(out, id, crh(c), &unhx(s), &parse_evs(e));
            true
        }
        ["R", c, s, e, m] => {
            emit_render_attr(out, id, crh(c), &unhx(s), &parse_evs(e), m.parse().unwrap_or(0));
            true
        }
        ["C", root, variant, names, s] => {
            let r = lang_index(root).expect("root language");
            let v: usize = variant.parse().unwrap_or(0);
            let mut nm = pick_names(&names_of(&w.langs, v), names);
            if names.ends_with("+cr") {
                nm.push("carriage-return".into());
            }
            let (api, _) = capi_new(&w.langs, v, &nm);
            emit_capi(w, &api, out, id, r, v, names, &unhx(s));
            true
        }
        ["S", variant, hist] => {
            let steps = parse_history(hist);
            emit_history(w, out, id, variant.parse().unwrap_or(0), &steps);
            true
        }
        ["E", ..] => {
            emit_capi_errors(w, out);
            true
        }
        ["F", root, variant, names, s] => {
            let r = lang_index(root).expect("root language");
            emit_full(w, out, id, r, variant.parse().unwrap_or(0), names, &unhx(s));
            true
        }
        ["N", root, variant, names, s] => {
            let r = lang_index(root).expect("root language");
            emit_multi(w, out, id, r, variant.parse().unwrap_or(0), names, &unhx(s));
            true
        }
        ["K", lang, names, s] => {
            let li = lang_index(lang).expect("language");
            emit_locals(w, out, id, li, names, &unhx(s));
            true
        }
        ["M", lang, names, s] => {
            let li = lang_index(lang).expect("language");
            emit_merge(w, out, id, li, names, &unhx(s));
            true
        }
        ["H", root, variant, names, c, s] => {
            let r = lang_index(root).expect("root language");
            emit_highlight(w, out, id, r, variant.parse().unwrap_or(0), names, crh(c), &unhx(s));
            true
        }
        _ => false,
    }
}

fn main() {
    limit_resources();
    // A panic while a highlight case is running in the real code is reported with that case's spec
    // (exit code 4, like the watchdog's HANG); panics of the renderer on synthetic ill-formed streams
    // (no case registered) are expected and caught by `real_render`.
    panic::set_hook(Box::new(|info| {
        if let Ok(g) = CURRENT.try_lock() {
            if let Some((_, spec)) = &*g {
                if let Some(l) = info.location() {
                    eprintln!("PANIC-AT {}:{}", l.file(), l.line());
                }
                eprintln!("PANIC {spec}");
                std::process::exit(4);
            }
        }
    }));
    start_watchdog();
    let args: Vec<String> = std::env::args().collect();
    let out_path = args.get(1).expect("usage: c17 <ops-file> [--spec file]").clone();
    let mut out = std::io::BufWriter::new(std::fs::File::create(&out_path).unwrap());
    // Behavioural probe of the real LossyUtf8, one distinguishing input per repaired defect; the driver
    // selects the port to compare with from it (the judge does not depend on it).
    {
        let collect = |b: &[u8]| -> Vec<u8> { LossyUtf8::new(b).take(16).flat_map(|p| p.bytes()).collect() };
        // final-invalid defect: `ab\xff` -> `ab` (old) / `ab` U+FFFD (repaired); independent of the other defect.
        // truncated-tail defect: probed with `\xe2` alone (old: nothing, repaired: U+FFFD) because on `ab\xe2` the two
        // defects interact (only the first repaired: `ab`); `ab\xe2` is recorded as well.
        let f = collect(b"ab\xff");
        let t = collect(b"\xe2");
        let t2 = collect(b"ab\xe2");
        let bit = |got: &[u8], fixed: &[u8], old: &[u8]| if got == fixed { "1" } else if got == old { "0" } else { "x" };
        writeln!(out, "probe lossy {} {} {}/{}/{}", bit(&f, "ab\u{fffd}".as_bytes(), b"ab"), bit(&t, "\u{fffd}".as_bytes(), b""), hx(&f), hx(&t), hx(&t2)).unwrap();
    }
    let mut w = World { langs: load_langs(), highlighter: Highlighter::new(), spec_override: None };
    // Behavioural probe of `Highlighter::highlight`'s initial layer order (two combined injection layers whose
    // first boundaries are not in pattern order): is the identifier at 4..5 highlighted in place?
    {
        let names = names_of(&w.langs, 4);
        let mut cfgs = Vec::new();
        for (i, ld) in w.langs.iter().enumerate() {
            let mut cfg = HighlightConfiguration::new(ld.language.clone(), LANGS[i], &ld.highlights, &ld.inj[4], &ld.locals).expect("config");
            cfg.configure(&names);
            cfgs.push(cfg);
        }
        let doc = b"<%= x %> hello a";
        let cfgs_ref = &cfgs;
        let mut in_place = false;
        if let Ok(it) = w.highlighter.highlight(&cfgs[1], doc, None, None, move |name| lang_index(name).map(|i| &cfgs_ref[i])) {
            for e in it.flatten() {
                if let HighlightEvent::Source { start, end } = e {
                    if start == 4 && end == 5 {
                        in_place = true;
                    }
                }
            }
        }
        writeln!(out, "probe initorder {}", in_place as u8).unwrap();
    }
    // which CR-CR behaviour does the real HtmlRenderer::add_text have?  ("\r\rx" with a CR highlight:
    // two markers = a CR that follows a pending CR resolves the pending one as a lone CR)
    {
        let evs = vec![HighlightEvent::Source { start: 0, end: 3 }];
        let marks = real_render(&evs, b"\r\rx", Some(7))
            .map(|(html, _)| String::from_utf8_lossy(&html).matches("<span class=c7></span>").count())
            .unwrap_or(0);
        writeln!(out, "probe crcr {}", (marks == 2) as u8).unwrap();
    }
    let mut n = 0usize;
    if args.get(2).map(|s| s == "--spec").unwrap_or(false) {
        let specs = std::fs::read_to_string(&args[3]).unwrap();
        for (i, line) in specs.lines().enumerate() {
            let f: Vec<&str> = line.split_whitespace().collect();
            let f = if !f.is_empty() && !["L", "R", "H", "M", "N", "K", "F", "C", "E", "S"].contains(&f[0]) { &f[1..] } else { &f[..] };
            if run_spec(&mut w, &mut out, &format!("r{i}"), f) {
                n += 1;
            }
        }
        out.flush().unwrap();
        eprintln!("c17: replayed {n} cases");
        return;
    }
    let thorough = tier_is_thorough();
    let mut rng = Rng::new(seed_from_env());
    // 1. corpus
    if let Some(corpus) = zoo_corpus("c17") {
        for (i, line) in corpus.lines().enumerate() {
            let line = line.trim();
            if line.is_empty() || line.starts_with('#') {
                continue;
            }
            let f: Vec<&str> = line.split_whitespace().collect();
            if run_spec(&mut w, &mut out, &format!("c{i}"), &f) {
                n += 1;
            }
        }
    }
    // 2. LossyUtf8: all strings of length <= 3 over a boundary alphabet, then random longer ones
    let alpha: [u8; 12] = [b'a', 0xC3, 0xA9, 0xE2, 0x82, 0xAC, 0xF0, 0x9F, 0x80, 0xFF, 0xC0, 0xED];
    let mut li = 0usize;
    for len in 0..=3usize {
        let total = alpha.len().pow(len as u32);
        for k in 0..total {
            let mut kk = k;
            let mut b = Vec::new();
            for _ in 0..len {
                b.push(alpha[kk % alpha.len()]);
                kk /= alpha.len();
            }
            emit_lossy(&mut out, &format!("L{li}"), &b);
            li += 1;
        }
    }
    for _ in 0..(if thorough { 20000 } else { 1500 }) {
        let mut b = Vec::new();
        for _ in 0..rng.range(1, 12) {
            match rng.below(4) {
                0 => b.push(*rng.pick(&alpha)),
                1 => b.push(rng.below(256) as u8),
                2 => b.extend(spice(&mut rng)),
                _ => b.extend_from_slice(rng.pick(&WORDS).as_bytes()),
            }
        }
        emit_lossy(&mut out, &format!("L{li}"), &b);
        li += 1;
    }
    n += li;
    // 3. HtmlRenderer on synthetic streams
    let nr = if thorough { 30000 } else { 2500 };
    for i in 0..nr {
        let src = gen_render_src(&mut rng);
        let shape = match rng.below(12) {
            0 => 1,
            1 => 2,
            2 => 3,
            3 => 4,
            4 => 5,
            _ => 0,
        };
        let evs = gen_stream(&mut rng, &src, shape);
        let crh = if rng.chance(1, 2) { Some(rng.below(20)) } else { None };
        let mode = match rng.below(10) {
            0 | 1 => 1,
            2 => 2,
            3 => 3,
            _ => 0,
        };
        emit_render_attr(&mut out, &format!("R{i}"), crh, &src, &evs, mode);
        n += 1;
    }
    // 3b. the CR/LF family for the PER-LINE view: CRLF, lone CR, CR at chunk boundaries, CR CR LF, CR at
    // EOF, CRLF inside spans and at span boundaries, mixed with LF -- each stream rendered BOTH without
    // and with a carriage-return highlight (id 19: never used by the generated streams)
    let ncr = if thorough { 6000 } else { 500 };
    for i in 0..ncr {
        let mut src = Vec::new();
        for _ in 0..rng.range(1, 9) {
            match rng.below(12) {
                0 | 1 => src.extend_from_slice(b"\r\n"),
                2 => src.push(b'\r'),
                3 => src.push(b'\n'),
                4 => src.extend_from_slice(b"\r\r\n"),
                5 => src.extend_from_slice(b"\n\r"),
                6 => src.extend_from_slice("é".as_bytes()),
                7 => src.extend_from_slice(b"<&"),
                _ => src.extend_from_slice(rng.pick(&WORDS).as_bytes()),
            }
        }
        if rng.chance(1, 4) {
            src.push(b'\r');
        }
        let evs = if rng.chance(1, 6) {
            // every CR / LF at a chunk AND span boundary
            let mut evs = Vec::new();
            let mut a = 0usize;
            let mut open = false;
            for (k, b) in src.iter().enumerate() {
                if *b == b'\r' || *b == b'\n' {
                    if a < k + 1 {
                        evs.push(HighlightEvent::Source { start: a, end: k + 1 });
                        a = k + 1;
                    }
                    if open {
                        evs.push(HighlightEvent::HighlightEnd);
                        open = false;
                    } else if rng.chance(1, 2) {
                        evs.push(HighlightEvent::HighlightStart(Highlight(rng.below(12))));
                        open = true;
                    }
                }
            }
            if a < src.len() {
                evs.push(HighlightEvent::Source { start: a, end: src.len() });
            }
            if open {
                evs.push(HighlightEvent::HighlightEnd);
            }
            evs
        } else {
            gen_stream(&mut rng, &src, 0)
        };
        let mode = if rng.chance(1, 5) { 1 } else { 0 };
        emit_render_attr(&mut out, &format!("RC{i}a"), None, &src, &evs, mode);
        emit_render_attr(&mut out, &format!("RC{i}b"), Some(19), &src, &evs, mode);
        n += 2;
    }
    // 4. real highlighting
    let stmt_gg = gen::GrammarGen::new(&zoo::load("stmt").unwrap().grammar_json, zoo::read_zoo_file("stmt", "samples.json").as_deref());
    let nh = if thorough { 4000 } else { 480 };
    let mut with_inj = 0usize;
    for i in 0..nh {
        let root = i % 3;
        let variant = (i / 3) % 3;
        let doc: Vec<u8> = match root {
            0 => {
                if rng.chance(1, 2) {
                    { let b = *rng.pick(&[5usize, 20, 60, 150]); gen_stmt(&stmt_gg, &mut rng, b) }
                } else {
                    gen_stmt_locals(&mut rng, 2).into_bytes()
                }
            }
            1 => gen_tmpl(&stmt_gg, &mut rng, 2).into_bytes(),
            _ => gen_host(&stmt_gg, &mut rng, 3).into_bytes(),
        };
        let level = match rng.below(10) {
            0 | 1 => 1,
            2 | 3 => 2,
            4 => 3,
            5 => 4,
            _ => 0,
        };
        let mut doc = spice_doc(&mut rng, doc, level);
        doc.truncate(6000);
        let names = match rng.below(8) {
            0 => "none".to_string(),
            1 => "generic".to_string(),
            2 | 3 => format!("sub{}", rng.below(1000)),
            _ => "all".to_string(),
        };
        let crh = if rng.chance(1, 3) { Some(rng.below(20)) } else { None };
        if emit_highlight(&mut w, &mut out, &format!("H{i}"), root, variant, &names, crh, &doc) {
            with_inj += 1;
        }
        n += 1;
    }
    // 4b. LONG inputs (spans of 1 KiB … 64 KiB): LossyUtf8 directly, HtmlRenderer on one long Source
    // span (plain / inside highlights / split), and real highlighting of documents with one long token
    let offs = long_offsets(&mut rng, thorough);
    let mut nlong = 0usize;
    for (i, &p) in offs.iter().enumerate() {
        let ch = MB_CHARS[i % 3];
        let tail: &[u8] = [&b""[..], b"z", b" tail", "é".as_bytes()][(i / 3) % 4];
        let b = long_bytes(p, ch, tail);
        emit_lossy(&mut out, &format!("LL{i}"), &b);
        nlong += 1;
        // the same bytes through the renderer: every 2nd as one plain span, the others inside highlights / split
        let n_b = b.len();
        let evs = match i % 4 {
            0 => vec![HighlightEvent::Source { start: 0, end: n_b }],
            1 => vec![HighlightEvent::HighlightStart(Highlight(3)), HighlightEvent::Source { start: 0, end: n_b }, HighlightEvent::HighlightEnd],
            2 => {
                // a short span first, so that the long span does not start at offset 0
                let k = 1 + rng.below(7.min(n_b - 1));
                vec![HighlightEvent::Source { start: 0, end: k }, HighlightEvent::HighlightStart(Highlight(1)), HighlightEvent::HighlightStart(Highlight(2)), HighlightEvent::Source { start: k, end: n_b }, HighlightEvent::HighlightEnd, HighlightEvent::HighlightEnd]
            }
            _ => continue,
        };
        emit_render(&mut out, &format!("RL{i}"), if i % 8 == 1 { Some(5) } else { None }, &b, &evs);
        nlong += 1;
    }
    for i in 0..(if thorough { 200 } else { 40 }) {
        let target = [1500usize, 3000, 5000, 9000][i % 4] + rng.below(300);
        let mut b = long_random(&mut rng, target);
        if i % 5 == 0 {
            // a few line breaks and escapes as well
            for _ in 0..6 {
                let p = rng.below(b.len());
                b.splice(p..p, b"\r\n<&>".iter().copied());
            }
        }
        emit_lossy(&mut out, &format!("LR{i}"), &b);
        let n_b = b.len();
        let cut = rng.below(n_b + 1);
        let evs = if i % 2 == 0 {
            vec![HighlightEvent::HighlightStart(Highlight(0)), HighlightEvent::Source { start: 0, end: n_b }, HighlightEvent::HighlightEnd]
        } else if cut > 0 && cut < n_b {
            vec![HighlightEvent::Source { start: 0, end: cut }, HighlightEvent::HighlightStart(Highlight(4)), HighlightEvent::Source { start: cut, end: n_b }, HighlightEvent::HighlightEnd]
        } else {
            vec![HighlightEvent::Source { start: 0, end: n_b }]
        };
        emit_render(&mut out, &format!("RR{i}"), None, &b, &evs);
        nlong += 2;
    }
    // real highlighting: one long token (comment / string in stmt, text chunk in tmpl, comment / raw in host)
    let hoffs: Vec<usize> = offs.iter().copied().filter(|&p| p <= 8300).collect();
    let nhl = if thorough { hoffs.len() } else { hoffs.len().min(90) };
    for i in 0..nhl {
        let p = hoffs[(i * 7) % hoffs.len()];
        let ch = MB_CHARS[i % 3];
        let body = long_bytes(p, ch, b"z");
        let (root, doc): (usize, Vec<u8>) = match i % 5 {
            0 => (0, [&b"x = 1; // "[..], &body, b"\nreturn x;\n"].concat()),
            1 => (0, [&b"foo('"[..], &body, b"');\n"].concat()),
            2 => (1, [&body[..], b"<%= a %> t"].concat()),
            3 => (2, [&b"let k = 3 # "[..], &body, b"\nk\n"].concat()),
            _ => (2, [&b"$stmt`// "[..], &body, b"\nx = 1;` k"].concat()),
        };
        emit_highlight(&mut w, &mut out, &format!("HL{i}"), root, i % 3, "all", None, &doc);
        nlong += 1;
    }
    n += nlong;
    // 5. single-layer merge: real events vs the capture list of the layer
    let nm = if thorough { 3000 } else { 300 };
    for i in 0..nm {
        let li = i % 3;
        let doc: Vec<u8> = match li {
            0 => {
                if rng.chance(1, 2) {
                    let b = *rng.pick(&[5usize, 20, 60, 150]);
                    gen_stmt(&stmt_gg, &mut rng, b)
                } else {
                    gen_stmt_locals(&mut rng, 2).into_bytes()
                }
            }
            1 => gen_tmpl(&stmt_gg, &mut rng, 2).into_bytes(),
            _ => gen_host(&stmt_gg, &mut rng, 3).into_bytes(),
        };
        let level = match rng.below(8) {
            0 => 1,
            1 => 2,
            2 => 3,
            _ => 0,
        };
        let mut doc = spice_doc(&mut rng, doc, level);
        doc.truncate(6000);
        let names = match rng.below(6) {
            0 => "generic".to_string(),
            1 | 2 => format!("sub{}", rng.below(1000)),
            _ => "all".to_string(),
        };
        emit_merge(&mut w, &mut out, &format!("M{i}"), li, &names, &doc);
        n += 1;
    }
    // 6. multi-layer merge (no locals queries): real events vs all layers' raw captures
    let nn = if thorough { 4000 } else { 450 };
    let mut multi = 0usize;
    for i in 0..nn {
        let root = i % 3;
        let variant = (i / 3) % 3;
        let doc: Vec<u8> = match root {
            0 => {
                if rng.chance(1, 2) {
                    let b = *rng.pick(&[5usize, 20, 60, 150]);
                    gen_stmt(&stmt_gg, &mut rng, b)
                } else {
                    gen_stmt_locals(&mut rng, 2).into_bytes()
                }
            }
            1 => gen_tmpl(&stmt_gg, &mut rng, 2).into_bytes(),
            _ => gen_host(&stmt_gg, &mut rng, 3).into_bytes(),
        };
        let level = match rng.below(8) {
            0 => 1,
            1 => 2,
            2 => 3,
            _ => 0,
        };
        let mut doc = spice_doc(&mut rng, doc, level);
        doc.truncate(6000);
        let names = match rng.below(6) {
            0 => "generic".to_string(),
            1 | 2 => format!("sub{}", rng.below(1000)),
            _ => "all".to_string(),
        };
        if emit_multi(&mut w, &mut out, &format!("N{i}"), root, variant, &names, &doc) {
            multi += 1;
        }
        n += 1;
    }
    // 6b. end-to-end: locals + injections together (variants 0..3), model-driven injection step
    let nf = if thorough { 4000 } else { 480 };
    let mut fmulti = 0usize;
    for i in 0..nf {
        let root = i % 3;
        let variant = (i / 3) % 5;
        let doc: Vec<u8> = match root {
            0 => {
                if rng.chance(1, 3) {
                    let b = *rng.pick(&[5usize, 20, 60, 150]);
                    gen_stmt(&stmt_gg, &mut rng, b)
                } else {
                    gen_stmt_locals(&mut rng, 2).into_bytes()
                }
            }
            1 => {
                let mut d = gen_tmpl(&stmt_gg, &mut rng, 2);
                if rng.chance(1, 3) {
                    // an output before the first text: with two combined patterns the layers' first boundaries
                    // are then not in pattern order
                    d = format!("<%= {} %> {d}", rng.pick(&WORDS));
                }
                d.into_bytes()
            }
            _ => {
                let mut d = gen_host(&stmt_gg, &mut rng, 3);
                if variant == 3 && rng.chance(1, 2) {
                    d.push_str(&format!(" me($x`{}` {}) ", gen_host(&stmt_gg, &mut rng, 1).replace('`', "'"), rng.pick(&WORDS)));
                }
                d.into_bytes()
            }
        };
        let level = match rng.below(8) {
            0 => 1,
            1 => 2,
            2 => 3,
            _ => 0,
        };
        let mut doc = spice_doc(&mut rng, doc, level);
        doc.truncate(6000);
        let names = match rng.below(6) {
            0 => "generic".to_string(),
            1 | 2 => format!("sub{}", rng.below(1000)),
            _ => "all".to_string(),
        };
        if emit_full(&mut w, &mut out, &format!("F{i}"), root, variant, &names, &doc) {
            fmulti += 1;
        }
        n += 1;
    }
    eprintln!("c17: {nf} end-to-end cases of which {fmulti} with >1 layer");
    // 6c. the C API: error codes, then documents through ONE highlighter + ONE buffer per (variant, names)
    n += emit_capi_errors(&mut w, &mut out);
    let nc = if thorough { 1200 } else { 160 };
    for v in 0..4usize {
        for (k, mode) in ["all", "all+cr", "generic"].iter().enumerate() {
            let mut nm = pick_names(&names_of(&w.langs, v), mode.trim_end_matches("+cr"));
            if mode.ends_with("+cr") {
                nm.push("carriage-return".into());
            }
            let (api, _) = capi_new(&w.langs, v, &nm);
            for i in 0..(nc / 12) {
                let root = (i + k) % 3;
                let doc: Vec<u8> = match root {
                    0 => gen_stmt_locals(&mut rng, 2).into_bytes(),
                    1 => gen_tmpl(&stmt_gg, &mut rng, 2).into_bytes(),
                    _ => gen_host(&stmt_gg, &mut rng, 2).into_bytes(),
                };
                let level = match rng.below(6) {
                    0 | 1 => 1,
                    2 => 2,
                    _ => 0,
                };
                let mut doc = spice_doc(&mut rng, doc, level);
                doc.truncate(4000);
                if doc.len() >= 2 && (doc[..2] == [0xFF, 0xFE] || doc[..2] == [0xFE, 0xFF]) {
                    doc.insert(0, b' '); // a UTF-16 BOM would switch the C API to UTF-16
                }
                emit_capi(&mut w, &api, &mut out, &format!("C{v}-{k}-{i}"), root, v, mode, &doc);
                n += 1;
            }
        }
    }
    // 6d. HISTORIES over one Highlighter: cancelled runs (flag preset / raised after k events, during the
    // parse of a big document or of a big injected layer) followed by completed runs on other documents
    let nhist = if thorough { 400 } else { 60 };
    for i in 0..nhist {
        let variant = i % 4;
        let nsteps = rng.range(2, 5);
        let mut steps: Vec<Step> = Vec::new();
        let mut lang = rng.below(3);
        while steps.len() < nsteps {
            let cancel = match rng.below(8) {
                0 | 1 => "P".to_string(),
                2 | 3 | 4 => format!("K{}", *rng.pick(&[0usize, 1, 3, 20, 99, 100, 101, 250, 600])),
                _ => "N".to_string(),
            };
            if rng.chance(1, 3) {
                lang = rng.below(3);
            }
            let big = cancel != "N" && rng.chance(3, 4);
            steps.push(Step { root: lang, cancel: cancel.clone(), doc: gen_doc(&stmt_gg, &mut rng, lang, big) });
            if cancel != "N" {
                // after a (possibly) cancelled run: a completed run on a different, usually shorter, document,
                // mostly of the same language
                let l2 = if rng.chance(3, 4) { lang } else { rng.below(3) };
                steps.push(Step { root: l2, cancel: "N".into(), doc: gen_doc(&stmt_gg, &mut rng, l2, false) });
            }
        }
        emit_history(&mut w, &mut out, &format!("S{i}"), variant, &steps);
        n += steps.len();
    }
    // 7. single layer with its locals query: real events vs the locals model
    let nk = if thorough { 3000 } else { 300 };
    for i in 0..nk {
        let li = if i % 2 == 0 { 0 } else { 2 };
        let doc: Vec<u8> = if li == 0 {
            if rng.chance(1, 4) {
                let b = *rng.pick(&[20usize, 60, 150]);
                gen_stmt(&stmt_gg, &mut rng, b)
            } else {
                gen_stmt_locals(&mut rng, 3).into_bytes()
            }
        } else {
            gen_host(&stmt_gg, &mut rng, 3).into_bytes()
        };
        let level = match rng.below(8) {
            0 => 2,
            1 => 3,
            _ => 0,
        };
        let mut doc = spice_doc(&mut rng, doc, level);
        doc.truncate(6000);
        let names = match rng.below(6) {
            0 => "generic".to_string(),
            1 | 2 => format!("sub{}", rng.below(1000)),
            _ => "all".to_string(),
        };
        emit_locals(&mut w, &mut out, &format!("K{i}"), li, &names, &doc);
        n += 1;
    }
    out.flush().unwrap();
    eprintln!("c17: wrote {n} cases ({li} lossy, {nr} render, {nh} highlight of which {with_inj} with injections, {nm} single-layer merge, {nn} multi-layer merge of which {multi} with >1 layer, {nlong} long-input cases) to {out_path}");
}
