((string) @injection.content (#set! injection.language "tmpl"))
