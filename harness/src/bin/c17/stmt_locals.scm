(block) @local.scope
(assignment target: (identifier) @local.definition value: (_) @local.definition-value)
(identifier) @local.reference
