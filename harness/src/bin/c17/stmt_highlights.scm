; highlights for zoo/stmt (C17).  Capture names carry the language prefix `s.` so that a
; highlight index identifies the layer's language.
(identifier) @s.variable
((identifier) @s.global (#is-not? local))
["if" "else" "while" "return"] @s.keyword
(number) @s.number
(string) @s.string
(comment) @s.comment
(operator) @s.operator
(call_expression function: (identifier) @s.function)
(assignment target: (identifier) @s.def)
(assignment) @s.assign
(block) @s.block
(if_statement) @s.if
(binary_expression) @s.binary
